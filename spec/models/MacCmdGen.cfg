INIT Init
NEXT Next
INVARIANT TableConsistent
INVARIANT RoundTrip
INVARIANT RFUOnly
CONSTRAINT Emit
CHECK_DEADLOCK FALSE
