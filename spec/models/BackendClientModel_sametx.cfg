CONSTANTS Calls = {1, 2, 3}
          TxIds = {11, 12}
          Async = TRUE
          SubscribeFirst = TRUE
          DistinctTx = FALSE
INIT Init
NEXT Next
INVARIANT ExactAnswer
CHECK_DEADLOCK FALSE
