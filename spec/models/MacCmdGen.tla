---- MODULE MacCmdGen ----
(* (D) + case generator for the MAC-command tables.
   TLC enumerates, for every (direction, CID) with a payload, every byte string of the payload's
   size when that size is <= MaxExh bytes, and a boundary palette for longer payloads; for each it
   checks the table's own consistency (widths sum to the size, Decode o Encode o Decode = Decode,
   Encode o Decode clears exactly the RFU bits) and emits the decoded VALUE as a case that the Go
   harness encodes with the real library (one implementation test per specification state). *)
EXTENDS Integers, Sequences, SequencesExt, TLC, Json, IOUtils, CSV, Bytes, MACCommands

MaxExh == IF IOEnv.VERIF_MAXEXH = "2" THEN 2 ELSE 1
OutFile == IOEnv.VERIF_CASES
Palette == {0, 1, 15, 16, 127, 128, 254, 255}
SmallPalette == {0, 1, 128, 255}

VARIABLES dir, cid, bytes
vars == <<dir, cid, bytes>>

BytesOfSize(n) == IF n <= MaxExh THEN [1..n -> 0..255]
                  ELSE IF n <= 3 THEN [1..n -> Palette] ELSE [1..n -> SmallPalette]

Init == /\ dir \in {"up", "down"}
        /\ cid \in StdCIDsWithPayload(dir)
        /\ bytes \in BytesOfSize(Size(dir, cid))
Next == UNCHANGED vars

Lay == Layout(dir, cid)
Val == DecodeLayout(Lay, bytes)

TableConsistent == /\ HasPayload(dir, cid)
                   /\ WidthsOK(Lay)
                   /\ LayoutSize(Lay) = Len(bytes)
RoundTrip == /\ Representable(Lay, Val)
             /\ DecodeLayout(Lay, EncodeLayout(Lay, Val)) = Val
             /\ Len(EncodeLayout(Lay, Val)) = Size(dir, cid)
\* re-encoding differs from the received bytes only in RFU bit positions
RFUOnly == LET re == EncodeLayout(Lay, Val) IN \A i \in 1..Len(bytes) : re[i] <= bytes[i] /\ (re[i] & bytes[i]) = re[i]

Emit == CSVWrite("%1$s", <<ToJson([dir |-> dir, cid |-> cid, val |-> Val])>>, OutFile)
====
