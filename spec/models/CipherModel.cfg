INIT Init
NEXT Next
INVARIANT LengthPreserved
INVARIANT Involution
INVARIANT BlocksDistinct
INVARIANT NotIdentity
INVARIANT FOptsRule
INVARIANT FOptsInvolution
INVARIANT JoinAcceptInverse
CHECK_DEADLOCK FALSE
