---- MODULE RegistryConc ----
(* C10 (D): registrars and decoders of the process-global MAC-command registry under its
   readers-writer lock, one action per hook point of the real code:
     decoder lookup   acq (RLock acquired) -> acc (map read) -> rel (RUnlock, return)
     registrar        acq (Lock acquired)  -> acc (map write) -> rel (Unlock, return)
   TLC explores ALL interleavings of Decoders x Registrars x their operation lists.
   Invariants:
     LockDiscipline   a process at `acc` holds the lock in the mode it needs; a writer excludes everyone
     Linearizable     a lookup returns the size that some registration prefix, consistent with real-time
                      order, had installed (the value of the map between its acq and rel)
     NoDeadlock       as long as an operation is outstanding some process can take a step
   Every maximal behaviour (its schedule) is emitted as a case; the Go harness replays it on the real
   code with the blocking hook as scheduler gate. *)
EXTENDS Integers, Sequences, SequencesExt, FiniteSets, TLC, Json, IOUtils, CSV

OutFile == IOEnv.VERIF_CASES
Thorough == IOEnv.VERIF_GEN = "thorough"
Decoders == {"D1", "D2"}
Registrars == IF Thorough THEN {"R1", "R2"} ELSE {"R1"}
Procs == Decoders \cup Registrars
\* operation lists: (cid, size) registrations in direction "up"; lookups of a cid
Ops(p) == CASE p = "R1" -> <<[cid |-> 200, size |-> 1], [cid |-> 200, size |-> 2]>>
            [] p = "R2" -> <<[cid |-> 201, size |-> 3]>>
            [] p = "D1" -> <<[cid |-> 200], [cid |-> 201]>>
            [] p = "D2" -> <<[cid |-> 3], [cid |-> 200]>>          \* 3 = LinkADRAns: a STANDARD entry (size 1) lives in the same map

VARIABLES reg, readers, writer, pc, opi, seen, results, sched, hist
vars == <<reg, readers, writer, pc, opi, seen, results, sched, hist>>
NoOne == "none"
Init == /\ reg = [c \in {3, 200, 201} |-> IF c = 3 THEN 1 ELSE 0] /\ readers = {} /\ writer = NoOne
        /\ pc = [p \in Procs |-> "idle"] /\ opi = [p \in Procs |-> 1]
        /\ seen = [p \in Procs |-> -1] /\ results = [p \in Procs |-> <<>>] /\ sched = <<>> /\ hist = <<>>

HasOp(p) == opi[p] <= Len(Ops(p))
Cur(p) == Ops(p)[opi[p]]
Step(p, l) == sched' = Append(sched, <<p, l>>)

DAcq(p) == /\ p \in Decoders /\ pc[p] = "idle" /\ HasOp(p) /\ writer = NoOne
           /\ readers' = readers \cup {p} /\ pc' = [pc EXCEPT ![p] = "acq"] /\ Step(p, "acq")
           /\ hist' = Append(hist, [p |-> p, ev |-> "start", reg |-> reg])
           /\ UNCHANGED <<reg, writer, opi, seen, results>>
DAcc(p) == /\ p \in Decoders /\ pc[p] = "acq"
           /\ seen' = [seen EXCEPT ![p] = reg[Cur(p).cid]] /\ pc' = [pc EXCEPT ![p] = "acc"] /\ Step(p, "acc")
           /\ UNCHANGED <<reg, readers, writer, opi, results, hist>>
DRel(p) == /\ p \in Decoders /\ pc[p] = "acc"
           /\ readers' = readers \ {p} /\ pc' = [pc EXCEPT ![p] = "idle"] /\ opi' = [opi EXCEPT ![p] = @ + 1]
           /\ results' = [results EXCEPT ![p] = Append(@, seen[p])] /\ Step(p, "rel")
           /\ hist' = Append(hist, [p |-> p, ev |-> "end", reg |-> reg])
           /\ UNCHANGED <<reg, writer, seen>>
RAcq(p) == /\ p \in Registrars /\ pc[p] = "idle" /\ HasOp(p) /\ writer = NoOne /\ readers = {}
           /\ writer' = p /\ pc' = [pc EXCEPT ![p] = "acq"] /\ Step(p, "acq")
           /\ UNCHANGED <<reg, readers, opi, seen, results, hist>>
RAcc(p) == /\ p \in Registrars /\ pc[p] = "acq"
           /\ reg' = [reg EXCEPT ![Cur(p).cid] = Cur(p).size] /\ pc' = [pc EXCEPT ![p] = "acc"] /\ Step(p, "acc")
           /\ UNCHANGED <<readers, writer, opi, seen, results, hist>>
RRel(p) == /\ p \in Registrars /\ pc[p] = "acc"
           /\ writer' = NoOne /\ pc' = [pc EXCEPT ![p] = "idle"] /\ opi' = [opi EXCEPT ![p] = @ + 1] /\ Step(p, "rel")
           /\ UNCHANGED <<reg, readers, seen, results, hist>>
Next == \E p \in Procs : DAcq(p) \/ DAcc(p) \/ DRel(p) \/ RAcq(p) \/ RAcc(p) \/ RRel(p)

LockDiscipline == /\ \A p \in Decoders : pc[p] \in {"acq", "acc"} => (p \in readers /\ writer = NoOne)
                  /\ \A p \in Registrars : pc[p] \in {"acq", "acc"} => (writer = p /\ readers = {})
                  /\ Cardinality({p \in Registrars : pc[p] # "idle"}) <= 1
\* the value a lookup saw is the value the map had throughout its critical section (no write can intervene)
Linearizable == \A p \in Decoders : pc[p] = "acc" => seen[p] = reg[Cur(p).cid]
Maximal == \A p \in Procs : ~HasOp(p)
\* deadlock freedom of the lock protocol: while some process still has work, some step is possible
NoDeadlock == Maximal \/ ENABLED Next
Emit == ~Maximal \/ CSVWrite("%1$s", <<ToJson([sched |-> sched, results |-> results, final |-> [c \in {"200", "201"} |-> IF c = "200" THEN reg[200] ELSE reg[201]]])>>, OutFile)
View == <<reg, readers, writer, pc, opi, seen, results, sched>>
====
