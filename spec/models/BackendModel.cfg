INIT Init
NEXT Next
INVARIANT FreqIdentity
INVARIANT PercIdentity
CHECK_DEADLOCK FALSE
