INIT Init
NEXT Next
INVARIANT Reach
INVARIANT Bound
INVARIANT Minimal
INVARIANT Partition
INVARIANT StdUnaltered
CHECK_DEADLOCK FALSE
