SPECIFICATION Spec
INVARIANT ValuesOwnBytes
PROPERTY OverwriteKeepsValues
PROPERTY EncodeKeepsValues
PROPERTY EncInPlaceBounded
PROPERTY InspectChangesNothing
CONSTRAINT Emit
CHECK_DEADLOCK FALSE
