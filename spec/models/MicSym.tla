---- MODULE MicSym ----
(* (D) for C02/C04 on the SYMBOLIC instance of CryptoGen: CMAC(k, m) is the injective term
   <<"cmac", k, m>>, truncation and concatenation are term constructors.  Two MIC terms are then
   equal iff the specification feeds them the same inputs, so TLC can check - independently of any
   implementation - WHICH inputs the specification authenticates:
     ValidateIffEqualInputs  MIC(p) = MIC(q)  <=>  the authenticated inputs of p and q are equal
     ExcludedInputsIgnored   ConfFCnt without ACK, its upper 16 bits, ConfFCnt/txDR/txCh/SNwkSIntKey
                             on 1.0 (and txDR/txCh on downlinks) do not enter the term
   States: every parameter record p of the palette; q ranges over all single-coordinate variations
   of p (plus all pairs on a reduced palette). *)
EXTENDS Integers, Sequences, SequencesExt, FiniteSets, TLC, Bytes

SymCMAC(k, m) == <<"cmac", k, m>>
SymAES(k, b) == <<"aes", k, b>>
SymAESD(k, b) == <<"aesd", k, b>>
SymFirst(x, n) == <<"first", n, x>>
SymXor(d, ks) == <<"xor", d, ks>>
SymCat(a, b) == <<"cat", a, b>>
INSTANCE CryptoGen WITH CMACf <- SymCMAC, AESf <- SymAES, AESDf <- SymAESD, First <- SymFirst, XorP <- SymXor, Cat <- SymCat

C4 == {<<0,0,0,0>>, <<1,0,0,0>>, <<0,0,1,0>>, <<1,0,1,0>>}
Keys == {<<1>>, <<2>>}
\* msg[2] is the FCtrl byte: ACK is bit 5
Msgs == {<<64, 0, 9>>, <<64, 32, 9>>, <<64, 0, 10>>, <<64, 32, 10>>}
Params == [dir : {"up", "down"}, ver : {0, 1}, fcnt : C4, conf : C4, txdr : {0, 5}, txch : {0, 7},
           fkey : Keys, skey : Keys, devaddr : {<<1,2,3,4>>, <<1,2,3,5>>}, msg : Msgs]
Ack(p) == p.msg[2] = 32

Mic(p) == IF p.dir = "up" THEN MicUp(p.ver, Ack(p), p.conf, p.txdr, p.txch, p.fkey, p.skey, p.devaddr, p.fcnt, p.msg)
          ELSE MicDown(p.ver, Ack(p), p.conf, p.skey, p.devaddr, p.fcnt, p.msg)

\* the property's list of authenticated inputs
Conf16(p) == IF p.ver = 1 /\ Ack(p) THEN <<p.conf[1], p.conf[2]>> ELSE <<0, 0>>
Auth(p) == IF p.dir = "up" THEN
             (IF p.ver = 0 THEN <<"up", 0, p.fkey, p.devaddr, p.fcnt, p.msg>>
              ELSE <<"up", 1, p.fkey, p.skey, Conf16(p), p.txdr, p.txch, p.devaddr, p.fcnt, p.msg>>)
           ELSE <<"down", p.skey, Conf16(p), p.devaddr, p.fcnt, p.msg>>

VARIABLE p
Init == p \in Params
Next == UNCHANGED p

Coords == {"ver", "fcnt", "conf", "txdr", "txch", "fkey", "skey", "devaddr", "msg"}
Dom(c) == CASE c = "ver" -> {0, 1} [] c = "fcnt" -> C4 [] c = "conf" -> C4 [] c = "txdr" -> {0, 5} [] c = "txch" -> {0, 7}
            [] c = "fkey" -> Keys [] c = "skey" -> Keys [] c = "devaddr" -> {<<1,2,3,4>>, <<1,2,3,5>>} [] c = "msg" -> Msgs
Variations == UNION {{[p EXCEPT ![c] = v] : v \in Dom(c)} : c \in Coords}

ValidateIffEqualInputs == \A q \in Variations : (Mic(p) = Mic(q)) <=> (Auth(p) = Auth(q))
ExcludedInputsIgnored ==
  /\ \A c \in C4 : (~Ack(p) \/ p.ver = 0) => Mic([p EXCEPT !.conf = c]) = Mic(p)
  /\ \A c \in C4 : (c[1] = p.conf[1] /\ c[2] = p.conf[2]) => Mic([p EXCEPT !.conf = c]) = Mic(p)
  /\ (p.ver = 0 /\ p.dir = "up") => \A d \in {0, 5}, h \in {0, 7}, k \in Keys : Mic([p EXCEPT !.txdr = d, !.txch = h, !.skey = k]) = Mic(p)
  /\ p.dir = "down" => \A d \in {0, 5}, h \in {0, 7}, k \in Keys : Mic([p EXCEPT !.txdr = d, !.txch = h, !.fkey = k]) = Mic(p)
\* not vacuous: ConfFCnt IS authenticated on 1.1 frames with ACK
ConfMatters == (p.ver = 1 /\ Ack(p)) => \A c \in C4 : (c[1] # p.conf[1]) => Mic([p EXCEPT !.conf = c]) # Mic(p)
\* upper FCnt half is authenticated (full 32-bit counter)
FCntHighMatters == \A c \in C4 : c # p.fcnt => Mic([p EXCEPT !.fcnt = c]) # Mic(p)

\* join-accept MIC: the OptNeg form binds JoinReqType, JoinEUI, DevNonce; the 1.0 form does not
JAInputs == [optneg : BOOLEAN, jrtype : {255, 0}, joineui : {<<1>>, <<2>>}, devnonce : {<<0, 1>>, <<1, 0>>}, key : Keys, msg : {<<32, 1>>, <<32, 2>>}]
JAMic(j) == JoinAcceptMic(j.optneg, j.jrtype, j.joineui, j.devnonce, j.key, j.msg)
JAAuth(j) == IF j.optneg THEN <<1, j.jrtype, j.joineui, j.devnonce, j.key, j.msg>> ELSE <<0, j.key, j.msg>>
JoinAcceptBinding == \A a \in JAInputs, b \in JAInputs : (a.optneg = b.optneg) => ((JAMic(a) = JAMic(b)) <=> (JAAuth(a) = JAAuth(b)))
\* byte order inside the OptNeg prefix: JoinReqType first, then JoinEUI, then DevNonce, then MHDR|payload
JoinAcceptLayout == JoinAcceptMic(TRUE, 255, <<8,7,6,5,4,3,2,1>>, <<52, 18>>, <<1>>, <<32, 9>>)
                      = <<"first", 4, <<"cmac", <<1>>, <<255, 8,7,6,5,4,3,2,1, 52, 18, 32, 9>>>>>>
ASSUME JoinAcceptBinding /\ JoinAcceptLayout
====
