INIT Init
NEXT Next
INVARIANT ValInv
INVARIANT BytesInv
CONSTRAINT Emit
CHECK_DEADLOCK FALSE
