---- MODULE ChannelPlanModel ----
(* (D) for C14/C15 on reduced plans.
   mode "plan":    NStd standard + NCu custom channels, block size 4 (so that several blocks exist);
                   ALL network enable patterns x ALL device subsets: the reference planner reaches
                   exactly Target, uses at most blocks(+1) payloads and nothing when the device matches.
   mode "history": all histories (length <= MaxOps) of Add / Disable / Enable with the argument
                   palette {-1, 0, n-1, n, n+5} x {0, existing frequency, new frequency}: the index
                   partitions hold and standard channels are never altered except `enabled`. *)
EXTENDS Integers, Sequences, SequencesExt, FiniteSets, TLC, IOUtils, ChannelPlan

Mode == IOEnv.VERIF_GENMODE
Thorough == IOEnv.VERIF_GEN = "thorough"
NStd == 5
NCu == 3
BS == 4
MaxOps == IF Thorough THEN 5 ELSE 4
F(k) == [q |-> 8681000 + 2000 * k, r |-> 0]

VARIABLES chans, dev, nops
vars == <<chans, dev, nops>>

BasePlan(en) == [i \in 1..(NStd + NCu) |-> [f |-> F(i), min |-> 0, max |-> 5, en |-> en[i], cu |-> i > NStd]]
Std3 == [i \in 1..3 |-> [f |-> F(i), min |-> 0, max |-> 5, en |-> TRUE, cu |-> FALSE]]

Init == IF Mode = "plan"
          THEN /\ chans \in {BasePlan(en) : en \in [1..(NStd + NCu) -> BOOLEAN]}
               /\ dev \in SUBSET (0..(NStd + NCu - 1)) /\ nops = 0
          ELSE chans = Std3 /\ dev = {} /\ nops = 0

IdxPalette == {-1, 0, Len(chans) - 1, Len(chans), Len(chans) + 5}
Add(f) == /\ nops < MaxOps /\ chans' = AddCh(chans, f, 0, 5) /\ nops' = nops + 1 /\ UNCHANGED dev
Toggle(i, v) == /\ nops < MaxOps /\ nops' = nops + 1 /\ UNCHANGED dev
                /\ chans' = IF ValidIndex(chans, i) THEN SetEn(chans, i, v) ELSE chans      \* error, state unchanged
Next == IF Mode = "plan" THEN UNCHANGED vars
        ELSE \/ \E f \in {ZeroF, F(1), F(9)} : Add(f)
             \/ \E i \in IdxPalette, v \in BOOLEAN : Toggle(i, v)

\* ---- plan ---------------------------------------------------------------------------------------------
Plan == RefPlan(chans, BS, dev)
Reach == Mode = "plan" => Apply(FALSE, Len(chans), BS, dev, Plan) = Target(chans, dev)
Bound == Mode = "plan" => Len(Plan) <= Blocks(Len(chans), BS) + 1
Minimal == Mode = "plan" => (dev = Target(chans, dev) => Plan = <<>>)
\* not vacuous: some state needs every block
NeedsAll == Mode = "plan" => Len(Plan) < Blocks(Len(chans), BS)     \* expected to be VIOLATED (sanity, not in the cfg)

\* ---- history ------------------------------------------------------------------------------------------
Partition == /\ SetOf(Enabled(chans)) \cup SetOf(Disabled(chans)) = SetOf(All(chans)) /\ SetOf(Enabled(chans)) \cap SetOf(Disabled(chans)) = {}
             /\ SetOf(Std(chans)) \cup SetOf(Custom(chans)) = SetOf(All(chans)) /\ SetOf(Std(chans)) \cap SetOf(Custom(chans)) = {}
StdUnaltered == Mode # "plan" => /\ Len(chans) >= 3
                                 /\ \A i \in 1..3 : [chans[i] EXCEPT !.en = TRUE] = Std3[i]
                                 /\ \A i \in 4..Len(chans) : chans[i].cu
====
