INIT Init
NEXT Next
INVARIANT RoundTrip
INVARIANT Offset
INVARIANT Increasing
INVARIANT BackIdentity
INVARIANT LeapIsInside
CHECK_DEADLOCK FALSE
