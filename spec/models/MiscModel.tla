---- MODULE MiscModel ----
(* (D) for C20 on the specification: around every leap second (seconds -3..+3 of the day boundary,
   several sub-second values) UTC -> GPS -> UTC is the identity, GPS -> UTC -> GPS is the identity
   outside inserted leap seconds, the mapping is strictly increasing, the offset steps by one exactly
   at 00:00:00 after a leap day; time on air never decreases with the payload size; the EIRP index
   decodes to the largest entry not exceeding the power. *)
EXTENDS Misc, IOUtils
VARIABLES i, ds, ns
vars == <<i, ds, ns>>
Init == i \in 1..NLeaps /\ ds \in -3..3 /\ ns \in {0, 1, 500000000, 999999999}
Next == UNCHANGED vars
T == IF ds < 0 THEN [d |-> LeapDay(i), s |-> 86400 + ds, ns |-> ns] ELSE [d |-> LeapDay(i) + 1, s |-> ds, ns |-> ns]
TNext == IF ds + 1 < 0 THEN [d |-> LeapDay(i), s |-> 86400 + ds + 1, ns |-> ns] ELSE [d |-> LeapDay(i) + 1, s |-> ds + 1, ns |-> ns]
RoundTrip == FromGPS(ToGPS(T)) = T
Offset == LeapCount(T.d) = (IF ds < 0 THEN i - 1 ELSE i)
Increasing == TLess(ToGPS(T), ToGPS(TNext)) /\ ~InsideLeap(ToGPS(T))
\* the GPS second between 23:59:59 and 00:00:00 is the inserted one
G == NormT(LeapDay(i) + 1, i - 1 + ds, ns)
BackIdentity == InsideLeap(G) \/ ToGPS(FromGPS(G)) = G
LeapIsInside == ds = 0 => InsideLeap(G)
AirMonotone == \A sf \in {5, 7, 12} : \A cr \in 1..4 : \A h \in BOOLEAN : \A lo \in BOOLEAN : \A pl \in 0..254 :
                  PayloadSymbols(pl, sf, cr, h, lo) <= PayloadSymbols(pl + 1, sf, cr, h, lo)
EIRPOk == \A fl \in 8..40 : EIRPTable[EIRPIndex(fl) + 1] <= fl /\ (EIRPIndex(fl) = 15 \/ EIRPTable[EIRPIndex(fl) + 2] > fl)
ASSUME AirMonotone /\ EIRPOk
ASSUME LeapDay(1) = 541 /\ LeapDay(18) = DaysFromCivil(2016, 12, 31) - DaysFromCivil(1980, 1, 6) /\ LeapDay(18) = 13509
====
