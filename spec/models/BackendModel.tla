---- MODULE BackendModel ----
(* (D) for C17 on the specification: the decimal numeral of n/10^k denotes n (k = 6 for MHz, 2 for
   fractions) over dense sweeps; RFC 3394 unwrap inverts wrap for 16/24/32-byte KEKs and a single
   flipped ciphertext bit fails the integrity check. *)
EXTENDS BackendJSON, KeyWrap, IOUtils
Thorough == IOEnv.VERIF_GEN = "thorough"
Freqs == {100000 * k : k \in 0..(IF Thorough THEN 21474 ELSE 2000)} \cup {868100000 + d : d \in -50..50} \cup {1, 10, 999999, 1000001, 2147483647}
VARIABLES n
Init == n \in Freqs \cup (0..1000)
Next == UNCHANGED n
FreqIdentity == Cmp(DecimalScaled(ScaledText(n, 6), 6), FromNat(n)) = 0
PercIdentity == n <= 1000 => Cmp(DecimalScaled(ScaledText(n, 2), 2), FromNat(n)) = 0
Kek(len) == [i \in 1..len |-> (i * 17 + len) % 256]
Key == [i \in 1..16 |-> 255 - i]
WrapInverse == \A len \in {16, 24, 32} : Unwrap(Kek(len), Wrap(Kek(len), Key)) = [ok |-> TRUE, key |-> Key]
TamperDetected == \A len \in {16, 24, 32} : \A pos \in {1, 8, 9, 24} : ~Unwrap(Kek(len), [Wrap(Kek(len), Key) EXCEPT ![pos] = (@ + 1) % 256]).ok
ASSUME WrapInverse /\ TamperDetected
ASSUME ScaledText(868100000, 6) = <<56, 54, 56, 46, 49>> /\ ScaledText(29, 2) = <<48, 46, 50, 57>> /\ ScaledText(100, 2) = <<49>> /\ ScaledText(0, 6) = <<48>>
ASSUME ParseTime(<<49,57,56,48,45,48,49,45,48,54,84,48,48,58,48,48,58,48,48,90>>) = [ok |-> TRUE, d |-> 0, s |-> 0, off |-> 0]
====
