INIT Init
NEXT Next
INVARIANT SelfDelimiting
INVARIANT DirectionOnly
INVARIANT StdUntouched
CONSTRAINT Emit
CHECK_DEADLOCK FALSE
