---- MODULE FrameGen ----
(* FrameSession, generation side: (D) design check of the frame format over a shape-exhaustive
   domain and case generator for (R).
   mode "val":   abstract frame values.  Invariants: the value is spec-valid, Decode(Encode(v)) is the
                 wire image of v (FCnt mod 2^16, content as bytes), Encode(Decode(Encode(v))) = Encode(v).
   mode "bytes": byte strings around every guard of the decoder (8 MTypes x MACPayload length x
                 FOptsLen nibble x FPort byte x rejoin type).  Invariant: whatever the specification
                 decodes is spec-valid and re-encodes to exactly the input (canonical), i.e. C08 is a
                 theorem of the specification itself.
   Every state is emitted as a case for the Go harness. *)
EXTENDS Integers, Sequences, SequencesExt, FiniteSets, TLC, Json, IOUtils, CSV, Bytes, MACCommands, Frame

Thorough == IOEnv.VERIF_GEN = "thorough"
Mode == IOEnv.VERIF_GENMODE
OutFile == IOEnv.VERIF_CASES

VARIABLES st
vars == <<st>>

\* ---- value shapes ---------------------------------------------------------------------------------
Filler(n, salt) == [i \in 1..n |-> (i * 37 + salt * 11 + 5) % 256]
NoP == <<>>
DownCmd(n) == CASE n = 5 -> [t |-> "cmd", cid |-> 3, p |-> <<[DataRate |-> 5, TXPower |-> 2, ChMask |-> [i \in 1..16 |-> i % 2], ChMaskCntl |-> 6, NbRep |-> 3]>>]
                [] n = 2 -> [t |-> "cmd", cid |-> 8, p |-> <<[Delay |-> 9]>>]
                [] n = 1 -> [t |-> "cmd", cid |-> 6, p |-> NoP]
UpCmd(n) == CASE n = 3 -> [t |-> "cmd", cid |-> 6, p |-> <<[Battery |-> 254, Margin |-> -7]>>]
              [] n = 2 -> [t |-> "cmd", cid |-> 3, p |-> <<[ChannelMaskACK |-> TRUE, DataRateACK |-> FALSE, PowerACK |-> TRUE]>>]
              [] n = 1 -> [t |-> "cmd", cid |-> 2, p |-> NoP]
\* a command list of exactly n bytes for the direction
CmdsOfLen(dir, n) ==
  IF dir = "down" THEN [i \in 1..(n \div 5) |-> DownCmd(5)] \o [i \in 1..((n % 5) \div 2) |-> DownCmd(2)] \o [i \in 1..((n % 5) % 2) |-> DownCmd(1)]
  ELSE [i \in 1..(n \div 3) |-> UpCmd(3)] \o [i \in 1..((n % 3) \div 2) |-> UpCmd(2)] \o [i \in 1..((n % 3) % 2) |-> UpCmd(1)]
Content(dir, n, asCmds) == IF n = 0 THEN <<>> ELSE IF asCmds THEN CmdsOfLen(dir, n) ELSE <<[t |-> "raw", b |-> Filler(n, n)]>>

FrmLens == IF Thorough THEN {0, 1, 2, 15, 16, 17, 241, 242} ELSE {0, 1, 16}
FCnts == IF Thorough THEN {<<0,0,0,0>>, <<1,0,0,0>>, <<255,255,0,0>>, <<0,0,1,0>>, <<255,255,255,255>>} ELSE {<<1,2,3,4>>}
DevAddrs == IF Thorough THEN {<<1,2,3,4>>, <<255,0,128,7>>} ELSE {<<1,2,3,4>>}
Ports == {<<>>, <<0>>, <<1>>, <<255>>}

DataVals ==
  { [kind |-> "data", mtype |-> mt, major |-> 0, mic |-> <<222, 173, 190, 239>>, devaddr |-> da,
     fctrl |-> [adr |-> fc[1], adrackreq |-> fc[2], ack |-> fc[3], b4 |-> fc[4]], fcnt |-> cnt,
     fopts |-> Content(DirOf(mt), fol, (fol + mt) % 2 = 0), fport |-> port,
     frm |-> Content(DirOf(mt), fl, port = <<0>> /\ fl <= 17)]
    : mt \in {2, 3, 4, 5}, da \in DevAddrs, fc \in [1..4 -> BOOLEAN], cnt \in FCnts,
      fol \in 0..15, port \in Ports, fl \in FrmLens }

E8(s) == [i \in 1..8 |-> (i * 29 + s) % 256]
CFLists == {<<>>,
            <<[type |-> 0, chans |-> <<[q |-> 8671000, r |-> 0], [q |-> 8673000, r |-> 0], [q |-> 16777215, r |-> 0], [q |-> 0, r |-> 0], [q |-> 1, r |-> 0]>>]>>,
            <<[type |-> 1, masks |-> <<[i \in 1..16 |-> 1], [i \in 1..16 |-> 0], [i \in 1..16 |-> i % 2]>>]>>,
            <<[type |-> 1, masks |-> [k \in 1..6 |-> [i \in 1..16 |-> (i + k) % 2]]]>>,
            <<[type |-> 1, masks |-> <<[i \in 1..16 |-> 0], [i \in 1..16 |-> 1], [i \in 1..16 |-> i % 2], [i \in 1..16 |-> 0], [i \in 1..16 |-> IF i = 3 THEN 1 ELSE 0]>>]>>,
            <<[type |-> 1, masks |-> <<[i \in 1..16 |-> 0], [i \in 1..16 |-> 0], [i \in 1..16 |-> 1], [i \in 1..16 |-> 0], [i \in 1..16 |-> 1], [i \in 1..16 |-> 1]>>]>>}
JoinVals ==
  { [kind |-> "joinreq", mtype |-> 0, major |-> 0, mic |-> <<1, 2, 3, 4>>, joineui |-> E8(1), deveui |-> E8(2), devnonce |-> dn] : dn \in {0, 1, 258, 65535} }
  \cup { [kind |-> "rejoin02", mtype |-> 6, major |-> 0, mic |-> <<1, 2, 3, 4>>, rjtype |-> t, netid |-> <<1, 2, 3>>, deveui |-> E8(3), rjcount |-> rc] : t \in {0, 2}, rc \in {0, 513, 65535} }
  \cup { [kind |-> "rejoin1", mtype |-> 6, major |-> 0, mic |-> <<1, 2, 3, 4>>, rjtype |-> 1, joineui |-> E8(4), deveui |-> E8(5), rjcount |-> rc] : rc \in {0, 513, 65535} }
  \cup { [kind |-> "raw", mtype |-> 7, major |-> 0, mic |-> <<1, 2, 3, 4>>, bytes |-> Filler(n, 1)] : n \in 0..3 }
  \cup { [kind |-> "joinacc", mtype |-> 1, major |-> 0, mic |-> <<9, 8, 7, 6>>, joinnonce |-> jn, netid |-> <<1, 2, 3>>, devaddr |-> <<4, 5, 6, 7>>,
          dl |-> [optneg |-> on, rx2dr |-> (rxd * 7) % 16, rx1off |-> rxd % 8], rxdelay |-> rxd, cflist |-> cf]
         : jn \in {<<0,0,0,0>>, <<1,2,3,0>>, <<255,255,255,0>>}, on \in BOOLEAN, rxd \in 0..15, cf \in CFLists }

ValidShape(v) == v.kind # "data" \/ ((v.fport = <<>> => v.frm = <<>>) /\ (v.fport = <<0>> => v.fopts = <<>>))

\* ---- byte shapes ----------------------------------------------------------------------------------
HighNibbles == IF Thorough THEN 0..15 ELSE {0, 11}
PortBytes == IF Thorough THEN {0, 1, 224, 255} ELSE {0, 1}
ByteShapes ==
  { LET body == [i \in 1..n |-> IF i = 5 THEN hi * 16 + fol
                                ELSE IF i = 8 + fol THEN pb
                                ELSE IF i = 1 /\ mt = 6 THEN (n + fol) % 4
                                ELSE (i * 7 + 3 + mt) % 256]
    IN  <<mt * 32>> \o body \o <<170, 187, 204, 221>>
    : mt \in 0..7, n \in 0..40, fol \in 0..15, hi \in HighNibbles, pb \in PortBytes }
  \cup {<<>>, <<64>>, <<64, 1>>, <<64, 1, 2>>, <<64, 1, 2, 3>>}

Init == IF Mode = "bytes" THEN st \in {[bytes |-> b] : b \in ByteShapes}
        ELSE st \in {[val |-> v] : v \in {w \in DataVals : ValidShape(w)} \cup JoinVals}
Next == UNCHANGED vars

ValInv == Has(st, "val") =>
  LET v == st.val   b == EncodeFrame(v)   d == DecodeFrame(b) IN
  /\ SpecValid(v)
  /\ ~IsErr(d)
  /\ d = WireImage(v)
  /\ EncodeFrame(d) = b
  /\ MHDRRFUZero(b)
BytesInv == Has(st, "bytes") =>
  LET d == DecodeFrame(st.bytes) IN
  IsErr(d) \/ (SpecValid(d) /\ EncodeFrame(d) = st.bytes)

Emit == CSVWrite("%1$s", <<ToJson(st)>>, OutFile)
====
