INIT Init
NEXT Next
INVARIANT Member
INVARIANT Fixpoint
INVARIANT NwkAddrUntouched
INVARIANT TypeKept
INVARIANT NwkIDKept
INVARIANT Idempotent
CHECK_DEADLOCK FALSE
