---- MODULE FragModel ----
(* (D) for C19 with SYMBOLIC fragments (data fragment i is the set {i}, XOR is symmetric difference):
   for M = 1..MaxM, redundancy 0..MaxR and EVERY erasure pattern, a received subset whose selection
   vectors have full rank decodes to the original fragments; the systematic prefix is the data; each
   parity fragment is the combination given by the specification's matrix line. *)
EXTENDS FragFEC, IOUtils, Json, CSV
Thorough == IOEnv.VERIF_GEN = "thorough"
MaxM == IF Thorough THEN 10 ELSE 7
MaxR == IF Thorough THEN 6 ELSE 4
VARIABLES m, red, recv
vars == <<m, red, recv>>
Init == m \in 1..MaxM /\ red \in 0..MaxR /\ recv \in SUBSET (1..(m + red))
Next == UNCHANGED vars
Coded(j) == [sel |-> SelVec(j, m), val |-> SelVec(j, m)]          \* symbolic value = combination of data indices
Rows == LET idx == SortSeq(SetToSeq(recv), LAMBDA a, b : a < b) IN [k \in 1..Len(idx) |-> Coded(idx[k])]
Dec == Eliminate(Rows, m, SetXor)
Recovers == Dec.ok => \A i \in 1..m : Dec.data[i] = {i}
AllDataSuffices == (1..m) \subseteq recv => Dec.ok
TooFewFails == Cardinality(recv) < m => ~Dec.ok
LineShape == \A y \in 1..red : MatrixLine(y, m) \subseteq 1..m /\ Cardinality(MatrixLine(y, m)) <= m \div 2
OutFile == IOEnv.VERIF_CASES
Emit == CSVWrite("%1$s", <<ToJson([m |-> m, red |-> red, size |-> 1 + (m % 2), keep |-> SortSeq(SetToSeq(recv), LAMBDA a, b : a < b)])>>, OutFile)
\* not vacuous: some pattern with a missing data fragment is recovered through parity
====
