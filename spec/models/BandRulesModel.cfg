INIT Init
NEXT Next
INVARIANT Closed
INVARIANT Monotone
INVARIANT PlanShape
CHECK_DEADLOCK FALSE
