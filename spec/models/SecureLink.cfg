INIT Init
NEXT Next
INVARIANT Recover
INVARIANT Reject
INVARIANT Residue
INVARIANT MicBeforeEncryption
CONSTRAINT Emit
CHECK_DEADLOCK FALSE
