INIT Init
NEXT Next
INVARIANT SpecTotal
CONSTRAINT Emit
CHECK_DEADLOCK FALSE
