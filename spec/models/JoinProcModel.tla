---- MODULE JoinProcModel ----
(* (D) for C16 on the SYMBOLIC instance: two join transactions are processed by a join-server whose
   five tasks (context, MIC check, nonce, session keys, answer) are separate actions, interleaved in
   every possible way; the device, network server and application server are the independent
   definitions of module JoinProc.  Encryption terms cancel (aes(k, aesd(k, x)) = x), CMAC terms are
   injective.  Invariants on every finished transaction:
     ResultCode  UnknownDevEUI / MICFailed (join-request only) / Other (storage fault) / Success
     Mirror      every answer, error answers included, carries the request's ids swapped
     Usable      the device decrypts the answer, accepts its MIC and finds the requested fields
     KeysAgree   keys derived by the device = keys carried in the answer (after unwrapping)
     Isolation   a transaction's answer depends only on its own request (no cross-talk in any interleaving) *)
EXTENDS Integers, Sequences, SequencesExt, FiniteSets, TLC, Bytes

SymCMAC(k, m) == <<"cmac", k, m>>
SymAESD(k, b) == <<"aesd", k, b>>
SymAES(k, b) == IF Len(b) = 3 /\ b[1] = "aesd" /\ b[2] = k THEN b[3] ELSE <<"aes", k, b>>
SymFirst(x, n) == <<"first", n, x>>
SymXor(d, ks) == <<"xor", d, ks>>
SymCat(a, b) == <<"cat", a, b>>
J == INSTANCE JoinProc WITH CMACf <- SymCMAC, AESf <- SymAES, AESDf <- SymAESD, First <- SymFirst, XorP <- SymXor, Cat <- SymCat

Txn == {1, 2}
Kinds == {"join", "rejoin1"}
Faults == {"none", "devkeys", "kek"}          \* a storage callback of the server fails (device keys / KEK or AS-KEK label lookups)
\* badparams: the request asks for an RxDelay (or carries a CFList) that the join-accept cannot carry
Scen == [kind : Kinds, optneg : BOOLEAN, micok : BOOLEAN, known : BOOLEAN, wrapped : BOOLEAN, fault : Faults, badparams : BOOLEAN]
\* request of transaction t under scenario s (all identifiers depend on t: no accidental sharing)
Req(t, s) == [kind |-> s.kind, nwkkey |-> <<"NwkKey", t>>, appkey |-> <<"AppKey", t>>, deveui |-> <<t, 1>>, joineui |-> <<t, 2>>, netid |-> <<t, 3>>,
              devnonce |-> 256 * t + 7, jn3 |-> <<t, 9, 9>>, devaddr |-> <<t, 4>>, dl |-> <<s.optneg, t>>, rxdelay |-> (IF s.badparams THEN 16 + t ELSE t), cflist |-> <<>>,
              txid |-> 100 + t, sender |-> <<"ns", t>>, receiver |-> <<"js", t>>]
Effective(s) == IF s.kind = "join" THEN s.optneg ELSE TRUE            \* rejoin is a 1.1 procedure

VARIABLES scen, stage, ctx, ans
vars == <<scen, stage, ctx, ans>>
None == [none |-> TRUE]
Init == /\ scen \in [Txn -> Scen]
        /\ stage = [t \in Txn |-> -1] /\ ctx = [t \in Txn |-> None] /\ ans = [t \in Txn |-> None]

Finish(t, code, body) == /\ stage' = [stage EXCEPT ![t] = 5]
                         /\ ans' = [ans EXCEPT ![t] = [code |-> code, txid |-> Req(t, scen[t]).txid, sender |-> Req(t, scen[t]).receiver,
                                                       receiver |-> Req(t, scen[t]).sender, body |-> body]]
\* the handler's lookups precede the task pipeline: device keys first (unknown device / storage fault), then the KEKs
Lookup(t) == /\ stage[t] = -1
             /\ IF scen[t].fault = "devkeys" THEN Finish(t, "Other", None) /\ UNCHANGED <<scen, ctx>>
                ELSE IF ~scen[t].known THEN Finish(t, "UnknownDevEUI", None) /\ UNCHANGED <<scen, ctx>>
                ELSE IF scen[t].fault = "kek" THEN Finish(t, "Other", None) /\ UNCHANGED <<scen, ctx>>
                ELSE stage' = [stage EXCEPT ![t] = 0] /\ UNCHANGED <<scen, ctx, ans>>
Context(t) == /\ stage[t] = 0
              /\ IF ~scen[t].known THEN Finish(t, "UnknownDevEUI", None) /\ UNCHANGED <<scen, ctx>>
                 ELSE /\ stage' = [stage EXCEPT ![t] = 1] /\ ctx' = [ctx EXCEPT ![t] = [req |-> Req(t, scen[t])]] /\ UNCHANGED <<scen, ans>>
Mic(t) == /\ stage[t] = 1
          /\ IF scen[t].kind = "join" /\ ~scen[t].micok THEN Finish(t, "MICFailed", None) /\ UNCHANGED <<scen, ctx>>
             ELSE stage' = [stage EXCEPT ![t] = 2] /\ UNCHANGED <<scen, ctx, ans>>
Nonce(t) == /\ stage[t] = 2 /\ stage' = [stage EXCEPT ![t] = 3]
            /\ ctx' = [ctx EXCEPT ![t] = [req |-> ctx[t].req, jn |-> ctx[t].req.jn3]] /\ UNCHANGED <<scen, ans>>
\* the server derives the keys from ITS copy of the root keys (independent formula use, same definitions)
Keys(t) == /\ stage[t] = 3 /\ stage' = [stage EXCEPT ![t] = 4]
           /\ ctx' = [ctx EXCEPT ![t] = [req |-> ctx[t].req, jn |-> ctx[t].jn, keys |-> J!DeviceKeys(ctx[t].req, Effective(scen[t]))]]
           /\ UNCHANGED <<scen, ans>>
Wrap(t, k, who) == IF scen[t].wrapped THEN <<"wrap", <<"kek", who, t>>, k>> ELSE k
\* the join-accept is built last: a parameter it cannot carry is refused here (after the MIC decided), never altered
Answer(t) ==
  /\ stage[t] = 4
  /\ IF ctx[t].req.rxdelay > 15 THEN Finish(t, "Other", None) ELSE
     LET r == ctx[t].req
         on == Effective(scen[t])
         payload == <<ctx[t].jn, r.netid, r.devaddr, <<on, t>>, r.rxdelay>>
         mic == J!ExpectedMic(r, 32, payload, on)
         key == J!DecryptKey(r)
         ks == ctx[t].keys
     IN  Finish(t, "Success", [phy |-> SymAESD(key, <<payload, mic>>),
                               keys |-> [n \in DOMAIN ks |-> Wrap(t, ks[n], IF n = "AppSKey" THEN "as" ELSE "ns")]])
  /\ UNCHANGED <<scen, ctx>>
Next == \E t \in Txn : Lookup(t) \/ Context(t) \/ Mic(t) \/ Nonce(t) \/ Keys(t) \/ Answer(t)

Done(t) == stage[t] = 5
Unwrapped(t, k) == IF scen[t].wrapped THEN k[3] ELSE k
ResultCode == \A t \in Txn : Done(t) =>
   ans[t].code = (IF scen[t].fault = "devkeys" THEN "Other" ELSE IF ~scen[t].known THEN "UnknownDevEUI" ELSE IF scen[t].fault = "kek" THEN "Other" ELSE IF scen[t].kind = "join" /\ ~scen[t].micok THEN "MICFailed" ELSE IF scen[t].badparams THEN "Other" ELSE "Success")
Mirror == \A t \in Txn : Done(t) => ans[t].txid = 100 + t /\ ans[t].sender = <<"js", t>> /\ ans[t].receiver = <<"ns", t>>
Usable == \A t \in Txn : (Done(t) /\ ans[t].code = "Success") =>
   LET r == Req(t, scen[t])  on == Effective(scen[t])
       pt == SymAES(J!DecryptKey(r), ans[t].body.phy)             \* the device AES-encrypts the received block
   IN  /\ pt[2] = J!ExpectedMic(r, 32, pt[1], on)
       /\ pt[1] = <<r.jn3, r.netid, r.devaddr, <<on, t>>, r.rxdelay>>
KeysAgree == \A t \in Txn : (Done(t) /\ ans[t].code = "Success") =>
   LET dk == J!DeviceKeys(Req(t, scen[t]), Effective(scen[t])) IN
   DOMAIN ans[t].body.keys = DOMAIN dk /\ \A n \in DOMAIN dk : Unwrapped(t, ans[t].body.keys[n]) = dk[n]
\* a Success always echoes what was asked for: a request that cannot be echoed never succeeds
EchoOrRefuse == \A t \in Txn : (Done(t) /\ scen[t].badparams) => ans[t].code # "Success"
\* key separation: the two derivations never coincide, and the two transactions never share a key
Separation == (Done(1) /\ Done(2) /\ ans[1].code = "Success" /\ ans[2].code = "Success") =>
   \A n \in DOMAIN ans[1].body.keys, m \in DOMAIN ans[2].body.keys : ans[1].body.keys[n] # ans[2].body.keys[m]
====
