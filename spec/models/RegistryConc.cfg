INIT Init
NEXT Next
INVARIANT LockDiscipline
INVARIANT Linearizable
CONSTRAINT Emit
VIEW View
CHECK_DEADLOCK FALSE
