INIT Init
NEXT Next
INVARIANT LockDiscipline
INVARIANT Linearizable
INVARIANT NoDeadlock
CONSTRAINT Emit
VIEW View
CHECK_DEADLOCK FALSE
