---- MODULE Registry ----
(* The process-global MAC-command registry and the framing of command streams that depends on it.
   reg maps <<dir, cid>> to the payload size registered for a proprietary CID.
   RegisterProprietaryMACCommand(uplink, cid, size):  error unless 128 <= cid <= 255; a negative size is
   refused; otherwise the size is recorded for that direction only (size 0: the CID carries no payload again).
   (D): for every registration history and every command sequence whose proprietary commands carry
   exactly the registered number of bytes, decoding the concatenation yields the sequence
   (self-delimiting), and a CID registered in one direction has size 0 in the other. *)
EXTENDS Integers, Sequences, SequencesExt, FiniteSets, TLC, Json, IOUtils, CSV, Bytes, MACCommands

MaxHist == IF IOEnv.VERIF_REGHIST = "3" THEN 3 ELSE 2
OutFile == IOEnv.VERIF_CASES
CIDs == {3, 127, 128, 200, 255}
Sizes == {-1, 0, 1, 2}
Dirs == {"up", "down"}

VARIABLES reg, hist
vars == <<reg, hist>>

RegOK(cid) == cid >= 128 /\ cid <= 255
Apply(r, dir, cid, size) == IF RegOK(cid) /\ size >= 0
                              THEN [k \in (DOMAIN r) \cup {<<dir, cid>>} |-> IF k = <<dir, cid>> THEN size ELSE r[k]]
                              ELSE r

Init == reg = <<>> /\ hist = <<>>
Register(dir, cid, size) ==
  /\ Len(hist) < MaxHist
  /\ reg' = Apply(reg, dir, cid, size)
  /\ hist' = Append(hist, [dir |-> dir, cid |-> cid, size |-> size, err |-> IF RegOK(cid) /\ size >= 0 THEN "" ELSE "error"])
Next == \E d \in Dirs, c \in CIDs, s \in Sizes : Register(d, c, s)

\* palette of commands per direction: standard sizes 0,1,2,4,5 and the proprietary CIDs framed
\* with their registered size
Raw(n) == [i \in 1..n |-> 170 + i]
Pal(dir) == (IF dir = "down" THEN {[cid |-> 6, raw |-> <<>>], [cid |-> 8, raw |-> <<5>>], [cid |-> 2, raw |-> <<1, 2>>],
                                   [cid |-> 3, raw |-> <<80, 255, 0, 1>>], [cid |-> 13, raw |-> <<1, 2, 3, 4, 5>>]}
             ELSE {[cid |-> 2, raw |-> <<>>], [cid |-> 3, raw |-> <<7>>], [cid |-> 6, raw |-> <<200, 31>>]})
            \cup {[cid |-> c, raw |-> Raw(RegSize(reg, dir, c))] : c \in {128, 200, 255}}
Streams(dir) == UNION {[1..n -> Pal(dir)] : n \in 0..2}

SelfDelimiting == \A dir \in Dirs : \A s \in Streams(dir) :
                     LET bytes == Concat([i \in 1..Len(s) |-> <<s[i].cid>> \o s[i].raw])
                         d == DecodeStreamRaw(reg, dir, bytes)
                     IN  d.ok /\ d.cmds = s
DirectionOnly == \A k \in DOMAIN reg : RegOK(k[2]) /\ reg[k] >= 0
StdUntouched == \A dir \in Dirs : \A c \in 0..127 : RegSize(reg, dir, c) = Size(dir, c)

Emit == Len(hist) = 0 \/ CSVWrite("%1$s", <<ToJson([hist |-> hist])>>, OutFile)
====
