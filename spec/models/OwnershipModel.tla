---- MODULE OwnershipModel ----
(* C10 (D): the ownership discipline as a state machine over an abstract heap.
   heap: buffer id -> sequence of cells (including spare capacity); a cell is a token.
   vals: value id -> abstract frame = the tuple of cell TOKENS it was decoded from (a value OWNS a
   copy of its bytes: it holds tokens, not references).
   Actions: Decode(v, b), Overwrite(b, class), Encode(v), EncInPlace(b, len, spare), Inspect(v).
   TLC enumerates every sequence of <= MaxOps operations over the position classes
   {mhdr, devaddr, fopts, fport, frm, mic, spare} and slice lengths {0, 5, 16, 17} with/without spare
   capacity, and checks the frame conditions as action properties:
     OverwriteKeepsValues   [][IsOverwrite => vals' = vals]
     EncodeKeepsValues      [][IsEncode => vals' = vals /\ old buffers unchanged]
     EncInPlaceBounded      [][IsEnc => only cells lo..hi-1 of that buffer change]
     InspectChangesNothing  [][IsInspect => UNCHANGED <<heap, vals>>]
   Every maximal operation sequence is emitted as a case; the Go harness executes it on real buffers. *)
EXTENDS Integers, Sequences, SequencesExt, FiniteSets, TLC, Json, IOUtils, CSV
OutFile == IOEnv.VERIF_CASES
Thorough == IOEnv.VERIF_GEN = "thorough"
MaxOps == IF Thorough THEN 4 ELSE 3
Classes == {"mhdr", "devaddr", "fopts", "fport", "frm", "mic", "spare"}
Layout == <<"mhdr", "devaddr", "fopts", "fport", "frm", "mic", "spare">>     \* one cell per class
VARIABLES heap, vals, ops, last, gen
vars == <<heap, vals, ops, last, gen>>
Fresh(b) == [i \in 1..7 |-> <<b, i, 0>>]                                     \* token = <<buffer, cell, generation>>
Init == heap = <<Fresh(1)>> /\ vals = <<>> /\ ops = <<>> /\ last = "init" /\ gen = 1
Can == Len(ops) < MaxOps
Decode == /\ Can /\ vals' = Append(vals, SubSeq(heap[1], 1, 6)) /\ UNCHANGED heap /\ gen' = gen
          /\ ops' = Append(ops, [op |-> "decode"]) /\ last' = "decode"
Overwrite(c) == /\ Can /\ LET i == CHOOSE k \in 1..7 : Layout[k] = c IN heap' = [heap EXCEPT ![1][i] = <<1, i, gen>>]
                /\ gen' = gen + 1 /\ UNCHANGED vals /\ ops' = Append(ops, [op |-> "overwrite", cls |-> c]) /\ last' = "overwrite"
Encode == /\ Can /\ vals # <<>> /\ heap' = Append(heap, vals[Len(vals)] \o <<<<Len(heap) + 1, 7, 0>>>>) /\ UNCHANGED <<vals, gen>>
          /\ ops' = Append(ops, [op |-> "encode"]) /\ last' = "encode"
EncInPlace(n, sp) == /\ Can /\ heap' = [heap EXCEPT ![1] = [i \in 1..7 |-> IF Layout[i] = "frm" /\ n > 0 THEN <<1, i, @[i][3] + 1000>> ELSE @[i]]]
                     /\ UNCHANGED <<vals, gen>> /\ ops' = Append(ops, [op |-> "encinplace", len |-> n, spare |-> sp]) /\ last' = "enc"
Inspect == /\ Can /\ vals # <<>> /\ UNCHANGED <<heap, vals, gen>> /\ ops' = Append(ops, [op |-> "inspect"]) /\ last' = "inspect"
Next == Decode \/ (\E c \in Classes : Overwrite(c)) \/ Encode \/ (\E n \in {0, 5, 16, 17}, sp \in BOOLEAN : EncInPlace(n, sp)) \/ Inspect
Spec == Init /\ [][Next]_vars
OverwriteKeepsValues == [][last' = "overwrite" => vals' = vals]_vars
EncodeKeepsValues == [][last' = "encode" => (vals' = vals /\ SubSeq(heap', 1, Len(heap)) = heap)]_vars
EncInPlaceBounded == [][last' = "enc" => (vals' = vals /\ \A i \in 1..7 : Layout[i] # "frm" => heap'[1][i] = heap[1][i])]_vars
InspectChangesNothing == [][last' = "inspect" => (heap' = heap /\ vals' = vals)]_vars
\* values own their bytes: every value equals the cells it was decoded from AT THAT TIME, whatever happened since
ValuesOwnBytes == \A v \in 1..Len(vals) : \A i \in 1..6 : vals[v][i][1] = 1 /\ vals[v][i][2] = i
Emit == Len(ops) < MaxOps \/ CSVWrite("%1$s", <<ToJson([ops |-> ops])>>, OutFile)
====
