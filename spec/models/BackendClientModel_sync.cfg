CONSTANTS Calls = {1, 2, 3}
          TxIds = {11, 12, 13}
          Async = FALSE
          SubscribeFirst = TRUE
          DistinctTx = TRUE
INIT Init
NEXT Next
INVARIANT NoCrossTalk
INVARIANT ExactAnswer
INVARIANT NoLostAnswer
INVARIANT SyncExact
CHECK_DEADLOCK FALSE
