---- MODULE BandRulesModel ----
(* (D) for C12/C13: the transcribed Regional Parameters tables satisfy closedness and the
   monotone / step-by-at-most-one relation themselves (sanity of the transcription). *)
EXTENDS RegionalParameters
VARIABLE r
Init == r \in Regions
Next == UNCHANGED r
Closed == /\ \A dr \in RX1Known(r) \cap UpDRs(r) : \A off \in 0..MaxRX1Offset(r), dw \in BOOLEAN : RX1DR(r, dw, dr, off) \in DownDRs(r)
          /\ \A i \in 1..Len(DefaultUplink(r)) : DefaultUplink(r)[i].min \in UpDRs(r) /\ DefaultUplink(r)[i].max \in UpDRs(r)
          /\ RX2(r).dr \in DownDRs(r)
Monotone == \A dr \in RX1Known(r) \cap UpDRs(r) : \A dw \in BOOLEAN : \A off \in PositiveOffsets(r) \ {0} :
               LET a == RX1DR(r, dw, dr, off - 1)  b == RX1DR(r, dw, dr, off) IN
               b <= a /\ RankIn(DownDRs(r), a) - RankIn(DownDRs(r), b) <= 1
PlanShape == /\ (FixedPlan(r) => RX1ChanRule(r) > 0)
             /\ Len(DefaultUplink(r)) >= 2
             /\ \A i \in 1..Len(DefaultUplink(r)) : DefaultUplink(r)[i].min <= DefaultUplink(r)[i].max
====
