---- MODULE TotalShapes ----
(* (D)/(R) for C09: the shape model of the decoders' guards, enumerated from the SPECIFICATION's own
   size tables - for every application-layer package x direction x CID 0..9 and 255: every length from 0 to
   the specified payload size + 1 (status bytes chosen so that every status-dependent size occurs),
   followed or not by a second command; for every MAC command CID x direction: 0..size+1 bytes; CFList
   and join-accept payload lengths around 16 / 12 / 28.  The invariant is the specification's own
   totality: its stream decoder returns ok or not-ok for every shape (never undefined). *)
EXTENDS Integers, Sequences, SequencesExt, FiniteSets, TLC, Json, IOUtils, CSV, Bytes, MACCommands, AppLayer
OutFile == IOEnv.VERIF_CASES
Fill(n, k) == [i \in 1..n |-> IF k = 0 THEN 0 ELSE IF k = 1 THEN 255 ELSE (i * 37 + 11) % 256]
StatusBytes(pkg, dir, cid) == IF IsSpecial(pkg, dir, cid) THEN {0, 1, 3, 4, 7, 15, 16, 31, 255} ELSE {0, 255}
MaxSize(pkg, dir, cid) == IF ~HasCmd(pkg, dir, cid) THEN 0 ELSE IF IsSpecial(pkg, dir, cid) THEN 21 ELSE LayoutSize(ALayout(pkg, dir, cid))
ALShapes == { [entry |-> pkg \o "." \o dir, bytes |-> <<cid>> \o (IF n = 0 THEN <<>> ELSE <<s>> \o Fill(n - 1, k)) \o tl]
              : pkg \in Pkgs, dir \in {"up", "down"}, cid \in (0..9) \cup {255}, s \in {0, 3, 15, 16, 255}, k \in {0, 2}, tl \in {<<>>, <<1>>, <<0, 1, 2>>},
                n \in 0..6 }
           \cup UNION { { [entry |-> pkg \o "." \o dir, bytes |-> <<cid>> \o (IF n = 0 THEN <<>> ELSE <<s>> \o Fill(n - 1, 2))]
                          : s \in StatusBytes(pkg, dir, cid), n \in 0..(MaxSize(pkg, dir, cid) + 1) }
                        : pkg \in Pkgs, dir \in {"up", "down"}, cid \in (0..9) }
MCShapes == { [entry |-> "MACCommand." \o dir, bytes |-> <<cid>> \o Fill(n, k)]
              : dir \in {"up", "down"}, cid \in (0..40) \cup {128, 255}, n \in 0..6, k \in {0, 1} }
PayShapes == { [entry |-> e, bytes |-> Fill(n, k)] : e \in {"CFList.UnmarshalBinary", "JoinAccept.Unmarshal", "JoinRequest.Unmarshal", "Rejoin02.Unmarshal", "Rejoin1.Unmarshal", "MACPayload.up"},
               n \in (0..20) \cup {27, 28, 29}, k \in {0, 1, 2} }
VARIABLE st
Init == st \in ALShapes \cup MCShapes \cup PayShapes
Next == UNCHANGED st
\* the specification's decoders are total on every shape
SpecTotal == LET p == st.entry IN
  IF \E pkg \in Pkgs, dir \in {"up", "down"} : p = pkg \o "." \o dir
    THEN LET pk == CHOOSE pkg \in Pkgs : \E dir \in {"up", "down"} : p = pkg \o "." \o dir
             dr == CHOOSE dir \in {"up", "down"} : p = pk \o "." \o dir
         IN  ADecodeStream(pk, dr, st.bytes).ok \in BOOLEAN
  ELSE TRUE
Emit == CSVWrite("%1$s", <<ToJson(st)>>, OutFile)
====
