---- MODULE SecureLink ----
(* C05 (D): the sender pipeline | channel | receiver pipeline as a state machine with SYMBOLIC
   crypto.  One action per public method of the library; TLC explores ALL orders of the sender
   calls {EncryptFRMPayload, EncryptFOpts, SetMIC} (any ordered subset, then Marshal) and all orders
   of the receiver calls {SetFCnt (upper 16 bits), ValidateMIC, DecryptFOpts, DecryptFRMPayload}
   after Unmarshal, for every configuration: direction x MAC version x ACK x content layout x
   upper-FCnt-half zero/non-zero x one optional deviation (a mismatched key / counter half / 1.1
   MIC parameter at the receiver, or one tampered wire component).

   Symbolic content: a region is [present, pt, ks] where ks is the SET of keystreams XORed onto the
   plaintext (XOR = symmetric difference, so a second application cancels).  A keystream is
   identified by everything the specification derives it from.  A MIC is the term of everything the
   specification authenticates, including the wire image at the time it was computed.

   Invariants:
     Recover  canonical order, no deviation  =>  verdict TRUE, receiver content = sender content
     Reject   verdict TRUE  =>  no effective deviation (nothing the specification authenticates differs)
     Residue  a wrong payload key is invisible to the MIC but leaves keystream on the content
   Maximal behaviours are emitted as cases for the Go harness (replayed on real PHYPayload values). *)
EXTENDS Integers, Sequences, SequencesExt, FiniteSets, TLC, Json, IOUtils, CSV

OutFile == IOEnv.VERIF_CASES
Thorough == IOEnv.VERIF_GEN = "thorough"

Layouts == {"fopts+app", "port0", "app", "foptsonly", "fopts+port", "port0empty"}     \* fopts+port: FOpts and an FPort > 0 without any FRMPayload byte; port0empty: FPort 0 and nothing else
Deviations == {"none", "frmkey", "foptskey", "fkey", "skey", "fcnthigh", "conf", "confhigh", "txdr", "txch",
               "tamper-hdr", "tamper-fo", "tamper-frm", "tamper-mic"}
Cfgs == [dir : {"up", "down"}, ver : {0, 1}, ack : BOOLEAN, layout : Layouts, dev : Deviations,
         hi : IF Thorough THEN {"zero", "H"} ELSE {"H"}]

VARIABLES cfg, sfo, sfrm, smic, wire, rfo, rfrm, rmic, rhi, verdict, slog, rlog
vars == <<cfg, sfo, sfrm, smic, wire, rfo, rfrm, rmic, rhi, verdict, slog, rlog>>
Unset == [unset |-> TRUE]
NoWire == [sent |-> FALSE]

None == [present |-> FALSE, pt |-> "-", ks |-> {}]
Region(p) == [present |-> TRUE, pt |-> p, ks |-> {}]
HasFOpts(c) == c.layout \in {"fopts+app", "foptsonly", "fopts+port"}
HasFRM(c) == c.layout \in {"fopts+app", "port0", "app"}
PortClass(c) == CASE c.layout \in {"fopts+app", "app", "fopts+port"} -> "app" [] c.layout \in {"port0", "port0empty"} -> "zero" [] OTHER -> "absent"

Toggle(r, k) == IF ~r.present THEN r ELSE [r EXCEPT !.ks = (r.ks \ {k}) \cup ({k} \ r.ks)]

\* what the specification derives each keystream from (key, direction, counter halves; for FOpts also the variant)
FrmKS(key, c, hi, hdr) == <<"frm", key, c.dir, hdr, hi>>          \* hdr carries DevAddr and the low FCnt half
FOptsVariant(c) == IF c.dir = "down" /\ PortClass(c) = "app" THEN 2 ELSE 1
FoKS(key, c, hi, hdr) == <<"fopts", key, FOptsVariant(c), c.dir, hdr, hi>>

\* what the specification authenticates
ConfEff(c, conf) == IF c.ver = 1 /\ c.ack THEN conf ELSE <<"c0", "c0">>        \* <<low half, high half>>, high half never enters
MicTerm(c, fkey, skey, hi, conf, txdr, txch, image) ==
  IF c.dir = "up" THEN
     (IF c.ver = 0 THEN <<"mic-up10", fkey, "lo", hi, image>>
      ELSE <<"mic-up11", fkey, skey, ConfEff(c, conf)[1], txdr, txch, "lo", hi, image>>)
  ELSE <<"mic-down", skey, ConfEff(c, conf)[1], "lo", hi, image>>

SImage == <<"hdr", sfo, sfrm>>
RImage == <<wire.hdr, rfo, rfrm>>

Init == /\ cfg \in Cfgs
        /\ sfo = (IF HasFOpts(cfg) THEN Region("cmdsF") ELSE None)
        /\ sfrm = (IF HasFRM(cfg) THEN Region(IF cfg.layout = "port0" THEN "cmdsP" ELSE "app") ELSE None)
        /\ smic = Unset /\ wire = NoWire /\ rfo = None /\ rfrm = None /\ rmic = Unset /\ rhi = "zero"
        /\ verdict = "none" /\ slog = <<>> /\ rlog = <<>>

Did(lg, op) == \E i \in 1..Len(lg) : lg[i] = op
Sending == ~wire.sent

SEncFRM == /\ Sending /\ ~Did(slog, "EncryptFRMPayload")
           /\ sfrm' = Toggle(sfrm, FrmKS("AppK", cfg, cfg.hi, "hdr"))
           /\ slog' = Append(slog, "EncryptFRMPayload")
           /\ UNCHANGED <<cfg, sfo, smic, wire, rfo, rfrm, rmic, rhi, verdict, rlog>>
SEncFOpts == /\ Sending /\ ~Did(slog, "EncryptFOpts") /\ cfg.ver = 1
             /\ sfo' = Toggle(sfo, FoKS("EncK", cfg, cfg.hi, "hdr"))
             /\ slog' = Append(slog, "EncryptFOpts")
             /\ UNCHANGED <<cfg, sfrm, smic, wire, rfo, rfrm, rmic, rhi, verdict, rlog>>
SSetMIC == /\ Sending /\ ~Did(slog, "SetMIC")
           /\ smic' = [term |-> MicTerm(cfg, "FK", "SK", cfg.hi, <<"c", "ch">>, "dr", "ch", SImage)]
           /\ slog' = Append(slog, "SetMIC")
           /\ UNCHANGED <<cfg, sfo, sfrm, wire, rfo, rfrm, rmic, rhi, verdict, rlog>>
Tampered(part) == cfg.dev = "tamper-" \o part
SMarshal == /\ Sending
            /\ wire' = [sent |-> TRUE, hdr |-> IF Tampered("hdr") THEN "hdr*" ELSE "hdr",
                        fo |-> IF Tampered("fo") /\ sfo.present THEN [sfo EXCEPT !.pt = "garbage"] ELSE sfo,
                        frm |-> IF Tampered("frm") /\ sfrm.present THEN [sfrm EXCEPT !.pt = "garbage"] ELSE sfrm,
                        mic |-> IF Tampered("mic") THEN [flipped |-> smic] ELSE smic]
            /\ slog' = Append(slog, "Marshal")
            /\ UNCHANGED <<cfg, sfo, sfrm, smic, rfo, rfrm, rmic, rhi, verdict, rlog>>

Received == Did(rlog, "Unmarshal")
TF(b) == IF b THEN "T" ELSE "F"
RUnmarshal == /\ wire.sent /\ ~Received
              /\ rfo' = wire.fo /\ rfrm' = wire.frm /\ rmic' = wire.mic /\ rhi' = "zero"
              /\ rlog' = Append(rlog, "Unmarshal")
              /\ UNCHANGED <<cfg, sfo, sfrm, smic, wire, verdict, slog>>
ROp(op) == Received /\ ~Did(rlog, op) /\ rlog' = Append(rlog, op)
RSetFCnt == /\ ROp("SetFCnt")
            /\ rhi' = IF cfg.dev = "fcnthigh" THEN "H*" ELSE cfg.hi
            /\ UNCHANGED <<cfg, sfo, sfrm, smic, wire, rfo, rfrm, rmic, verdict, slog>>
RKey(role, dflt) == IF cfg.dev = role THEN dflt \o "*" ELSE dflt
RValidate == /\ ROp("Validate")
             /\ verdict' = TF(rmic = [term |-> MicTerm(cfg, RKey("fkey", "FK"), RKey("skey", "SK"), rhi,
                                           <<IF cfg.dev = "conf" THEN "c*" ELSE "c", IF cfg.dev = "confhigh" THEN "ch*" ELSE "ch">>,
                                           IF cfg.dev = "txdr" THEN "dr*" ELSE "dr", IF cfg.dev = "txch" THEN "ch*" ELSE "ch", RImage)])
             /\ UNCHANGED <<cfg, sfo, sfrm, smic, wire, rfo, rfrm, rmic, rhi, slog>>
RDecFOpts == /\ ROp("DecryptFOpts") /\ cfg.ver = 1
             /\ rfo' = Toggle(rfo, FoKS(RKey("foptskey", "EncK"), cfg, rhi, wire.hdr))
             /\ UNCHANGED <<cfg, sfo, sfrm, smic, wire, rfrm, rmic, rhi, verdict, slog>>
RDecFRM == /\ ROp("DecryptFRMPayload")
           /\ rfrm' = Toggle(rfrm, FrmKS(RKey("frmkey", "AppK"), cfg, rhi, wire.hdr))
           /\ UNCHANGED <<cfg, sfo, sfrm, smic, wire, rfo, rmic, rhi, verdict, slog>>

Next == SEncFRM \/ SEncFOpts \/ SSetMIC \/ SMarshal \/ RUnmarshal \/ RSetFCnt \/ RValidate \/ RDecFOpts \/ RDecFRM

ROpsAll == IF cfg.ver = 1 THEN {"SetFCnt", "Validate", "DecryptFOpts", "DecryptFRMPayload"} ELSE {"SetFCnt", "Validate", "DecryptFRMPayload"}
Maximal == Received /\ \A op \in ROpsAll : Did(rlog, op)

CanonS == IF cfg.ver = 1 THEN slog \in {<<"EncryptFRMPayload", "EncryptFOpts", "SetMIC", "Marshal">>, <<"EncryptFOpts", "EncryptFRMPayload", "SetMIC", "Marshal">>}
          ELSE slog = <<"EncryptFRMPayload", "SetMIC", "Marshal">>
Pos(lg, op) == CHOOSE i \in 1..Len(lg) : lg[i] = op
\* receiver: counter first, validation before decryption (decryption changes the authenticated image)
CanonR == /\ Pos(rlog, "SetFCnt") = 2
          /\ Pos(rlog, "Validate") = 3
ContentEqual == rfo = [sfo EXCEPT !.ks = {}] /\ rfrm = [sfrm EXCEPT !.ks = {}] /\ rfo.pt # "garbage" /\ rfrm.pt # "garbage"

\* a deviation is effective iff it changes something the specification authenticates
Effective ==
  CASE cfg.dev = "none" -> FALSE
    [] cfg.dev \in {"frmkey", "foptskey"} -> FALSE                       \* payload keys are not MIC inputs
    [] cfg.dev = "fkey" -> cfg.dir = "up"
    [] cfg.dev = "skey" -> cfg.dir = "down" \/ cfg.ver = 1
    [] cfg.dev = "fcnthigh" -> \* the wrong upper half takes effect once the receiver has set it; before that the receiver
                               \* validates with the 16 transmitted bits only, which is the sender's counter iff its upper half is zero
                               Pos(rlog, "SetFCnt") < Pos(rlog, "Validate") \/ cfg.hi # "zero"
    [] cfg.dev = "conf" -> cfg.ver = 1 /\ cfg.ack
    [] cfg.dev = "confhigh" -> FALSE                                      \* only ConfFCnt mod 2^16 is authenticated
    [] cfg.dev \in {"txdr", "txch"} -> cfg.dir = "up" /\ cfg.ver = 1
    [] cfg.dev = "tamper-fo" -> HasFOpts(cfg)
    [] cfg.dev = "tamper-frm" -> HasFRM(cfg)
    [] OTHER -> TRUE                                                      \* tamper-hdr, tamper-mic

Recover == (Maximal /\ CanonS /\ CanonR /\ cfg.dev = "none") => (verdict = "T" /\ ContentEqual)
Reject == (Maximal /\ verdict = "T") => ~Effective
\* a MIC accepted with a wrong payload key leaves keystream behind (when the region is present and was encrypted)
Residue == (Maximal /\ CanonS /\ CanonR /\ cfg.dev = "frmkey" /\ HasFRM(cfg)) => (verdict = "T" /\ rfrm.ks # {})
\* mis-orders the design wants caught: MIC computed before encryption -> receiver rejects
MicBeforeEncryption == (Maximal /\ CanonR /\ cfg.dev = "none" /\ HasFRM(cfg) /\ Did(slog, "SetMIC") /\ Did(slog, "EncryptFRMPayload")
                        /\ Pos(slog, "SetMIC") < Pos(slog, "EncryptFRMPayload")) => verdict = "F"
\* vacuity guards (checked by the orchestrator through the emitted cases): both verdicts occur

Emit == ~Maximal \/ CSVWrite("%1$s", <<ToJson([cfg |-> cfg, sops |-> slog, rops |-> rlog,
                                               exp |-> [verdict |-> verdict, equal |-> ContentEqual]])>>, OutFile)
====
