INIT Init
NEXT Next
INVARIANT Recovers
INVARIANT AllDataSuffices
INVARIANT TooFewFails
INVARIANT LineShape
CHECK_DEADLOCK FALSE
CONSTRAINT Emit
