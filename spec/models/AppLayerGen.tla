---- MODULE AppLayerGen ----
(* (D) + case generator for C18.  For every package x direction x CID:
     - fixed layouts: every byte value of 1-byte payloads, byte patterns for longer ones, decoded with
       the specification into a VALUE (one case per value);
     - status-dependent layouts: every status byte with pattern-filled tails;
   and command sequences of length <= 3 (<= 2 in the quick tier) over a per-direction palette that
   includes the zero-length firmware-management commands and CIDs without payload.
   Invariants: the value is well-formed, Len(Encode) is the reported size, DecodeStream o Encode = id. *)
EXTENDS Integers, Sequences, SequencesExt, FiniteSets, TLC, Json, IOUtils, CSV, Bytes, MACCommands, AppLayer

Thorough == IOEnv.VERIF_GEN = "thorough"
OutFile == IOEnv.VERIF_CASES
Dirs == {"up", "down"}
Pat(n, k) == CASE k = 0 -> [i \in 1..n |-> 0] [] k = 1 -> [i \in 1..n |-> 255] [] k = 2 -> [i \in 1..n |-> (i * 37 + 11) % 256] [] k = 3 -> [i \in 1..n |-> IF i % 2 = 0 THEN 170 ELSE 85]

\* payload byte strings to decode into values
PayloadBytes(pkg, dir, cid) ==
  IF IsSpecial(pkg, dir, cid) THEN
    CASE pkg = "multicastsetup" /\ cid = 1 -> {<<s>> \o Pat(5 * PopCount([i \in 1..4 |-> (s \div Pow2(i - 1)) % 2]), k) : s \in 0..127, k \in {2}}
      [] pkg = "multicastsetup" -> {<<s>> \o (IF (s \div 4) % 8 # 0 THEN <<>> ELSE Pat(3, k)) : s \in 0..31, k \in {1, 2}}
      [] pkg = "fragmentation" -> {Pat(2, k) \o Pat(n, 2) : k \in 0..3, n \in {0, 1, 5}}
      [] pkg = "firmwaremanagement" -> {<<s>> : s \in 0..2} \cup {<<3>> \o Pat(4, k) : k \in 0..3}
  ELSE LET n == LayoutSize(ALayout(pkg, dir, cid)) IN
       IF n = 0 THEN {<<>>} ELSE IF n = 1 THEN {<<b>> : b \in 0..255} ELSE {Pat(n, k) : k \in 0..3}
ValueOf(pkg, dir, cid, b) == [cid |-> cid, haspl |-> TRUE, val |-> DecodePayload(pkg, dir, cid, b)]

\* a clean (RFU-free) value per command for the sequences
Rep(pkg, dir, cid) == ValueOf(pkg, dir, cid, IF pkg = "firmwaremanagement" /\ dir = "up" /\ cid = 4 THEN <<3, 1, 2, 3, 4>> ELSE CHOOSE b \in PayloadBytes(pkg, dir, cid) : TRUE)
NoPl(cid) == [cid |-> cid, haspl |-> FALSE, val |-> <<>>]
Palette(pkg, dir) == {Rep(pkg, dir, c) : c \in CIDsOf(pkg, dir) \ (IF pkg = "fragmentation" THEN {8} ELSE {})} \cup {NoPl(CHOOSE c \in 0..9 : c \notin CIDsOf(pkg, dir))}
MaxSeq == IF Thorough THEN 3 ELSE 2

VARIABLES st
Init == \/ \E pkg \in Pkgs, dir \in Dirs : \E cid \in CIDsOf(pkg, dir) : \E b \in PayloadBytes(pkg, dir, cid) :
            st = [pkg |-> pkg, dir |-> dir, cmds |-> <<ValueOf(pkg, dir, cid, b)>>]
        \/ \E pkg \in Pkgs, dir \in Dirs : \E n \in 2..MaxSeq : \E s \in [1..n -> Palette(pkg, dir)] :
            st = [pkg |-> pkg, dir |-> dir, cmds |-> s]
Next == UNCHANGED st

WF == \A i \in 1..Len(st.cmds) : WellFormed(st.pkg, st.dir, st.cmds[i])
RoundTrip == LET b == AStreamBytes(st.pkg, st.dir, st.cmds)  d == ADecodeStream(st.pkg, st.dir, b) IN d.ok /\ d.cmds = st.cmds
SizeOK == \A i \in 1..Len(st.cmds) : LET c == st.cmds[i] IN
             (c.haspl /\ ~IsSpecial(st.pkg, st.dir, c.cid)) => Len(APayloadBytes(st.pkg, st.dir, c)) = LayoutSize(ALayout(st.pkg, st.dir, c.cid))
Emit == CSVWrite("%1$s", <<ToJson(st @@ [bytes |-> AStreamBytes(st.pkg, st.dir, st.cmds)])>>, OutFile)
====
