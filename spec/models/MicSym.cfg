INIT Init
NEXT Next
INVARIANT ValidateIffEqualInputs
INVARIANT ExcludedInputsIgnored
INVARIANT ConfMatters
INVARIANT FCntHighMatters
CHECK_DEADLOCK FALSE
