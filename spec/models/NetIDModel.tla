---- MODULE NetIDModel ----
(* (D) for C11: algebraic identities of the addressing rules on the specification itself, for all
   8 types x an ID lattice (all IDs of types 0-2; single-bit, all-ones and boundary IDs of types
   3-7) x 4 address patterns. *)
EXTENDS NetID, IOUtils
Thorough == IOEnv.VERIF_GEN = "thorough"
IDs(t) == IF t <= 1 THEN 0..63 ELSE IF t = 2 THEN (IF Thorough THEN 0..511 ELSE {0, 1, 255, 256, 511} \cup {2^k : k \in 0..8})
          ELSE {0, 1, 2097151, 131071, 131072, 65535, 4095, 2047, 2048, 8191, 32767, 1398101} \cup {2^k : k \in 0..20}
NetIDOf(t, id) == <<t * 32 + (id \div 65536), (id \div 256) % 256, id % 256>>
Addrs == {<<0, 0, 0, 0>>, <<255, 255, 255, 255>>, <<170, 85, 170, 85>>, <<18, 52, 86, 120>>}
VARIABLES t, id, addr
vars == <<t, id, addr>>
Init == t \in 0..7 /\ id \in IDs(t) /\ addr \in Addrs
Next == UNCHANGED vars
N == NetIDOf(t, id)
Member == IsNetID(SetPrefix(addr, N), N)
Fixpoint == IsNetID(addr, N) <=> SetPrefix(addr, N) = addr
NwkAddrUntouched == LET k == PrefixLen(t) + NwkIDBits[t + 1] IN SubSeq(BitsOf(SetPrefix(addr, N)), k + 1, 32) = SubSeq(BitsOf(addr), k + 1, 32)
TypeKept == AddrType(SetPrefix(addr, N)) = t /\ TypeOf(N) = t
NwkIDKept == AddrNwkID(SetPrefix(addr, N)) = NwkIDOf(N)
Idempotent == SetPrefix(SetPrefix(addr, N), N) = SetPrefix(addr, N)
====
