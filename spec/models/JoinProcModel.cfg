INIT Init
NEXT Next
INVARIANT ResultCode
INVARIANT Mirror
INVARIANT Usable
INVARIANT KeysAgree
INVARIANT Separation
INVARIANT EchoOrRefuse
CHECK_DEADLOCK FALSE
