INIT Init
NEXT Next
INVARIANT ResultCode
INVARIANT Mirror
INVARIANT Usable
INVARIANT KeysAgree
INVARIANT Separation
CHECK_DEADLOCK FALSE
