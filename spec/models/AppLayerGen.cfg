INIT Init
NEXT Next
INVARIANT WF
INVARIANT RoundTrip
INVARIANT SizeOK
CONSTRAINT Emit
CHECK_DEADLOCK FALSE
