---- MODULE BackendClientModel ----
(* (D) - EXTENDED COVERAGE.  Request/answer correlation of the backend client (backend/client.go,
   function request) in its two modes, every interleaving of a few concurrent calls:

   sync  : POST the request; the HTTP response body is the answer.
   async : SUBSCRIBE to the pub/sub key of the TransactionID, then POST; the HTTP response is only an
           acknowledgement; the peer's answer arrives later at the client's own HTTP endpoint, whose
           handler (HandleAnswer) PUBLISHes it on the key of the answer's TransactionID; the waiting
           call takes the first message or gives up after AsyncTimeout.

   One action per step of the code: Subscribe, Post, Serve (peer handles the request), HttpReturn,
   Publish (HandleAnswer), Timeout, Return.  Pub/sub has no memory: a PUBLISH reaches exactly the
   subscriptions that exist at that moment.

   Invariants
     NoCrossTalk   a call returns a timeout or an answer carrying its own TransactionID; when the
                   TransactionIDs of concurrent calls differ it is the answer to ITS request
     NoLostAnswer  (SubscribeFirst) an answer is never published into the void while its call is
                   still waiting: the subscription exists before the request can be seen by the peer
   The cfg BackendClientModel_postfirst swaps Subscribe and Post; TLC must then FIND a lost answer
   (the reason for the order the code comments on).  The cfg _sametx lets two calls share a
   TransactionID; TLC must then FIND cross-talk (why GetRandomTransactionID draws 32 random bits). *)
EXTENDS Integers, FiniteSets, Sequences, TLC

CONSTANTS Calls,          \* concurrent API calls
          TxIds,          \* TransactionID values they may carry
          Async,          \* BOOLEAN
          SubscribeFirst, \* BOOLEAN: the order used by the code (TRUE) or the swapped one
          DistinctTx      \* BOOLEAN: calls carry pairwise distinct TransactionIDs

VARIABLES pc, tx, subs, wire, pending, inbox, result, lost
vars == <<pc, tx, subs, wire, pending, inbox, result, lost>>
None == [none |-> TRUE]
Answer(c) == [txid |-> tx[c], to |-> c]           \* the peer's answer to the request of call c

Init == /\ pc = [c \in Calls |-> "start"]
        /\ tx \in {f \in [Calls -> TxIds] : DistinctTx => \A a, b \in Calls : a # b => f[a] # f[b]}
        /\ subs = {} /\ wire = {} /\ pending = {} /\ lost = {}
        /\ inbox = [c \in Calls |-> None] /\ result = [c \in Calls |-> None]

\* ---- client side ----
Subscribe(c) == /\ Async
                /\ pc[c] = (IF SubscribeFirst THEN "start" ELSE "posted")
                /\ subs' = subs \cup {<<tx[c], c>>}
                /\ pc' = [pc EXCEPT ![c] = IF SubscribeFirst THEN "subscribed" ELSE "waiting"]
                /\ UNCHANGED <<tx, wire, pending, inbox, result, lost>>
Post(c) == /\ pc[c] = (IF Async /\ SubscribeFirst THEN "subscribed" ELSE "start")
           /\ wire' = wire \cup {c}
           /\ pc' = [pc EXCEPT ![c] = "posting"]
           /\ UNCHANGED <<tx, subs, pending, inbox, result, lost>>
\* ---- peer ----
Serve(c) == /\ c \in wire /\ wire' = wire \ {c}
            /\ IF Async THEN pending' = pending \cup {Answer(c)} /\ UNCHANGED inbox    \* answer comes later, out of band
               ELSE inbox' = [inbox EXCEPT ![c] = Answer(c)] /\ UNCHANGED pending       \* answer is the HTTP response body
            /\ pc' = [pc EXCEPT ![c] = "served"]
            /\ UNCHANGED <<tx, subs, result, lost>>
HttpReturn(c) == /\ pc[c] = "served"
                 /\ pc' = [pc EXCEPT ![c] = IF Async /\ ~SubscribeFirst THEN "posted" ELSE "waiting"]
                 /\ UNCHANGED <<tx, subs, wire, pending, inbox, result, lost>>
\* HandleAnswer: publish on the key of the answer's TransactionID; every current subscriber of the key whose
\* goroutine has not taken a message yet receives it (and closes its subscription)
Publish(a) == /\ a \in pending /\ pending' = pending \ {a}
              /\ LET rcv == {c \in Calls : <<a.txid, c>> \in subs /\ inbox[c] = None} IN
                   /\ inbox' = [c \in Calls |-> IF c \in rcv THEN a ELSE inbox[c]]
                   /\ subs' = subs \ {<<a.txid, c>> : c \in rcv}
                   /\ lost' = IF rcv = {} /\ result[a.to] = None /\ inbox[a.to] = None THEN lost \cup {a} ELSE lost
              /\ UNCHANGED <<pc, tx, wire, result>>
Timeout(c) == /\ Async /\ <<tx[c], c>> \in subs /\ inbox[c] = None
              /\ inbox' = [inbox EXCEPT ![c] = [timeout |-> TRUE]]
              /\ subs' = subs \ {<<tx[c], c>>}
              /\ UNCHANGED <<pc, tx, wire, pending, result, lost>>
Return(c) == /\ pc[c] = "waiting" /\ inbox[c] # None
             /\ result' = [result EXCEPT ![c] = inbox[c]]
             /\ pc' = [pc EXCEPT ![c] = "done"]
             /\ UNCHANGED <<tx, subs, wire, pending, inbox, lost>>

Next == \/ \E c \in Calls : Subscribe(c) \/ Post(c) \/ Serve(c) \/ HttpReturn(c) \/ Timeout(c) \/ Return(c)
        \/ \E a \in pending : Publish(a)
Spec == Init /\ [][Next]_vars

IsAnswer(r) == "txid" \in DOMAIN r
NoCrossTalk == \A c \in Calls : (result[c] # None /\ IsAnswer(result[c])) =>
                 /\ result[c].txid = tx[c]
                 /\ ((\A d \in Calls : d # c => tx[d] # tx[c]) => result[c].to = c)
\* the strict form: every returned answer is the answer to the call's own request (needs distinct TransactionIDs)
ExactAnswer == \A c \in Calls : (result[c] # None /\ IsAnswer(result[c])) => result[c].to = c
NoLostAnswer == lost = {}
\* a sync call can only end with the answer to its own request
SyncExact == ~Async => \A c \in Calls : result[c] # None => result[c] = Answer(c)
====
