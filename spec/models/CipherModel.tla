---- MODULE CipherModel ----
(* (D) for C03/C04 on the CONCRETE instance (AES in TLA+): for every length of the palette, two
   keys and both directions: the transform preserves length, is an involution, its keystream
   blocks are pairwise distinct (block i depends on counter i), the FOpts variant rule holds for
   every direction x FPort class, and join-accept decryption inverts encryption for the 16- and
   32-byte forms. *)
EXTENDS Integers, Sequences, SequencesExt, FiniteSets, TLC, IOUtils, Bytes, Crypto

Thorough == IOEnv.VERIF_GEN = "thorough"
Lens == IF Thorough THEN (0..49) \cup {63, 64, 65} \cup (240..255) ELSE {0, 1, 15, 16, 17, 31, 32, 33, 64, 255}
K1 == [i \in 1..16 |-> i]
K2 == [i \in 1..16 |-> 255 - 3 * i]
Data(n) == [i \in 1..n |-> (i * 31 + n) % 256]

VARIABLES n, key, db
vars == <<n, key, db>>
Init == n \in Lens /\ key \in {K1, K2} /\ db \in {0, 1}
Next == UNCHANGED vars

DA == <<4, 3, 2, 1>>
FC == <<1, 0, 1, 0>>
Enc(x) == EncFRM(key, db, DA, FC, x)
LengthPreserved == Len(Enc(Data(n))) = n
Involution == Enc(Enc(Data(n))) = Data(n)
BlocksDistinct == LET ks == Keystream(key, 0, db, DA, FC, n)
                      blk(i) == SubSeq(ks, 16*i - 15, 16*i)
                  IN  \A i, j \in 1..NBlocks(n) : i # j => blk(i) # blk(j)
NotIdentity == n > 0 => Enc(Data(n)) # Data(n)
FOptsRule == /\ FOptsVariant(0, <<>>) = 1 /\ FOptsVariant(0, <<0>>) = 1 /\ FOptsVariant(0, <<1>>) = 1 /\ FOptsVariant(0, <<255>>) = 1
             /\ FOptsVariant(1, <<>>) = 1 /\ FOptsVariant(1, <<0>>) = 1 /\ FOptsVariant(1, <<1>>) = 2 /\ FOptsVariant(1, <<255>>) = 2
FOptsInvolution == n <= 15 => /\ EncFOpts(key, 1, db, DA, FC, EncFOpts(key, 1, db, DA, FC, Data(n))) = Data(n)
                              /\ (n > 0 => EncFOpts(key, 1, db, DA, FC, Data(n)) # EncFOpts(key, 2, db, DA, FC, Data(n)))
JoinAcceptInverse == (n \in {16, 32}) => /\ DecJoinAccept(key, EncJoinAccept(key, Data(n))) = Data(n)
                                          /\ EncJoinAccept(key, Data(n)) # Data(n)
====
