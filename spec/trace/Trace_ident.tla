---- MODULE Trace_ident ----
(* Trace specification for the `ident` driver family (C11).
     C11.prefix   SetAddrPrefix result = type prefix | NwkID | untouched NwkAddr
     C11.member   IsNetID true exactly for addresses carrying that type and NwkID
     C11.fields   NwkID(), NetIDType(), NetID.Type(), NetID.ID() return the specified bits
     C11.repr     text (hex, optional 0x), binary (byte-reversed) and database representations
                  round-trip; wrong-length / malformed inputs are rejected *)
EXTENDS Integers, Sequences, SequencesExt, FiniteSets, TLC, Json, IOUtils, Bytes, Text, NetID

Tr == ndJsonDeserialize(IOEnv.VERIF_TRACE)
VARIABLES l, nfail
Tag(cond, t) == IF cond THEN <<>> ELSE <<t>>

PrefixFails(e) ==
  LET t == TypeOf(e.netid) IN
  Tag(e.err = "" /\ e.out = SetPrefix(e.addr, e.netid), "C11.prefix")
  \o Tag(e.isnet = TRUE /\ e.isnetin = IsNetID(e.addr, e.netid) /\ e.isnetnb = IsNetID(e.nb, e.netid), "C11.member")
  \o Tag(e.ntype = t /\ e.nid = RightAligned(IDOf(e.netid))
         /\ (e.err = "" /\ e.out = SetPrefix(e.addr, e.netid) => (e.dtype = t /\ e.nwkid = RightAligned(NwkIDOf(e.netid)))), "C11.fields")

ReprFails(e) ==
  LET n == Len(e.val)
      okv(name) == e[name \o "_err"] = "" /\ e[name] = e.val
      rej(name) == e[name \o "_err"] = "error"
  IN  Tag(/\ e.text = Hex(e.val) /\ e.bin = Rev(e.val) /\ e.dbval = e.val
          /\ e.text_kept = e.text /\ e.bin_kept = e.bin            \* still so after other identifiers were marshalled
          /\ okv("untext_used") /\ okv("untext0x_used") /\ okv("unbin_used") /\ okv("scan_used")   \* decoding into a variable that held another identifier
          /\ okv("untext") /\ okv("untext0x") /\ okv("untextupper") /\ okv("unbin") /\ okv("scan")
          /\ rej("untext_short") /\ rej("untext_long") /\ rej("untext_odd") /\ rej("untext_bad")
          /\ rej("unbin_short") /\ rej("unbin_long") /\ rej("scan_short") /\ rej("scan_long") /\ rej("scan_string"), "C11.repr")

Fails(e) == CASE e.ev = "prefix" -> PrefixFails(e)
              [] e.ev = "repr" -> ReprFails(e)
              [] e.ev = "prefixc" -> Tag(e.out = SetPrefix(e.addr, e.netid), "C11.prefix")          \* results of calls that overlapped with calls for OTHER NetIDs
                                     \o Tag(e.isnet = TRUE /\ e.isnetin = IsNetID(e.addr, e.netid), "C11.member")
              [] e.ev = "hang" -> <<e.prop \o ".hang">>    \* a call that never returned (recorded by the watchdog of the harness)
              [] OTHER -> <<"unknown-event">>
Init == l = 1 /\ nfail = 0
Next == /\ l <= Len(Tr)
        /\ LET f == Fails(Tr[l]) IN
             /\ (IF f = <<>> THEN TRUE ELSE PrintT(<<"VFAIL", l, f>>))
             /\ nfail' = nfail + (IF f = <<>> THEN 0 ELSE 1)
        /\ l' = l + 1
Done == (l = Len(Tr) + 1) => PrintT(<<"VDONE", l - 1, nfail>>)
====
