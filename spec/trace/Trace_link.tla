---- MODULE Trace_link ----
(* Trace specification for the `link` driver family (C05).  A replayed SecureLink behaviour is a
   chain of calls on one PHYPayload value; every call is logged with the frame before and after it,
   so each step is validated by the same concrete clauses as the crypto family (the `post` of one
   step is the `pre` of the next by construction), and a final `linkend` event is compared with
   what the symbolic model predicted for that behaviour.
     C05.recover  "a receiver holding the same keys and counters that deserialises, validates the
                   MIC, and decrypts obtains exactly the original MAC commands and payload"
     C05.reject   "the receiver's MIC validation fails whenever the specification's MIC differs"
                  (symbolic prediction on linkend; exact concrete MIC on validate / flip events)
     C05.step     a pipeline call did not perform the specified transform
     C05.wire     serialisation / deserialisation differs from the frame format *)
EXTENDS Integers, Sequences, SequencesExt, FiniteSets, TLC, Json, IOUtils, Bytes, MACCommands, Frame, Crypto, CryptoClauses

Tr == ndJsonDeserialize(IOEnv.VERIF_TRACE)
VARIABLES l, nfail

Retag(f, tag) == IF f = <<>> THEN <<>> ELSE <<tag>>

QuantItems(dir, items) == [i \in 1..Len(items) |->
   IF items[i].t = "cmd" /\ dir = "down" /\ items[i].cid = 13 /\ ~Has(items[i], "raw") /\ items[i].p # <<>>
     THEN [items[i] EXCEPT !.p = <<[Time |-> QuantDur(items[i].p[1].Time)]>>]
     ELSE items[i]]

WireFails(e) == IF ~FrameOK(e.frame) THEN <<>>
                ELSE IF e.err # "" THEN <<"C05.wire">>
                ELSE IF e.bytes # EncodeFrame(e.frame) THEN <<"C05.wire">> ELSE <<>>
UnwireFails(e) == LET sd == DecodeFrame(e.bytes) IN
                  IF IsErr(sd) THEN (IF e.err = "error" THEN <<>> ELSE <<"C05.wire">>)
                  ELSE IF e.err # "" THEN <<"C05.wire">>
                  ELSE IF e.frame # sd THEN <<"C05.wire">> ELSE <<>>

\* The symbolic verdict is compared only for receivers that validate BEFORE decrypting (the order the
\* property's history prescribes).  A receiver that decrypts-and-decodes first validates the MIC over
\* the re-encoded command structs, which is exact only up to RFU bits of the decoded commands; for
\* those orders the concrete clause on the `validate` event (MIC of the frame as held) is the check.
PosIn(sq, x) == IF \E i \in 1..Len(sq) : sq[i] = x THEN CHOOSE i \in 1..Len(sq) : sq[i] = x ELSE 99
ValidateFirst(e) == PosIn(e.rops, "Validate") < PosIn(e.rops, "DecryptFOpts") /\ PosIn(e.rops, "Validate") < PosIn(e.rops, "DecryptFRMPayload")
\* The symbolic model treats a keystream as something that always changes the bytes it is XOR-ed onto.  On a concrete
\* frame the keystream bytes that meet the (short) payload can be zero: then a sender that computed the MIC before
\* encrypting put exactly the bytes of a conformant sender on the air, and the predicted rejection is void.  (The exact
\* MIC of every frame as held is checked by the `validate` events either way.)
PlainOnWire(e) ==
  LET sd == DecodeFrame(e.wire) IN
  Has(e, "wire") /\ ~IsErr(sd) /\ sd.kind = "data"
  /\ ItemsBytes(e.cfg.dir, sd.frm) = ItemsBytes(e.cfg.dir, e.orig.frm) /\ ItemsBytes(e.cfg.dir, sd.fopts) = ItemsBytes(e.cfg.dir, e.orig.fopts)
\* deviations that change nothing the specification authenticates (SecureLink!Effective, the statically decidable part)
Harmless(cfg) == \/ cfg.dev \in {"none", "frmkey", "foptskey", "confhigh"}
                 \/ (cfg.dev = "fkey" /\ cfg.dir # "up") \/ (cfg.dev = "skey" /\ ~(cfg.dir = "down" \/ cfg.ver = 1))
                 \/ (cfg.dev = "conf" /\ ~(cfg.ver = 1 /\ cfg.ack)) \/ (cfg.dev \in {"txdr", "txch"} /\ ~(cfg.dir = "up" /\ cfg.ver = 1))
MisorderedSender(e) == PosIn(e.sops, "SetMIC") < PosIn(e.sops, "EncryptFRMPayload") \/ PosIn(e.sops, "SetMIC") < PosIn(e.sops, "EncryptFOpts")
EndFails(e) ==
  LET dir == e.cfg.dir IN
  (IF ValidateFirst(e) /\ e.exp.verdict = "T" /\ e.verdict # "T" THEN <<"C05.recover">> ELSE <<>>)
  \o (IF ValidateFirst(e) /\ e.exp.verdict = "F" /\ e.verdict \notin {"F", "err"} /\ ~(Harmless(e.cfg) /\ MisorderedSender(e) /\ PlainOnWire(e)) THEN <<"C05.reject">> ELSE <<>>)
  \o (IF e.exp.equal /\ Has(e, "final") /\
         ~(/\ e.final.kind = "data"
           /\ e.final.fopts = QuantItems(dir, e.orig.fopts)
           /\ e.final.frm = QuantItems(dir, e.orig.frm)
           /\ e.final.fport = e.orig.fport
           /\ e.final.mtype = e.orig.mtype
           /\ (e.cfg.dev = "tamper-hdr" \/ (/\ e.final.devaddr = e.orig.devaddr /\ e.final.fctrl = e.orig.fctrl
                                             /\ SubSeq(e.final.fcnt, 1, 2) = SubSeq(e.orig.fcnt, 1, 2))))
      THEN <<"C05.recover">> ELSE <<>>)
  \o (IF e.exp.equal /\ ~Has(e, "final") THEN <<"C05.recover">> ELSE <<>>)

\* every single-bit corruption: rejected by the decoder, or validated exactly as the specification says
FlipFails(e) ==
  LET sd == DecodeFrame(e.bytes) IN
  IF IsErr(sd) THEN (IF e.derr = "error" THEN <<>> ELSE <<"C05.wire">>)
  ELSE IF e.derr # "" THEN <<"C05.wire">>
  ELSE IF sd.kind # "data" THEN (IF ~e.ok THEN <<>> ELSE <<"C05.reject">>)
  ELSE LET f == [sd EXCEPT !.fcnt = <<sd.fcnt[1], sd.fcnt[2], e.fcnthi[3], e.fcnthi[4]>>]
           which == IF DirOf(f.mtype) = "up" THEN "up" ELSE "down"
           exp == f.mic = ExpMicM([e EXCEPT !.frame = f], which, SubSeq(e.bytes, 1, Len(e.bytes) - 4))   \* MIC over the bytes as received
       IN  IF e.verr # "" THEN <<"C05.reject">>
           ELSE IF e.frame # f THEN <<"C05.wire">>
           ELSE IF e.ok # exp THEN <<"C05.reject">>
           ELSE IF e.bit >= 0 /\ e.ok THEN <<"C05.reject">>       \* a corrupted frame was accepted
           ELSE IF e.bit < 0 /\ ~e.ok THEN <<"C05.recover">>      \* the untouched frame was rejected
           ELSE <<>>

Fails(e) == CASE e.ev = "setmic" -> Retag(SetMicFails(e), "C05.step")
              [] e.ev = "validate" -> IF e.err # "" THEN <<>>     \* an error is a rejection; wrongful ones surface in linkend (exp.verdict = "T")
                                       ELSE Retag(ValidateFails(e), "C05.reject")
              [] e.ev = "method" -> Retag(MethodFails(e), "C05.step")
              [] e.ev = "wire" -> WireFails(e)
              [] e.ev = "unwire" -> UnwireFails(e)
              [] e.ev = "linkend" -> EndFails(e)
              [] e.ev = "flip" -> FlipFails(e)
              [] e.ev = "propx" -> (IF e.err = "" /\ e.micok /\ [e.recv EXCEPT !.mic = e.sent.mic] = e.sent THEN <<>> ELSE <<"C05.recover">>)   \* frames with proprietary commands registered late: the receiver recovers what was sent
              [] e.ev = "cmdtype" -> (IF e.err = "" /\ e.ty = PayloadTypeName(e.dir, e.cid) THEN <<>> ELSE <<"C05.recover">>)   \* the recovered command is the command that was sent, type included
              [] e.ev = "hang" -> <<e.prop \o ".hang">>    \* a call that never returned (recorded by the watchdog of the harness)
              [] OTHER -> <<"unknown-event">>

Init == l = 1 /\ nfail = 0
Next == /\ l <= Len(Tr)
        /\ LET f == Fails(Tr[l]) IN
             /\ (IF f = <<>> THEN TRUE ELSE PrintT(<<"VFAIL", l, f>>))
             /\ nfail' = nfail + (IF f = <<>> THEN 0 ELSE 1)
        /\ l' = l + 1
Done == (l = Len(Tr) + 1) => PrintT(<<"VDONE", l - 1, nfail>>)
====
