---- MODULE Trace_crypto ----
(* Trace specification for the `crypto` driver family (independent events), concrete AES/CMAC.
     C02.mic       "the MIC the library sets is exactly the LoRaWAN-specified AES-CMAC"
     C02.validate  "validation returns true exactly when the frame carries that value"
     C03.frm       FRMPayload keystream S_i = AES(K, A_i), length preserved
     C03.involution "applying the same operation again restores the plaintext"
     C03.fopts     single FOpts block, AFCntDown variant selection, > 15 bytes rejected
     C03.method    "each operation either applies this transform or returns an error - it never
                    reports success while leaving data untransformed" (PHYPayload methods)
     C04.mic / C04.validate   join-request, rejoin-request and join-accept MICs
     C04.encrypt / C04.decrypt join-accept AES-decrypt-in-ECB over payload|MIC and its inverse *)
EXTENDS Integers, Sequences, SequencesExt, FiniteSets, TLC, Json, IOUtils, Bytes, MACCommands, Frame, Crypto, CryptoClauses

Tr == ndJsonDeserialize(IOEnv.VERIF_TRACE)
VARIABLES l, nfail

Fails(e) == CASE e.ev = "setmic" -> SetMicFails(e)
              [] e.ev = "validate" -> ValidateFails(e)
              [] e.ev = "encfrm" -> EncFrmFails(e)
              [] e.ev = "encfopts" -> EncFOptsFails(e)
              [] e.ev = "method" -> MethodFails(e)
              [] e.ev = "joinmic" -> JoinMicFails(e)
              [] e.ev = "encja" -> EncJAFails(e)
              [] e.ev = "decja" -> DecJAFails(e)
              [] e.ev = "reset" -> <<>>
              [] e.ev = "crash" -> <<"C00.crash">>       \* concurrent run: the Go runtime aborted the process
              [] e.ev = "hang" -> <<e.prop \o ".hang">>    \* a call that never returned (recorded by the watchdog of the harness)
              [] OTHER -> <<"unknown-event">>

Init == l = 1 /\ nfail = 0
Next == /\ l <= Len(Tr)
        /\ LET f == Fails(Tr[l]) IN
             /\ (IF f = <<>> THEN TRUE ELSE PrintT(<<"VFAIL", l, f>>))
             /\ nfail' = nfail + (IF f = <<>> THEN 0 ELSE 1)
        /\ l' = l + 1
Done == (l = Len(Tr) + 1) => PrintT(<<"VDONE", l - 1, nfail>>)
====
