---- MODULE Trace_join ----
(* Trace specification for the `join` driver family (C16): every answer of the real join-server
   handler is checked by the independently specified device and NS/AS sides, with AES, AES-CMAC and
   RFC 3394 written in TLA+.
     C16.result   Success for a known device (+ correct MIC for join-requests); MICFailed for a wrong
                  join-request MIC; UnknownDevEUI for an unknown device
     C16.fault    a request that meets a failing storage callback (device keys, KEK, AS-KEK label) is answered with an
                  error result (mirrored like every answer), never with Success
     C16.mirror   the answer mirrors sender, receiver and transaction id (and is a JoinAns/RejoinAns)
     C16.decrypt  the device can decrypt the join-accept (well-formed 12/28-byte payload)
     C16.mic      ... and accepts its MIC (1.0 form, or the OptNeg form under JSIntKey)
     C16.echo     DevAddr / DLSettings / RxDelay / CFList / JoinNonce / NetID are the requested / configured ones
     C16.keys     the session keys in the answer, unwrapped with the configured KEKs, equal the device's *)
EXTENDS Integers, Sequences, SequencesExt, FiniteSets, TLC, Json, IOUtils, Bytes, MACCommands, Frame, AES, CMAC, KeyWrap
J == INSTANCE JoinProc WITH CMACf <- CMAC, AESf <- AESEnc, AESDf <- AESDec, First <- Take, XorP <- XorPrefix, Cat <- \o

Tr == ndJsonDeserialize(IOEnv.VERIF_TRACE)
VARIABLES l, nfail
Tag(cond, t) == IF cond THEN <<>> ELSE <<t>>

Mirror(e) == LET a == e.answer IN
             a.sender = e.receiver /\ a.receiver = e.sender /\ a.txid = e.txid
             /\ a.msgtype = (IF e.kind = "join" THEN "JoinAns" ELSE "RejoinAns")
\* a key carried in an envelope: unwrap with the configured KEK when a label is present, else clear
Carried(env, kek) == IF ~env.present THEN [ok |-> FALSE, key |-> <<>>]
                     ELSE IF env.label THEN Unwrap(kek, env.key) ELSE [ok |-> TRUE, key |-> env.key]
EnvelopeShape(env, kek) == env.present /\ (env.label <=> kek # <<>>)

SuccessFails(e) ==
  LET a == e.answer
      phy == a.phy
      wellSized == Len(phy) \in {17, 33} /\ phy[1] = 32
      pt == J!Plain(e, phy)
      payload == SubSeq(pt, 1, Len(pt) - 4)
      mic == SubSeq(pt, Len(pt) - 3, Len(pt))
      ja == DecodeJoinAccept(payload)
      optneg == e.dl.optneg
      dk == J!DeviceKeys(e, optneg)
      names == IF optneg THEN {"FNwkSIntKey", "AppSKey", "SNwkSIntKey", "NwkSEncKey"} ELSE {"NwkSKey", "AppSKey"}
      kekOf(n) == IF n = "AppSKey" THEN e.askek ELSE e.nskek
  IN  IF ~wellSized THEN <<"C16.decrypt">>
      ELSE Tag(mic = J!ExpectedMic(e, phy[1], payload, ja.dl.optneg), "C16.mic")
        \o Tag(/\ ja.devaddr = e.devaddr /\ ja.dl = e.dl /\ ja.rxdelay = e.rxdelay
               /\ SubSeq(ja.joinnonce, 1, 3) = e.jn3 /\ ja.netid = e.netid
               /\ (IF e.cflist = <<>> THEN Len(payload) = 12 ELSE Len(payload) = 28 /\ SubSeq(payload, 13, 28) = e.cflist[1]), "C16.echo")
        \o (LET agree(exp) == \A n \in names : LET c == Carried(a.keys[n], kekOf(n)) IN
                                  EnvelopeShape(a.keys[n], kekOf(n)) /\ c.ok /\ c.key = exp[n]
            IN  IF agree(dk) THEN <<>>
                ELSE IF e.kind # "join" /\ optneg /\ agree(J!Keys10Style(e)) THEN <<"C16.keys-rejoin-1.0-derivation">>
                ELSE <<"C16.keys">>)

AnyFault(e) == e.faults.dev \/ e.faults.nskek \/ e.faults.aslabel \/ e.faults.askek
JoinFails(e) ==
  LET a == e.answer IN
  IF a.parse # "" THEN <<"C16.result">>
  ELSE Tag(Mirror(e), "C16.mirror")
    \o (IF AnyFault(e) THEN Tag(a.code # "Success", "C16.fault")      \* a storage fault: an error answer (still mirrored), never a Success
        ELSE IF ~e.known THEN Tag(a.code = "UnknownDevEUI", "C16.result")
        ELSE IF e.kind = "join" /\ ~e.micok THEN Tag(a.code = "MICFailed", "C16.result")   \* whatever else is wrong with a request that cannot be authenticated
        ELSE IF e.rxdelay < 0 \/ e.rxdelay > 15 THEN Tag(a.code # "Success", "C16.echo")   \* an RxDelay that cannot be echoed: never a Success with another value
        ELSE IF ~e.micok THEN <<>>                        \* rejoin-request with a wrong MIC: not covered by the statement
        ELSE IF e.kind # "join" /\ ~e.dl.optneg THEN Tag(a.code = "Success", "C16.result")   \* rejoin answers with OptNeg clear: DON'T-CARE beyond the result
        ELSE IF a.code # "Success" THEN <<"C16.result">>
        ELSE SuccessFails(e))

\* HomeNSReq (Backend Interfaces sec. 11.1): the home NetID of a known device, UnknownDevEUI otherwise; mirrored ids
HomeNSFails(e) ==
  LET a == e.answer IN
  IF e.panic # "" \/ a.parse # "" THEN <<"C16.result">>
  ELSE Tag(a.sender = e.receiver /\ a.receiver = e.sender /\ a.txid = e.txid /\ a.msgtype = "HomeNSAns", "C16.mirror")
    \o Tag(IF e.known THEN a.code = "Success" /\ a.hnetid = e.netid ELSE a.code = "UnknownDevEUI", "C16.result")
\* malformed requests: answered (no panic, no hang) and never with Success
BadFails(e) == Tag(e.panic = "" /\ e.code # "Success" /\ e.http >= 400, "C16.malformed")

Fails(e) == CASE e.ev = "joinsrv" -> JoinFails(e)
              [] e.ev = "homens" -> HomeNSFails(e)
              [] e.ev = "joinbad" -> BadFails(e)
              [] e.ev = "hang" -> <<e.prop \o ".hang">>    \* a call that never returned (recorded by the watchdog of the harness)
              [] OTHER -> <<"unknown-event">>
Init == l = 1 /\ nfail = 0
Next == /\ l <= Len(Tr)
        /\ LET f == Fails(Tr[l]) IN
             /\ (IF f = <<>> THEN TRUE ELSE PrintT(<<"VFAIL", l, f>>))
             /\ nfail' = nfail + (IF f = <<>> THEN 0 ELSE 1)
        /\ l' = l + 1
Done == (l = Len(Tr) + 1) => PrintT(<<"VDONE", l - 1, nfail>>)
====
