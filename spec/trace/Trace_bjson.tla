---- MODULE Trace_bjson ----
(* Trace specification for the `bjson` driver family (C17).
     C17.text      frequencies are expressed in MHz / percentages as fractions (the numeral denotes the value)
     C17.roundtrip the value survives encoding and decoding unchanged (numbers, hex strings, timestamps to 1 s)
     C17.hex       hex text, optional 0x / upper case on input, malformed input rejected
     C17.time      RFC 3339 text denotes the instant; decoding returns it to one second
     C17.struct    every request/answer payload re-encodes to the same document after decoding
     C17.wrap      the envelope is the RFC 3394 wrapping (or the clear key without a KEK label)
     C17.unwrap    unwrapping succeeds exactly when the RFC 3394 integrity check passes, and yields the key *)
EXTENDS Integers, Sequences, SequencesExt, FiniteSets, TLC, Json, IOUtils, Bytes, Text, BigNat, Misc, BackendJSON, KeyWrap

Tr == ndJsonDeserialize(IOEnv.VERIF_TRACE)
VARIABLES l, nfail
Tag(cond, t) == IF cond THEN <<>> ELSE <<t>>

NumFails(e) ==
  LET k == IF e.type = "Frequency" THEN 6 ELSE 2 IN
  IF e.err # "" THEN <<"C17.roundtrip">>
  ELSE Tag(Cmp(DecimalScaled(e.text, k), e.value) = 0 /\ DecimalScaled(e.text, k) # Bad, "C17.text")
    \o Tag(e.back = e.value, "C17.roundtrip")

HexFails(e) ==
  Tag(/\ e.text = Hex(e.val)
      /\ e.un_err = "" /\ e.un = e.val /\ e.un0x_err = "" /\ e.un0x = e.val /\ e.unupper_err = "" /\ e.unupper = e.val
      /\ ("unodd_err" \in DOMAIN e => e.unodd_err = "error") /\ e.unbad_err = "error", "C17.hex")
  \o Tag(e.json_err = "" /\ e.json = e.val, "C17.roundtrip")

TimeFails(e) ==
  LET p == ParseTime(e.text) IN
  Tag(p.ok /\ p.d = e.utc.d /\ p.s = e.utc.s, "C17.time")      \* the text denotes the instant (which zone offset it is written in is free)
  \o Tag(e.err = "" /\ e.back.d = e.utc.d /\ e.back.s = e.utc.s /\ e.back.ns = 0, "C17.roundtrip")

UnwrapOK(e, name) ==
  LET r == Unwrap(e[name \o "_kek"], e[name \o "_ct"]) IN
  IF r.ok THEN e[name \o "_err"] = "" /\ e[name] = r.key ELSE e[name \o "_err"] = "error"
EnvelopeFails(e) ==
  IF e.err # "" THEN <<"C17.wrap">>
  ELSE IF ~e.label THEN Tag(~e.envlabel /\ e.aeskey = e.key, "C17.wrap")
  ELSE Tag(e.envlabel /\ e.aeskey = Wrap(e.kek, e.key), "C17.wrap")
    \o Tag(e.unwrap_err = "" /\ e.unwrap = e.key /\ UnwrapOK(e, "unwrap") /\ UnwrapOK(e, "tampered") /\ UnwrapOK(e, "wrongkek")
           /\ UnwrapOK(e, "strayed") /\ UnwrapOK(e, "cut"), "C17.unwrap")

StructFails(e) == Tag(e.err = "" /\ "back" \in DOMAIN e /\ e.back = e.doc /\ "docv" \in DOMAIN e /\ e.docv = e.doc, "C17.struct")
                  \* every timestamp of the payload that was sent is, to one second, the timestamp of the payload that arrived
                  \* (equal documents are not enough: a member left out on the way is left out of both)
                  \o (IF "times" \in DOMAIN e THEN Tag(e.backtimes = e.times, "C17.struct") ELSE <<>>)

\* a text / JSON value decoded into a variable that held another value before is the value of the text alone
ReuseFails(e) == IF e.err2 # "" \/ e.errfresh # "" THEN Tag(e.err2 = e.errfresh, "C17.roundtrip")
                 ELSE Tag(e.used = e.fresh, "C17.roundtrip")
Fails(e) == CASE e.ev = "num" -> NumFails(e)
              [] e.ev = "reuse" -> ReuseFails(e)
              [] e.ev = "hex" -> HexFails(e)
              [] e.ev = "time" -> TimeFails(e)
              [] e.ev = "envelope" -> EnvelopeFails(e)
              [] e.ev = "struct" -> StructFails(e)
              [] e.ev = "hang" -> <<e.prop \o ".hang">>    \* a call that never returned (recorded by the watchdog of the harness)
              [] OTHER -> <<"unknown-event">>
Init == l = 1 /\ nfail = 0
Next == /\ l <= Len(Tr)
        /\ LET f == Fails(Tr[l]) IN
             /\ (IF f = <<>> THEN TRUE ELSE PrintT(<<"VFAIL", l, f>>))
             /\ nfail' = nfail + (IF f = <<>> THEN 0 ELSE 1)
        /\ l' = l + 1
Done == (l = Len(Tr) + 1) => PrintT(<<"VDONE", l - 1, nfail>>)
====
