---- MODULE Trace_fec ----
(* Trace specification for the `fec` driver family (C19).
     C19.invalid     "invalid sizes (zero, negative, non-dividing) are reported as errors rather than panics"
     C19.systematic  "returns the data fragments unchanged and in order followed by the requested number of parity fragments"
     C19.parity      "each the XOR of exactly the data fragments selected by the specification's parity-matrix line"
     C19.linear      Encode(a xor b) = Encode(a) xor Encode(b)
     C19.decode      "an independent decoder recovers the original block from any subset of fragments whose
                      selection vectors have full rank" (specification's Gaussian elimination on the library's output)
     C19.intact      the input block is not modified *)
EXTENDS Integers, Sequences, SequencesExt, FiniteSets, TLC, Json, IOUtils, Bytes, FragFEC

Tr == ndJsonDeserialize(IOEnv.VERIF_TRACE)
VARIABLES l, nfail
Tag(cond, t) == IF cond THEN <<>> ELSE <<t>>

FecFails(e) ==
  LET n == Len(e.data) IN
  IF e.size <= 0 \/ n % e.size # 0 THEN Tag(e.err = "error", "C19.invalid")
  ELSE IF e.err # "" THEN <<"C19.systematic">>
  ELSE LET m == n \div e.size
           fr == Fragments(e.data, e.size)
       IN  Tag(e.intact, "C19.intact")
        \o Tag(Len(e.rows) = m + e.red /\ SubSeq(e.rows, 1, m) = fr, "C19.systematic")
        \o Tag(Len(e.rows) = m + e.red /\ \A y \in 1..e.red : e.rows[m + y] = XorRows(fr, MatrixLine(y, m), e.size), "C19.parity")
        \o (IF "keep" \in DOMAIN e /\ Len(e.rows) = m + e.red THEN
              LET rows == [k \in 1..Len(e.keep) |-> [sel |-> SelVec(e.keep[k], m), val |-> e.rows[e.keep[k]]]]
                  d == Eliminate(rows, m, XorSeq)
              IN  Tag(d.ok => d.data = fr, "C19.decode")
            ELSE <<>>)
LinFails(e) == Tag(Len(e.ra) = Len(e.rx) /\ Len(e.rb) = Len(e.rx) /\ \A i \in 1..Len(e.rx) : e.rx[i] = XorSeq(e.ra[i], e.rb[i]), "C19.linear")

Fails(e) == CASE e.ev = "fec" -> FecFails(e)
              [] e.ev = "feclin" -> LinFails(e)
              [] e.ev = "hang" -> <<e.prop \o ".hang">>    \* a call that never returned (recorded by the watchdog of the harness)
              [] OTHER -> <<"unknown-event">>
Init == l = 1 /\ nfail = 0
Next == /\ l <= Len(Tr)
        /\ LET f == Fails(Tr[l]) IN
             /\ (IF f = <<>> THEN TRUE ELSE PrintT(<<"VFAIL", l, f>>))
             /\ nfail' = nfail + (IF f = <<>> THEN 0 ELSE 1)
        /\ l' = l + 1
Done == (l = Len(Tr) + 1) => PrintT(<<"VDONE", l - 1, nfail>>)
====
