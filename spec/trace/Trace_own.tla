---- MODULE Trace_own ----
(* Trace specification for the `own` driver family (C10, ownership / hidden state).
   Stateful part: the model holds `bufs` (every tracked backing array over its FULL capacity) and
   `vals` (every tracked frame, which by specification OWNS its bytes).  Each event is one step; the
   model computes its own successor and the observed buffers and frames must equal it:
     setbuf      a new caller buffer (taken from the event)
     decode      vals[v] := Decode(bufs[b][lo..hi)); no buffer changes           (C10.state)
     overwrite   the caller rewrites cells of one buffer; NO frame may change     (C10.alias)
     encode      a new buffer = Encode(vals[v]); no frame changes                 (C10.state / C10.alias)
     encinplace  EncryptFRMPayload / EncryptFOpts on bufs[b][lo..hi): only those cells change, to the
                 specification's ciphertext; cells beyond hi (spare capacity) are untouched (C10.bounds)
     inspect     Validate* / Marshal*: nothing changes                           (C10.inspect)
   Independent events:
     reuse       decoding into a used value = decoding into a fresh one           (C10.reuse)
     subslice    a decoder given a sub-slice with spare capacity writes nowhere in the caller's backing array (C10.bounds)
     bandiso     mutating one band instance leaves another (and a fresh one) unchanged (C10.band) *)
EXTENDS Integers, Sequences, SequencesExt, FiniteSets, TLC, Json, IOUtils, Bytes, MACCommands, Frame, Crypto

Tr == ndJsonDeserialize(IOEnv.VERIF_TRACE)
VARIABLES l, nfail, bufs, vals
Tag(cond, t) == IF cond THEN <<>> ELSE <<t>>

SetVal(vs, i, x) == IF i + 1 <= Len(vs) THEN [vs EXCEPT ![i + 1] = x] ELSE Append(vs, x)
Cells(b, lo, hi) == SubSeq(b, lo + 1, hi)
\* model successor <<bufs', vals'>> for an own event
Succ(e) ==
  CASE e.op = "setbuf" -> <<Append(bufs, e.bufs[e.b + 1]), vals>>
    [] e.op = "decode" -> LET d == DecodeFrame(Cells(bufs[e.b + 1], e.lo, e.hi)) IN
                          IF IsErr(d) THEN <<bufs, SetVal(vals, e.v, e.vals[e.v + 1])>> ELSE <<bufs, SetVal(vals, e.v, d)>>
    [] e.op = "overwrite" -> <<[bufs EXCEPT ![e.b + 1] = [i \in 1..Len(@) |->
                                  IF \E k \in 1..Len(e.idx) : e.idx[k] = i - 1
                                    THEN e.xs[CHOOSE k \in 1..Len(e.idx) : e.idx[k] = i - 1 /\ \A j \in 1..Len(e.idx) : e.idx[j] = i - 1 => j <= k]
                                    ELSE @[i]]], vals>>
    [] e.op = "encode" -> IF e.err # "" THEN <<bufs, vals>>
                          ELSE LET enc == EncodeFrame(vals[e.v + 1]) IN
                               \* the new tracked buffer is the output over its full capacity: its first Len(enc) cells are the encoding
                               <<Append(bufs, enc \o SubSeq(e.bufs[Len(e.bufs)], Len(enc) + 1, Len(e.bufs[Len(e.bufs)]))), vals>>
    [] e.op = "encinplace" ->
         LET b == bufs[e.b + 1]
             data == Cells(b, e.lo, e.hi)
             ct == IF e.fopts THEN EncFOpts(e.key, 1, IF e.up THEN 0 ELSE 1, Rev(e.devaddr), e.fcnt, data)
                   ELSE EncFRM(e.key, IF e.up THEN 0 ELSE 1, Rev(e.devaddr), e.fcnt, data)
         IN  IF e.err # "" THEN <<bufs, vals>>
             ELSE <<[bufs EXCEPT ![e.b + 1] = SubSeq(b, 1, e.lo) \o ct \o SubSeq(b, e.hi + 1, Len(b))], vals>>
    [] e.op = "inspect" -> <<bufs, vals>>

\* the three RFU bits of the MHDR are not part of the abstract frame (receivers ignore them) but the library
\* keeps them for the MIC: buffers are compared with bits 4..2 of an ENCODED frame's first byte masked
MaskRFU(b) == IF b = <<>> THEN b ELSE [b EXCEPT ![1] = @ - ((@ \div 4) % 8) * 4]
OwnFails(e) ==
  LET s == Succ(e)
      okB == IF e.op = "encode" /\ e.err = "" /\ Len(e.bufs) = Len(s[1])
               THEN SubSeq(e.bufs, 1, Len(e.bufs) - 1) = SubSeq(s[1], 1, Len(s[1]) - 1) /\ MaskRFU(e.bufs[Len(e.bufs)]) = MaskRFU(s[1][Len(s[1])])
               ELSE e.bufs = s[1]
      okV == e.vals = s[2]
  IN  CASE e.op = "overwrite" -> Tag(okB, "C10.state") \o Tag(okV, "C10.alias")
        [] e.op = "encode" -> Tag(e.err = "" => (Len(e.bufs) = Len(bufs) + 1 /\ e.len = Len(EncodeFrame(vals[e.v + 1])) /\ okB), "C10.state") \o Tag(okV, "C10.alias")
        [] e.op = "encinplace" -> Tag(okB /\ okV, "C10.bounds")
                                  \o Tag(e.err = "" => e.out = Cells(s[1][e.b + 1], e.lo, e.hi), "C10.bounds")
        [] e.op = "inspect" -> Tag(okB /\ okV, "C10.inspect")
        [] e.op = "decode" -> Tag(okB, "C10.bounds") \o Tag(okV /\ (IsErr(DecodeFrame(Cells(bufs[e.b + 1], e.lo, e.hi))) <=> e.err # ""), "C10.state")
        [] OTHER -> Tag(okB /\ okV, "C10.state")

ReuseBase(e) == (IF e.err2 # "" \/ e.errfresh # "" THEN Tag(e.err2 = e.errfresh, "C10.reuse")
                  ELSE Tag(e.used = e.fresh, "C10.reuse"))
                 \* the value the caller kept from the first decode is not rewritten by the second decode into the same variable
                 \o (IF "kept1" \in DOMAIN e /\ e.err1 = "" THEN Tag(e.kept2 = e.kept1, "C10.reuse") ELSE <<>>)
ReuseFails(e) == ReuseBase(e)
                 \* an application-layer command decoded into a used value is still the command of its bytes in its direction (C18)
                 \o (IF "al" \in DOMAIN e /\ (IF e.err2 # "" \/ e.errfresh # "" THEN e.err2 # e.errfresh ELSE e.used # e.fresh) THEN <<"C18.reuse">> ELSE <<>>)
                 \* no decode of the history may panic, whatever the value held before (C09)
                 \o (IF e.err1 = "panic" \/ e.err2 = "panic" \/ e.errfresh = "panic" THEN <<"C09.total">> ELSE <<>>)
\* a decoder given bufs[lo..hi) must leave the WHOLE backing array (incl. the spare capacity behind hi) untouched
SubsliceFails(e) == Tag(e.post = e.pre, "C10.bounds")
BandFails(e) == Tag(e.after = e.before /\ e.fresh = e.before, "C10.band")
\* two objects mutated one after the other: the first keeps its state, the second ends like one that was mutated alone
Band2Fails(e) == Tag(e.aafter = e.abefore /\ e.b = e.solo, "C10.band")

\* values returned by two separate decode calls share nothing: decoding or overwriting the second leaves the first as it was
TwoFails(e) == IF e.err1 # "" \/ e.err2 # "" THEN <<"C10.alias">>
               ELSE Tag(e.first_after_second = e.first /\ e.first_after_overwrite = e.first, "C10.alias")
Fails(e) == CASE e.ev = "reset" -> <<>>
              [] e.ev = "own" -> OwnFails(e)
              [] e.ev = "reuse" -> ReuseFails(e)
              [] e.ev = "bandiso" -> BandFails(e)
              [] e.ev = "bandiso2" -> Band2Fails(e)
              [] e.ev = "twodecode" -> TwoFails(e)
              [] e.ev = "faileddecode" -> (IF e.err = "error" THEN Tag(e.after = e.before, "C10.state") ELSE <<>>)   \* a decode step that fails leaves the frame it looked at unchanged
              [] e.ev = "inspectbuilt" -> Tag(e.err = "" /\ e.post = e.pre, "C10.inspect")     \* marshal / validate operations leave a caller-built frame as it is
              [] e.ev = "marshalalias" -> Tag(e.err = "" /\ e.after = e.before, "C10.alias")      \* encoded output does not change the value when overwritten
              [] e.ev = "methodalias" -> Tag(\A k \in 1..Len(e.steps) : e.steps[k].err \in {"", "error"} /\ e.steps[k].intact, "C10.bounds")   \* methods of a frame never write into the caller's payload buffers
              [] e.ev = "subslice" -> SubsliceFails(e)
              [] e.ev = "hang" -> <<e.prop \o ".hang">>    \* a call that never returned (recorded by the watchdog of the harness)
              [] OTHER -> <<"unknown-event">>
Init == l = 1 /\ nfail = 0 /\ bufs = <<>> /\ vals = <<>>
\* after a mismatch the model adopts the OBSERVED state, so that the rest of the trace is examined
Next == /\ l <= Len(Tr)
        /\ LET e == Tr[l]  f == Fails(e) IN
             /\ (IF f = <<>> THEN TRUE ELSE PrintT(<<"VFAIL", l, f>>))
             /\ nfail' = nfail + (IF f = <<>> THEN 0 ELSE 1)
             /\ IF e.ev = "reset" THEN bufs' = <<>> /\ vals' = <<>>
                ELSE IF e.ev = "own" THEN bufs' = e.bufs /\ vals' = e.vals
                ELSE UNCHANGED <<bufs, vals>>
        /\ l' = l + 1
Done == (l = Len(Tr) + 1) => PrintT(<<"VDONE", l - 1, nfail>>)
====
