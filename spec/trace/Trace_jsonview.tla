---- MODULE Trace_jsonview ----
(* Trace specification for the `jsonview` driver family (extended coverage, prefix "X.", never part of a property verdict).
     X.json-view   the JSON document of a frame has exactly the leaves the specification's view of that frame has
                   (spec/lorawan/JsonView.tla), through the value, the pointer and MarshalJSON alike *)
EXTENDS Integers, Sequences, SequencesExt, FiniteSets, TLC, Json, IOUtils, JsonView

Tr == ndJsonDeserialize(IOEnv.VERIF_TRACE)
VARIABLES l, nfail
Tag(cond, t) == IF cond THEN <<>> ELSE <<t>>

ViewFails(e) == IF e.err # "" \/ ~Has(e, "leaves") THEN <<"X.json-view">>
                ELSE Tag(e.same /\ ViewOK(e.val, e.leaves), "X.json-view")

Fails(e) == CASE e.ev = "jsonview" -> ViewFails(e)
              [] e.ev = "hang" -> <<e.prop \o ".hang">>
              [] OTHER -> <<"unknown-event">>
Init == l = 1 /\ nfail = 0
Next == /\ l <= Len(Tr)
        /\ LET f == Fails(Tr[l]) IN
             /\ (IF f = <<>> THEN TRUE ELSE PrintT(<<"VFAIL", l, f>>))
             /\ nfail' = nfail + (IF f = <<>> THEN 0 ELSE 1)
        /\ l' = l + 1
Done == (l = Len(Tr) + 1) => PrintT(<<"VDONE", l - 1, nfail>>)
====
