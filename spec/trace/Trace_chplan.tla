---- MODULE Trace_chplan ----
(* Trace specification for the `chplan` driver family.
   Stateful part (C15): `reset` starts a fresh band instance (its initial plan is taken from the
   event; its values are the business of C13), every `op` event is one call of AddChannel /
   DisableUplinkChannelIndex / EnableUplinkChannelIndex with arbitrary arguments; the model takes
   its own transition and the full observed projection must equal the model state after every call.
     C15.index      out-of-range / negative indices are errors, never panics; AddChannel fails on fixed plans
     C15.state      the reported plan (every channel, the five index lists, enabled data-rates) = model
     C15.partition  enabled/disabled and standard/custom partition all channels (on the OBSERVED lists)
     C15.standard   standard channels are never altered except `enabled`
     C15.lookup     a lookup by frequency(+DR) returns an index whose channel matches
     C15.cflist     CFList = first five eligible custom channels in order / exact enabled masks
     C15.encodable  what the band hands out encodes in the MAC layer and decodes back
     C12.channel    RX1 channel index and RX1 frequency of every uplink channel denote the same existing downlink channel
     C13.closed     enabled uplink data-rates stay inside the defined data-rates after channel changes
   Independent part (C14): `plan` events carry the network plan, the device set and the payloads.
     C14.reach / C14.encodable / C14.count / C14.minimal / C14.apply *)
EXTENDS Integers, Sequences, SequencesExt, FiniteSets, TLC, Json, IOUtils, Bytes, MACCommands, Frame, ChannelPlan

Tr == ndJsonDeserialize(IOEnv.VERIF_TRACE)
VARIABLES l, nfail, chans, dl, info, std0

Tag(cond, t) == IF cond THEN <<>> ELSE <<t>>
SortedSeq(S) == SortSeq(SetToSeq(S), LAMBDA a, b : a < b)
IsPartition(a, b, all) == SetOf(a) \cup SetOf(b) = SetOf(all) /\ SetOf(a) \cap SetOf(b) = {} /\ Len(a) + Len(b) = Len(all)

\* model transition for an op event
OpChans(e) == CASE e.op = "add" -> IF info.extra THEN AddCh(chans, e.f, e.min, e.max) ELSE chans
                [] e.op = "disable" -> IF ValidIndex(chans, e.i) THEN SetEn(chans, e.i, FALSE) ELSE chans
                [] e.op = "enable" -> IF ValidIndex(chans, e.i) THEN SetEn(chans, e.i, TRUE) ELSE chans
OpDl(e) == IF e.op = "add" /\ info.extra THEN AddCh(dl, e.f, e.min, e.max) ELSE dl
OpCode(e) == CASE e.op = "add" -> IF info.extra THEN 0 ELSE -1
               [] OTHER -> IF ValidIndex(chans, e.i) THEN 0 ELSE -1

ProjMatches(p, cs, d) ==
  /\ p.ul = cs /\ p.dl = d
  /\ p.all = All(cs) /\ p.std = Std(cs) /\ p.custom = Custom(cs) /\ p.enabled = Enabled(cs) /\ p.disabled = Disabled(cs)
  /\ Len(p.get) = Len(cs) /\ \A k \in 1..Len(cs) : p.get[k].i = k - 1 /\ p.get[k].code = 0 /\ p.get[k].f = cs[k].f /\ p.get[k].min = cs[k].min /\ p.get[k].max = cs[k].max
  /\ p.endrs = SortedSeq(EnabledDRs(cs))
PartitionOK(p) == IsPartition(p.enabled, p.disabled, p.all) /\ IsPartition(p.std, p.custom, p.all) /\ p.all = [i \in 1..Len(p.ul) |-> i - 1]
StandardOK(p) == /\ Len(p.ul) >= Len(std0)
                 /\ \A k \in 1..Len(std0) : [p.ul[k] EXCEPT !.en = TRUE] = [std0[k] EXCEPT !.en = TRUE]
                 /\ \A k \in (Len(std0) + 1)..Len(p.ul) : p.ul[k].cu
LookupOK(p, lk) == \A k \in 1..Len(lk) :
  LET x == lk[k] IN
  x.code # -2 /\
  (x.code >= 0 =>
     /\ x.code < Len(p.ul) /\ p.ul[x.code + 1].f = x.f
     /\ ("def" \in DOMAIN x => p.ul[x.code + 1].cu # x.def)
     /\ ("dr" \in DOMAIN x => p.ul[x.code + 1].min <= x.dr /\ x.dr <= p.ul[x.code + 1].max))

\* C13: the enabled uplink data-rates handed out after channel changes are defined data-rates (asserted when every
\* channel's own range lies inside the band's defined data-rates; a user-supplied undefined range is DON'T-CARE)
ClosedOK(p) == LET def == SetOf(p.defdrs) IN
  (\A k \in 1..Len(p.ul) : p.ul[k].min..p.ul[k].max \subseteq def) => SetOf(p.endrs) \subseteq def

\* C12 along channel-plan histories: for every uplink channel (zero-frequency placeholders aside) the RX1 channel obtained
\* from its index and the RX1 frequency obtained from its frequency denote the same EXISTING downlink channel
Rx1OK(p) == \A k \in 1..Len(p.rx1) :
  LET r == p.rx1[k] IN
  (p.ul[r.i + 1].f = ZeroF) \/
  (/\ r.idx >= 0 /\ r.idx < Len(p.dl) /\ r.fcode = 0 /\ p.dl[r.idx + 1].f = r.f)

OpFails(e) ==
  LET cs == OpChans(e) IN
  IF "silent" \in DOMAIN e THEN Tag(e.code = OpCode(e), "C15.index") ELSE    \* a step followed by no query: result code only, the state is compared at the next queried step
  Tag(e.code = OpCode(e), "C15.index")
  \o Tag(ProjMatches(e.proj, cs, OpDl(e)), "C15.state")
  \o Tag(PartitionOK(e.proj), "C15.partition")
  \o (IF StandardOK(e.proj) THEN <<>> ELSE <<"C15.standard", "C13.defaults">>)    \* the default channels (equal to the Regional Parameters when the band was configured, C13) stay what they were
  \o Tag(LookupOK(e.proj, e.lookups), "C15.lookup")
  \o Tag(ClosedOK(e.proj), "C13.closed")
  \o Tag(Rx1OK(e.proj), "C12.channel")

OldVersions == {"1.0.0", "1.0.1", "1.0.2"}
FreqEncodable(f) == f.r = 0 /\ f.q < 16777216
CFListFails(e) ==
  IF e.err # "" THEN <<"C15.cflist">>
  ELSE IF info.extra THEN
    (    LET exp == CFListChannels(chans, info.cfmin, info.cfmax) IN     \* a zero frequency is a (disabled) slot like any other
          Tag(IF \A i \in 1..5 : exp[i] = ZeroF THEN e.val = <<>> ELSE e.val = <<[type |-> 0, chans |-> exp]>>, "C15.cflist")
          \o (IF e.val # <<>> /\ e.val[1].type = 0 /\ \A i \in 1..5 : FreqEncodable(e.val[1].chans[i])
                THEN Tag(e.merr = "" /\ e.uerr = "" /\ e.back = e.val /\ e.jerr = "" /\ e.jlen = 33 /\ e.bytes = CFListBytes(e.val[1]), "C15.encodable")
              ELSE IF e.val # <<>> /\ e.val[1].type = 0 /\ e.bname = "ISM2400" THEN Tag(e.merr = "" /\ e.uerr = "" /\ e.back = e.val, "C15.encodable")
              ELSE <<>>))
  ELSE LET exp == IF e.ver \in OldVersions THEN <<>> ELSE <<[type |-> 1, masks |-> CFListMasks(chans)]>> IN
       Tag(e.val = exp, "C15.cflist")
       \o (IF e.val # <<>> THEN Tag(e.merr = "" /\ e.uerr = "" /\ e.back = CanonCFList(e.val) /\ e.jerr = "" /\ e.jlen = 33
                                     /\ e.bytes = CFListBytes(e.val[1]), "C15.encodable") ELSE <<>>)

XLayerFails(e) ==
  LET lay == Layout(e.dir, e.cid) IN
  IF e.what = "added-channel-nc" /\ ~Representable(lay, e.val) THEN Tag(e.err = "error", "C15.encodable")   \* refused, never altered
  ELSE
  Tag(e.err = "" /\ e.berr = "" /\ "back" \in DOMAIN e /\ e.back = e.val /\ e.bytes = EncodeLayout(lay, e.val), "C15.encodable")

Max2(a, b) == IF a >= b THEN a ELSE b
SetMax(S) == CHOOSE x \in S : \A y \in S : y <= x
PlanFails(e) ==
  LET n == Len(e.chans)
      cs == [k \in 1..n |-> [en |-> e.chans[k].en, cu |-> e.chans[k].cu]]
      dev == SetOf(e.dev)
      tgt == Target(cs, dev)
      us == e.bname \in {"US915", "AU915"}
      res == Apply(us, n, 16, dev, e.payloads)
  IN  IF e.err # "" THEN <<"C14.reach", "C15.index">> ELSE     \* the planner / applier did not return (panic): also "indices ... never as panics"
      Tag(res = tgt, "C14.reach")
      \o Tag(\A k \in 1..Len(e.encs) : e.encs[k] = 0, "C14.encodable")
      \o Tag(Len(e.payloads) <= Blocks(Max2(n, 1 + SetMax(dev \cup {0})), 16) + 1, "C14.count")   \* blocks of the plan and of stale device channels
      \o Tag(dev = tgt => e.payloads = <<>>, "C14.minimal")
      \o Tag(IF res = Invalid THEN e.aerr # "" ELSE e.aerr = "" /\ SetOf(e.applied) = res /\ e.applied = SortedSeq(res), "C14.apply")

Fails(e) == CASE e.ev = "reset" -> Tag(PartitionOK(e.proj), "C15.partition")
              [] e.ev = "op" -> OpFails(e)
              [] e.ev = "cflist" -> CFListFails(e)
              [] e.ev = "xlayer" -> XLayerFails(e)
              [] e.ev = "plan" -> PlanFails(e)
              [] e.ev = "hang" -> <<e.prop \o ".hang">>    \* a call that never returned (recorded by the watchdog of the harness)
              [] OTHER -> <<"unknown-event">>

Init == l = 1 /\ nfail = 0 /\ chans = <<>> /\ dl = <<>> /\ info = [extra |-> FALSE, cfmin |-> 0, cfmax |-> 0] /\ std0 = <<>>
Next == /\ l <= Len(Tr)
        /\ LET e == Tr[l]  f == Fails(e) IN
             /\ (IF f = <<>> THEN TRUE ELSE PrintT(<<"VFAIL", l, f>>))
             /\ nfail' = nfail + (IF f = <<>> THEN 0 ELSE 1)
             /\ chans' = CASE e.ev = "reset" -> e.proj.ul [] e.ev = "op" -> OpChans(e) [] OTHER -> chans
             /\ dl' = CASE e.ev = "reset" -> e.proj.dl [] e.ev = "op" -> OpDl(e) [] OTHER -> dl
             /\ info' = IF e.ev = "reset" THEN [extra |-> e.proj.extra, cfmin |-> e.proj.cfmin, cfmax |-> e.proj.cfmax] ELSE info
             /\ std0' = IF e.ev = "reset" THEN e.proj.ul ELSE std0
        /\ l' = l + 1
Done == (l = Len(Tr) + 1) => PrintT(<<"VDONE", l - 1, nfail>>)
====
