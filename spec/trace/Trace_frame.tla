---- MODULE Trace_frame ----
(* Trace specification for the `frame` driver family (independent events).
   rt events (value -> bytes -> value):
     C01.accept   "for every spec-valid frame value, encoding to bytes (and to base64 text) succeeds";
                  "a value the encoder refuses is never one the specification allows"
     C01.text     base64 text is the RFC 4648 encoding of the bytes, and decodes to the same frame
     C01.back     "decoding those bytes yields a frame equal to the original (FCnt modulo 2^16;
                  FOpts/FRMPayload compared as the MAC commands or bytes they carry)"
     C06.frame    "the bytes produced for every frame header, join payload, CFList ... are bit-for-bit
                  those prescribed"
     C06.joinaccept  a decrypted join-accept (incl. both CFList kinds) decodes to the specification's field values
   bytes events (bytes -> value -> bytes):
     C08.reencode "every byte string that the frame decoder accepts (MHDR RFU bits zero) can be
                  re-encoded without error, and the re-encoding is byte-identical"
     C08.again    "decoding that output again yields an equal frame"
     C06.decode   an accepted string decodes to the specification's field values
     C09.total    value or error; never panic/hang/write to the input *)
EXTENDS Integers, Sequences, SequencesExt, FiniteSets, TLC, Json, IOUtils, Bytes, Text, MACCommands, Frame

Tr == ndJsonDeserialize(IOEnv.VERIF_TRACE)
VARIABLES l, nfail

OkErr(x) == x \in {"", "error"}

\* quantised command items (DeviceTimeAns loses sub-1/256 s resolution on the wire)
QuantItems(dir, items) == [i \in 1..Len(items) |->
   IF items[i].t = "cmd" /\ dir = "down" /\ items[i].cid = 13 /\ ~Has(items[i], "raw") /\ items[i].p # <<>>
     THEN [items[i] EXCEPT !.p = <<[Time |-> QuantDur(items[i].p[1].Time)]>>]
     ELSE items[i]]

RtFails(e) ==
  LET v == e.val
      valid == SpecValid(v)
      ok == e.merr = ""
      exp == EncodeFrame(v)
      img == WireImage(v)
      dir == DirOf(v.mtype)
  IN  (IF OkErr(e.merr) /\ (~ok \/ (OkErr(e.terr) /\ OkErr(e.uerr))) THEN <<>> ELSE <<"C09.total">>)
   \o (IF valid /\ ~ok THEN <<"C01.accept", "C06.frame">> ELSE <<>>)     \* no bytes at all for a frame the specification defines
   \o (IF valid /\ ok /\ e.bytes # exp THEN <<"C01.bytes", "C06.frame">> ELSE <<>>)
   \o (IF ok /\ (e.terr # "" \/ e.text # Base64(e.bytes)) THEN <<"C01.text">> ELSE <<>>)
   \o (IF valid /\ ok /\ (e.uerr # "" \/ ~Has(e, "un")) THEN <<"C01.back">>
       ELSE IF valid /\ ok /\ e.un # img THEN <<"C01.back">>
       ELSE IF valid /\ ok /\ (e.uterr # "" \/ ~Has(e, "untext")) THEN <<"C01.text">>
       ELSE IF valid /\ ok /\ e.untext # e.un THEN <<"C01.text">>
       ELSE <<>>)
   \o (IF valid /\ ok /\ Has(e, "derr") THEN
         (IF e.derr # "" \/ ~Has(e, "dec") THEN <<"C01.cmds">>
          ELSE IF (AllCmds(v.fopts) /\ v.fopts # <<>> /\ e.dec.fopts # QuantItems(dir, v.fopts))
               \/ (v.fport = <<0>> /\ AllCmds(v.frm) /\ v.frm # <<>> /\ e.dec.frm # QuantItems(dir, v.frm)) THEN <<"C01.cmds">>
          ELSE <<>>)
       ELSE <<>>)
   \o (IF valid /\ ok /\ v.kind = "joinacc" THEN
         (IF e.jerr # "" \/ ~Has(e, "jaback") THEN <<"C01.joinaccept", "C06.joinaccept">>
          ELSE IF e.jaback # [v EXCEPT !.cflist = CanonCFList(v.cflist)] THEN <<"C01.joinaccept", "C06.joinaccept">>
          ELSE <<>>)
       ELSE <<>>)

OpsOK(ops) == \A k \in DOMAIN ops : OkErr(ops[k])
BytesFails(e) ==
  LET acc == e.derr = ""
      sd == DecodeFrame(e.bytes)
  IN  (IF OkErr(e.derr) /\ e.intact /\ OkErr(e.terr) /\ (~acc \/ (OkErr(e.rerr) /\ OpsOK(e.ops))) THEN <<>> ELSE <<"C09.total">>)
   \o (IF acc /\ MHDRRFUZero(e.bytes) /\ (e.rerr # "" \/ ~Has(e, "re")) THEN <<"C08.reencode">>
       ELSE IF acc /\ MHDRRFUZero(e.bytes) /\ e.re # e.bytes THEN <<"C08.reencode">>
       ELSE <<>>)
   \* the same string decoded into a variable that held other frames before re-encodes to the string as well
   \o (IF acc /\ MHDRRFUZero(e.bytes) /\ Has(e, "serr") /\ e.rerr = "" /\ (e.serr # "" \/ e.sre # e.bytes) THEN <<"C08.reencode">> ELSE <<>>)
   \* the value kept of the PREVIOUS accepted string still re-encodes to that string (its reserved MHDR bits were zero or not: the bytes are compared)
   \o (IF Has(e, "kbytes") /\ (e.kerr # "" \/ e.kre # e.kbytes) THEN <<"C08.reencode", "C01.back", "C06.decode">> ELSE <<>>)
   \o (IF acc /\ e.rerr = "" /\ (e.aerr # "" \/ ~Has(e, "again")) THEN <<"C08.again">>
       ELSE IF acc /\ e.rerr = "" /\ e.again # e.val THEN <<"C08.again">>
       ELSE <<>>)
   \o (IF acc /\ ~IsErr(sd) /\ e.val # sd THEN <<"C06.decode">> ELSE <<>>)
   \o (IF ~IsErr(sd) /\ ~acc THEN <<"C06.decode">> ELSE <<>>)       \* a spec-decodable string is accepted
   \o (IF (e.terr = "") # acc THEN <<"C01.text">> ELSE IF acc /\ e.tval # e.val THEN <<"C01.text">> ELSE <<>>)

\* a decrypted join-accept payload as a device receives it: 12 or 28 bytes; reserved bits / bytes are ignored
\* (RxDelay bits 7..4, bytes 13..15 of a channel-mask CFList); the decoded value is one the encoder accepts again
JaPlFails(e) ==
  LET n == Len(e.bytes)
      sized == n \in {12, 28}
      acc == e.derr = ""
      sd == DecodeJoinAccept(e.bytes)
      exp == sd
      got == [k \in DOMAIN exp |-> e.val[k]]
  IN  (IF OkErr(e.derr) /\ e.intact /\ (~acc \/ OkErr(e.rerr)) THEN <<>> ELSE <<"C09.total">>)
   \o (IF sized # acc THEN <<"C06.joinaccept">>
       ELSE IF acc /\ got # exp THEN <<"C06.joinaccept">>
       ELSE <<>>)
   \o (IF acc /\ sized /\ (e.rerr # "" \/ ~Has(e, "again")) THEN <<"X.ja-reencode">>
       ELSE IF acc /\ sized /\ e.again # e.val THEN <<"X.ja-reencode">>
       ELSE <<>>)

Fails(e) == CASE e.ev = "rt" -> RtFails(e)
              [] e.ev = "japl" -> JaPlFails(e)
              [] e.ev = "bytes" -> BytesFails(e)
              [] e.ev = "hang" -> <<e.prop \o ".hang">>    \* a call that never returned (recorded by the watchdog of the harness)
              [] OTHER -> <<"unknown-event">>

Init == l = 1 /\ nfail = 0
Next == /\ l <= Len(Tr)
        /\ LET f == Fails(Tr[l]) IN
             /\ (IF f = <<>> THEN TRUE ELSE PrintT(<<"VFAIL", l, f>>))
             /\ nfail' = nfail + (IF f = <<>> THEN 0 ELSE 1)
        /\ l' = l + 1
Done == (l = Len(Tr) + 1) => PrintT(<<"VDONE", l - 1, nfail>>)
====
