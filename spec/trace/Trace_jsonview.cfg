INIT Init
NEXT Next
INVARIANT Done
CHECK_DEADLOCK FALSE
