---- MODULE Trace_registry ----
(* Stateful trace specification for the registry driver: the model state `reg` is carried across
   the recorded calls of one process (a `reset` event marks a fresh process).  Every event is
   examined; the model follows its own transition, and an observed result that differs from the
   model's is reported.
     C07.registry  "a proprietary CID registered with a size is framed with that size in that
                    direction only" (+ registration errors, standard entries untouched)
     C07.stream    "any sequence of commands ... decodes into exactly that sequence" *)
EXTENDS Integers, Sequences, SequencesExt, TLC, Json, IOUtils, Bytes, MACCommands

Tr == ndJsonDeserialize(IOEnv.VERIF_TRACE)
VARIABLES l, nfail, reg

Has(e, k) == k \in DOMAIN e
RegOK(cid) == cid >= 128 /\ cid <= 255
\* a registration with size 0 makes the CID a command without payload again (it replaces an earlier registration);
\* a negative size is refused and changes nothing
Apply(r, dir, cid, size) == IF RegOK(cid) /\ size >= 0
                              THEN [k \in (DOMAIN r) \cup {<<dir, cid>>} |-> IF k = <<dir, cid>> THEN size ELSE r[k]]
                              ELSE r

\* a decoded item (typed standard payload, proprietary bytes, or no payload) carries exactly `raw`
ItemMatches(dir, it, raw) ==
  IF Has(it, "raw") THEN it.raw = raw
  ELSE IF it.p = <<>> THEN raw = <<>>
  ELSE HasPayload(dir, it.cid) /\ Len(raw) = Size(dir, it.cid)
  \* (framing only: the field values of typed payloads are the business of C06/Trace_maccmd, and
  \*  mis-framed leftovers re-parse as arbitrary bytes whose RFU bits must not matter here)

RegisterFails(e) == IF e.err = (IF RegOK(e.cid) /\ e.size >= 0 THEN "" ELSE "error") THEN <<>> ELSE <<"C07.registry">>
LookupFails(e) ==
  LET exp == RegSize(reg, e.dir, e.cid) IN
  IF exp > 0 THEN (IF e.err = "" /\ e.size = exp THEN <<>> ELSE <<"C07.registry">>)
  ELSE (IF e.err = "error" THEN <<>> ELSE <<"C07.registry">>)
StreamFails(e) ==
  LET bytes == Concat([i \in 1..Len(e.cmds) |-> <<e.cmds[i].cid>> \o e.cmds[i].raw])
      d == DecodeStreamRaw(reg, e.dir, bytes)
      selfdelim == d.ok /\ d.cmds = e.cmds        \* the recorded sequence uses the registered sizes
  IN  IF e.err # "" THEN <<"C07.stream">>
      ELSE IF e.bytes # bytes THEN <<"C07.stream">>
      ELSE IF d.ok THEN (IF e.derr = "" /\ Has(e, "back") /\ Len(e.back) = Len(d.cmds)
                            /\ \A i \in 1..Len(d.cmds) : e.back[i].cid = d.cmds[i].cid /\ ItemMatches(e.dir, e.back[i], d.cmds[i].raw)
                         THEN <<>> ELSE <<"C07.stream", "C06.decode">>)     \* also C06: decoding yields the spec field values for every CID x direction in the registry
      ELSE (IF e.derr = "error" THEN <<>> ELSE <<"C07.stream", "C06.decode">>)

Fails(e) == CASE e.ev = "reset" -> <<>>
              [] e.ev = "register" -> RegisterFails(e)
              [] e.ev = "lookup" -> LookupFails(e)
              [] e.ev = "pstream" -> StreamFails(e)
              [] e.ev = "hang" -> <<e.prop \o ".hang">>    \* a call that never returned (recorded by the watchdog of the harness)
              [] OTHER -> <<"unknown-event">>

Init == l = 1 /\ nfail = 0 /\ reg = <<>>
Next == /\ l <= Len(Tr)
        /\ LET e == Tr[l]  f == Fails(e) IN
             /\ (IF f = <<>> THEN TRUE ELSE PrintT(<<"VFAIL", l, f>>))
             /\ nfail' = nfail + (IF f = <<>> THEN 0 ELSE 1)
             /\ reg' = CASE e.ev = "reset" -> <<>>
                         [] e.ev = "register" -> Apply(reg, e.dir, e.cid, e.size)
                         [] OTHER -> reg
        /\ l' = l + 1
Done == (l = Len(Tr) + 1) => PrintT(<<"VDONE", l - 1, nfail>>)
====
