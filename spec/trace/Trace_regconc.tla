---- MODULE Trace_regconc ----
(* Stateful trace specification for the `regconc` driver family (C10): the hook events of one
   process run (gated replay of a RegistryConc schedule, or a free-running recording ordered by the
   global sequence number) are replayed against the lock / registry model.
     C10.lock          a map read happens with the lock observed held, a map write with the write lock
                       observed held; a read lock is never granted while a writer is inside, a write lock
                       never while anybody is inside (observed order of the hook points)
     C10.linearizable  every lookup returns the size installed by the latest registration that
                       precedes its critical section; a replayed schedule yields the model's results *)
EXTENDS Integers, Sequences, SequencesExt, FiniteSets, TLC, Json, IOUtils, Bytes, MACCommands

Tr == ndJsonDeserialize(IOEnv.VERIF_TRACE)
VARIABLES l, nfail, reg, readers, writer, seen, results, exp
Tag(cond, t) == IF cond THEN <<>> ELSE <<t>>
RegOf(cid) == IF cid \in DOMAIN reg THEN reg[cid] ELSE Size("up", cid)      \* standard entries come from the specification's table
Upd(f, k, v) == [x \in (DOMAIN f) \cup {k} |-> IF x = k THEN v ELSE f[x]]
SeenOf(g) == IF g \in DOMAIN seen THEN seen[g] ELSE -1

HookFails(e) ==
  CASE e.point = "rlock" -> Tag(writer = "none", "C10.lock")
    [] e.point = "read" -> Tag(e.held /\ e.g \in readers, "C10.lock") \o Tag(e.size = RegOf(e.cid), "C10.linearizable")
    [] e.point = "runlock" -> Tag(e.g \in readers, "C10.lock")
    [] e.point = "wlock" -> Tag(writer = "none" /\ readers = {}, "C10.lock")
    [] e.point = "write" -> Tag(e.held /\ writer = e.g, "C10.lock")
    [] e.point = "wunlock" -> Tag(writer = e.g, "C10.lock")
    [] e.point = "ret" -> IF SeenOf(e.g) >= 0 THEN Tag((e.size = SeenOf(e.g)) /\ (IF e.size = 0 THEN e.err = "error" ELSE e.err = ""), "C10.linearizable") ELSE Tag(e.err = "", "C10.linearizable")
    [] OTHER -> <<"unknown-hook">>
EndFails == IF "free" \in DOMAIN exp THEN <<>>
            ELSE Tag(\A g \in DOMAIN exp : (IF g \in DOMAIN results THEN results[g] ELSE <<>>) = exp[g], "C10.linearizable")

Fails(e) == CASE e.ev = "reset" -> <<>>
              [] e.ev = "hook" -> HookFails(e)
              [] e.ev = "end" -> EndFails
              [] e.ev = "desync" -> <<"C10.lock">>       \* a registry access did not pass lock-acquire / access / release hook points in order
              [] e.ev = "crash" -> <<"C10.lock">>        \* the Go runtime aborted the process: unsynchronised map access / lock misuse
              [] e.ev = "hang" -> <<e.prop \o ".hang">>    \* a call that never returned (recorded by the watchdog of the harness)
              [] OTHER -> <<"unknown-event">>
Init == l = 1 /\ nfail = 0 /\ reg = <<>> /\ readers = {} /\ writer = "none" /\ seen = <<>> /\ results = <<>> /\ exp = <<>>
Next == /\ l <= Len(Tr)
        /\ LET e == Tr[l]  f == Fails(e) IN
             /\ (IF f = <<>> THEN TRUE ELSE PrintT(<<"VFAIL", l, f>>))
             /\ nfail' = nfail + (IF f = <<>> THEN 0 ELSE 1)
             /\ IF e.ev = "reset" THEN reg' = <<>> /\ readers' = {} /\ writer' = "none" /\ seen' = <<>> /\ results' = <<>> /\ exp' = e.exp
                ELSE IF e.ev = "hook" THEN
                  /\ exp' = exp
                  /\ reg' = IF e.point = "write" THEN Upd(reg, e.cid, e.size) ELSE reg
                  /\ readers' = IF e.point = "rlock" THEN readers \cup {e.g} ELSE IF e.point = "runlock" THEN readers \ {e.g} ELSE readers
                  /\ writer' = IF e.point = "wlock" THEN e.g ELSE IF e.point = "wunlock" THEN "none" ELSE writer
                  /\ seen' = IF e.point = "read" THEN Upd(seen, e.g, e.size) ELSE IF e.point = "ret" THEN Upd(seen, e.g, -1) ELSE seen
                  /\ results' = IF e.point = "ret" /\ SeenOf(e.g) >= 0 THEN Upd(results, e.g, Append(IF e.g \in DOMAIN results THEN results[e.g] ELSE <<>>, e.size)) ELSE results
                ELSE UNCHANGED <<reg, readers, writer, seen, results, exp>>
        /\ l' = l + 1
Done == (l = Len(Tr) + 1) => PrintT(<<"VDONE", l - 1, nfail>>)
====
