---- MODULE Trace_client ----
(* Trace specification for the `client` driver family - EXTENDED COVERAGE (clause prefix "X.": not
   part of any listed property, never part of a property verdict).  One event per API call of the
   synchronous backend client against a scripted peer.
     X.client-total      no call panics
     X.client-stamp      request methods overwrite ProtocolVersion / SenderID / ReceiverID / MessageType, keep a
                         non-zero TransactionID; SendAnswer posts the answer unchanged
     X.client-transport  HTTP POST, JSON content type, the configured Authorization header
     X.client-payload    everything but the base payload reaches the peer as the caller gave it
     X.client-ids        GetSenderID / GetReceiverID / IsAsync report the configuration
     X.client-result     error <=> reply undecodable or ResultCode # Success; the returned answer is the peer's *)
EXTENDS Integers, Sequences, SequencesExt, FiniteSets, TLC, Json, IOUtils, BackendClient

Tr == ndJsonDeserialize(IOEnv.VERIF_TRACE)
VARIABLES l, nfail
Tag(cond, t) == IF cond THEN <<>> ELSE <<t>>
AppJson == <<97, 112, 112, 108, 105, 99, 97, 116, 105, 111, 110, 47, 106, 115, 111, 110>>

ReqFails(e) ==
  Tag(Stamped(e.cfg, e.method, e.giventx, e.givenzero, e.seen), "X.client-stamp")
  \o Tag(Transport(e.cfg, e.seen) /\ e.seen.ct = AppJson, "X.client-transport")
  \o Tag(e.seen.rest = e.givenrest, "X.client-payload")
  \o Tag(e.seen.rest = e.givenrest /\ e.seenopt = e.givenopt, "C17.struct")   \* a request payload survives the client's JSON path: method fields, tokens, VSExtension
  \o Tag(/\ (MustFail(e.script) => e.ret.err = "error")
         /\ (MustSucceed(e.script) => e.ret.err = "")
         /\ (Decodable(e.script) => /\ e.ret.code = e.script.code /\ e.ret.txid = e.seen.txid /\ e.ret.msgtype = AnsType(e.method)
                                    /\ e.ret.sender = e.seen.receiver /\ e.ret.receiver = e.seen.sender), "X.client-result")

AnsFails(e) ==
  Tag(e.seen.pv = ProtocolVersion /\ e.seen.sender = e.cfg.sender /\ e.seen.receiver = e.cfg.receiver /\ e.seen.txid = e.giventx
      /\ e.seen.msgtype = "XmitDataAns", "X.client-stamp")
  \o Tag(Transport(e.cfg, e.seen) /\ e.seen.ct = AppJson, "X.client-transport")
  \o Tag(e.seen.rest = e.givenrest, "X.client-payload")
  \o Tag(e.ret.err = (IF e.script.mode = "status500" THEN "error" ELSE ""), "X.client-result")

Fails(e) ==
  IF e.ev = "hang" THEN <<"X.hang">>
  ELSE IF e.ev # "client" THEN <<"unknown-event">>
  ELSE IF e.panic # "" THEN <<"X.client-total">>
  ELSE IF ~e.seen.ok THEN <<"X.client-total", "C17.struct">>     \* what reached the peer is not (one) JSON document
  ELSE Tag(e.ids.sender = e.cfg.sender /\ e.ids.receiver = e.cfg.receiver /\ ~e.ids.async, "X.client-ids")    \* the client reports its configuration
       \o (IF e.method \in RequestMethods THEN ReqFails(e) ELSE AnsFails(e))

Init == l = 1 /\ nfail = 0
Next == /\ l <= Len(Tr)
        /\ LET f == Fails(Tr[l]) IN
             /\ (IF f = <<>> THEN TRUE ELSE PrintT(<<"VFAIL", l, f>>))
             /\ nfail' = nfail + (IF f = <<>> THEN 0 ELSE 1)
        /\ l' = l + 1
Done == (l = Len(Tr) + 1) => PrintT(<<"VDONE", l - 1, nfail>>)
====
