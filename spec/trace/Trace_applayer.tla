---- MODULE Trace_applayer ----
(* Trace specification for the `applayer` driver family (C18).
     C18.accept    every command whose fields lie within their specified bit widths encodes
     C18.nopanic   "encoding a well-formed command value never panics"
     C18.size      "... bytes of exactly the length the command reports as its size"
     C18.bytes     the bytes are those of the TS003/TS004/TS005/TS006 layouts
     C18.roundtrip "decodes back to the same command" / "any sequence ... decodes to that same sequence"
     C18.mckey     multicast root / KE / application / network session keys (TS005 AES derivations) *)
EXTENDS Integers, Sequences, SequencesExt, FiniteSets, TLC, Json, IOUtils, Bytes, MACCommands, AppLayer, AES

Tr == ndJsonDeserialize(IOEnv.VERIF_TRACE)
VARIABLES l, nfail
Tag(cond, t) == IF cond THEN <<>> ELSE <<t>>

Has(e, k) == k \in DOMAIN e
SumSeq(s) == FoldLeft(LAMBDA a, i : a + s[i], 0, [i \in 1..Len(s) |-> i])
StreamFails(e) ==
  LET wf == \A i \in 1..Len(e.cmds) : WellFormed(e.pkg, e.dir, e.cmds[i]) /\ Constructible(e.pkg, e.dir, e.cmds[i]) IN
  Tag(e.err # "panic", "C18.nopanic")
  \o (IF ~wf THEN <<>>
      ELSE IF e.err # "" THEN <<"C18.accept">>
      ELSE LET exp == AStreamBytes(e.pkg, e.dir, e.cmds) IN
           Tag(e.bytes = exp, "C18.bytes")
           \o Tag(Len(e.sizes) = Len(e.cmds) /\ \A i \in 1..Len(e.cmds) : e.sizes[i] = Len(ACmdBytes(e.pkg, e.dir, e.cmds[i])) /\ Len(e.bytes) = SumSeq(e.sizes), "C18.size")
           \o Tag(e.derr = "" /\ e.intact /\ e.back = e.cmds, "C18.roundtrip")
           \o Tag(Has(e, "kept") => (e.kerr = "" /\ e.kept = e.cmds), "C18.roundtrip")    \* still so for a result the caller kept while the variable was decoded into again
           \o Tag(LET d == ADecodeStream(e.pkg, e.dir, exp) IN d.ok /\ d.cmds = e.cmds, "C18.specroundtrip"))

\* decode direction: the specification's bytes of a well-formed sequence decode to that sequence
DecFails(e) ==
  LET wf == \A i \in 1..Len(e.cmds) : WellFormed(e.pkg, e.dir, e.cmds[i]) IN
  IF ~wf \/ e.bytes # AStreamBytes(e.pkg, e.dir, e.cmds) THEN <<>>
  ELSE Tag(e.derr # "panic", "C18.nopanic") \o Tag(e.derr = "" /\ e.intact /\ e.back = e.cmds, "C18.roundtrip")
       \o Tag(Has(e, "kept") => (e.kerr = "" /\ e.kept = e.cmds), "C18.roundtrip")

McKeyFails(e) ==
  LET exp == CASE e.kind = "rootGenAppKey" -> AESEnc(e["in"], McBlock(0, <<>>))
               [] e.kind = "rootAppKey" -> AESEnc(e["in"], McBlock(32, <<>>))
               [] e.kind = "kek" -> AESEnc(e["in"], McBlock(0, <<>>))
               [] e.kind = "appskey" -> AESEnc(e["in"], McBlock(1, Rev(e.addr)))
               [] e.kind = "netskey" -> AESEnc(e["in"], McBlock(2, Rev(e.addr)))
  IN  Tag(e.err = "" /\ e.out = exp, "C18.mckey")

Fails(e) == CASE e.ev = "alstream" -> StreamFails(e)
              [] e.ev = "aldec" -> DecFails(e)
              [] e.ev = "mckey" -> McKeyFails(e)
              [] e.ev = "hang" -> <<e.prop \o ".hang">>    \* a call that never returned (recorded by the watchdog of the harness)
              [] OTHER -> <<"unknown-event">>
Init == l = 1 /\ nfail = 0
Next == /\ l <= Len(Tr)
        /\ LET f == Fails(Tr[l]) IN
             /\ (IF f = <<>> THEN TRUE ELSE PrintT(<<"VFAIL", l, f>>))
             /\ nfail' = nfail + (IF f = <<>> THEN 0 ELSE 1)
        /\ l' = l + 1
Done == (l = Len(Tr) + 1) => PrintT(<<"VDONE", l - 1, nfail>>)
====
