---- MODULE Trace_band ----
(* Trace specification for the `band` driver family: one `bandcfg` event per configuration (name x
   repeater x dwell-time) holding the read-only snapshot of the band's tables and the results of the
   public accessors over their whole (small) argument ranges; `pingslot` events.
   C12.*  RX1 channel / frequency / data-rate rules, ping-slot rule, errors instead of panics
   C13.*  closedness, lookup inverse, latest fallback, size relations, Regional Parameters values
   C15.index  channel accessors report out-of-range and negative indices as errors *)
EXTENDS Integers, Sequences, SequencesExt, FiniteSets, TLC, Json, IOUtils, RegionalParameters

Tr == ndJsonDeserialize(IOEnv.VERIF_TRACE)
VARIABLES l, nfail

RangeS(s) == {s[i] : i \in 1..Len(s)}
Tag(cond, t) == IF cond THEN <<>> ELSE <<t>>

Canonical(name) == CASE name = "AS_923" -> "AS923" [] name = "AU_915_928" -> "AU915" [] name = "CN_470_510" -> "CN470" [] name = "CN_779_787" -> "CN779"
                     [] name = "EU_433" -> "EU433" [] name = "EU_863_870" -> "EU868" [] name = "IN_865_867" -> "IN865" [] name = "KR_920_923" -> "KR920"
                     [] name = "US_902_928" -> "US915" [] name = "RU_864_870" -> "RU864" [] OTHER -> name

Defined(e) == {e.snap.drs[k].i : k \in 1..Len(e.snap.drs)}
DownSet(e) == {e.snap.drs[k].i : k \in {j \in 1..Len(e.snap.drs) : e.snap.drs[j].down}}
UpSet(e) == {e.snap.drs[k].i : k \in {j \in 1..Len(e.snap.drs) : e.snap.drs[j].up}}
DRrec(e, i) == LET k == CHOOSE j \in 1..Len(e.snap.drs) : e.snap.drs[j].i = i IN e.snap.drs[k]
RX1Code(e, dr, off) == LET k == CHOOSE j \in 1..Len(e.rx1dr) : e.rx1dr[j][1] = dr /\ e.rx1dr[j][2] = off IN e.rx1dr[k][3]

\* ---- C12 ------------------------------------------------------------------------------------------
RX1ChanOK(e) ==
  LET r == e.bname  rule == RX1ChanRule(r)  ndl == Len(e.snap.dl) IN
  /\ Len(e.rx1ch) = Len(e.snap.ul) /\ Len(e.rx1fq) = Len(e.snap.ul)
  /\ \A k \in 1..Len(e.rx1ch) :
       LET i == e.rx1ch[k][1]  code == e.rx1ch[k][2] IN
       /\ code = (IF rule = 0 THEN i ELSE i % rule)
       /\ code >= 0 /\ code < ndl
       /\ e.rx1fq[k].code = 0 /\ e.rx1fq[k].res = e.snap.dl[code + 1].f
  /\ (FixedPlan(r) => \A k \in 1..ndl : e.snap.dl[k].f = [q |-> DownlinkQ(r, k - 1), r |-> 0])
RX1NoPanic(e) == \A k \in 1..Len(e.rx1dr) : e.rx1dr[k][3] # -2
\* codes: >= 0 a result, -1 an error, -2 a panic, < -100 a NEGATIVE result that was handed out without error (-100 + result)
RX1Closed(e) == \A k \in 1..Len(e.rx1dr) : (e.rx1dr[k][3] >= 0 \/ e.rx1dr[k][3] < -100) => e.rx1dr[k][3] \in DownSet(e)
RX1Invalid(e) == \A k \in 1..Len(e.rx1dr) :
   LET dr == e.rx1dr[k][1]  off == e.rx1dr[k][2]  code == e.rx1dr[k][3] IN
   (dr < 0 \/ off < 0 \/ dr \notin Defined(e) \/ (dr \in UpSet(e) /\ off > MaxRX1Offset(e.bname))) => code = -1
RX1Value(e) == \A dr \in RX1Known(e.bname) : \A off \in 0..MaxRX1Offset(e.bname) :
   RX1Code(e, dr, off) = RX1DR(e.bname, e.dwell = 1, dr, off)
RX1Monotone(e) == \A dr \in UpSet(e) : \A off \in PositiveOffsets(e.bname) \ {0} :
   LET a == RX1Code(e, dr, off - 1)  b == RX1Code(e, dr, off) IN
   (a >= 0 /\ b >= 0) => (b <= a /\ RankIn(DownSet(e), a) - RankIn(DownSet(e), b) <= 1)
RX1Accepts(e) == \A dr \in UpSet(e) : \A off \in 0..MaxRX1Offset(e.bname) : RX1Code(e, dr, off) >= 0

\* ---- C13 ------------------------------------------------------------------------------------------
ChannelsClosedE(e) == /\ \A k \in 1..Len(e.snap.ul) : e.snap.ul[k].min \in Defined(e) /\ e.snap.ul[k].max \in Defined(e)
                      /\ \A k \in 1..Len(e.snap.dl) : e.snap.dl[k].min \in Defined(e) /\ e.snap.dl[k].max \in Defined(e)
                      /\ e.defaults.rx2dr \in DownSet(e)
                      /\ RangeS(e.endrs) \subseteq Defined(e)
                      /\ \A k \in 1..Len(e.snap.rx1rows) : RangeS(e.snap.rx1rows[k]) \subseteq Defined(e)
                      /\ RangeS(e.snap.rx1keys) \subseteq Defined(e)
LookupInverse(e) == \A k \in 1..Len(e.dridx) :
   LET x == e.dridx[k]  d == DRrec(e, x.i) IN (d.up => x.up = x.i) /\ (d.down => x.down = x.i)
GetDROK(e) == \A k \in 1..Len(e.getdr) : e.getdr[k][2] = (IF e.getdr[k][1] \in Defined(e) THEN 0 ELSE -1)
VerKeys(e) == {e.snap.sizes[k].ver : k \in 1..Len(e.snap.sizes)}
RevKeys(e, v) == {e.snap.sizes[k].rev : k \in {j \in 1..Len(e.snap.sizes) : e.snap.sizes[j].ver = v}}
SizeEntry(sizes, v, rv, dr) == {sizes[k] : k \in {j \in 1..Len(sizes) : sizes[j].ver = v /\ sizes[j].rev = rv /\ sizes[j].dr = dr}}
\* the size table is keyed by protocol version, then by Regional Parameters revision: a revision name used as a version key
\* (or the reverse) would make that name resolve to its own table instead of falling back to the latest one
ProtoVersions == {"1.0.0", "1.0.1", "1.0.2", "1.0.3", "1.0.4", "1.1.0", "latest"}
RPRevisions == {"A", "B", "C", "RP002-1.0.0", "RP002-1.0.1", "RP002-1.0.2", "RP002-1.0.3", "latest"}
LatestOK(e) ==
  /\ VerKeys(e) \subseteq ProtoVersions /\ \A v \in VerKeys(e) : RevKeys(e, v) \subseteq RPRevisions
  /\ "latest" \in VerKeys(e) /\ "latest" \in RevKeys(e, "latest")
  /\ \A dr \in Defined(e) : SizeEntry(e.snap.sizes, "latest", "latest", dr) # {}
  /\ \A k \in 1..Len(e.maxpl) :
       LET x == e.maxpl[k]
           v == IF x.ver \in VerKeys(e) THEN x.ver ELSE "latest"
           rv == IF x.rev \in RevKeys(e, v) THEN x.rev ELSE "latest"
           ent == SizeEntry(e.snap.sizes, v, rv, x.dr)
       IN  IF ent = {} THEN x.code = -1
           ELSE x.code = 0 /\ \E s \in ent : s.m = x.m /\ s.n = x.n
SizeRelations(e) ==
  /\ \A k \in 1..Len(e.snap.sizes) : LET s == e.snap.sizes[k] IN (s.m = 0 /\ s.n = 0) \/ (s.m = s.n + 8 /\ s.n <= 242 /\ s.n >= 0)
RepeaterLE(e) == (e.repeater /\ "sibsizes" \in DOMAIN e) =>
  \A k \in 1..Len(e.snap.sizes) : LET s == e.snap.sizes[k] IN
     \A t \in SizeEntry(e.sibsizes, s.ver, s.rev, s.dr) : (t.n = 0 /\ t.m = 0) \/ s.n <= t.n
SFMonotone(e) ==
  \A a \in 1..Len(e.snap.sizes), b \in 1..Len(e.snap.sizes) :
     LET s == e.snap.sizes[a]  t == e.snap.sizes[b] IN
     (s.ver = t.ver /\ s.rev = t.rev /\ s.dr \in Defined(e) /\ t.dr \in Defined(e) /\ (s.m # 0 \/ s.n # 0) /\ (t.m # 0 \/ t.n # 0)) =>
       LET ds == DRrec(e, s.dr)  dt == DRrec(e, t.dr) IN
       (ds.mod = "LORA" /\ dt.mod = "LORA" /\ ds.bw = dt.bw /\ ds.up = dt.up /\ ds.down = dt.down /\ ds.sf > dt.sf) => s.n <= t.n
       \* (compared within one direction: the Regional Parameters' own repeater tables list smaller downlink than uplink sizes)
DRValues(e) ==
  /\ \A d \in DataRates(e.bname) : d.i \in Defined(e) /\
        LET x == DRrec(e, d.i) IN x.mod = d.mod /\ x.sf = d.sf /\ x.bw = d.bw /\ x.br = d.br /\ x.up = d.up /\ x.down = d.down
  /\ UndefinedDRs(e.bname) \cap Defined(e) = {}
ChannelValues(e) ==
  LET exp == DefaultUplink(e.bname) IN
  /\ Len(e.snap.ul) = Len(exp)
  /\ \A k \in 1..Len(exp) : /\ e.snap.ul[k].f = [q |-> exp[k].q, r |-> 0] /\ e.snap.ul[k].min = exp[k].min /\ e.snap.ul[k].max \in exp[k].maxs
                             /\ e.snap.ul[k].en /\ ~e.snap.ul[k].cu
DefaultValues(e) ==
  /\ e.defaults.rx2f = [q |-> RX2(e.bname).q, r |-> 0] /\ e.defaults.rx2dr = RX2(e.bname).dr
  /\ e.defaults.rd1 = Delays.rd1 /\ e.defaults.rd2 = Delays.rd2 /\ e.defaults.jd1 = Delays.jd1 /\ e.defaults.jd2 = Delays.jd2
TXPowerValues(e) ==
  /\ \A k \in 1..Len(e.snap.txp) : e.snap.txp[k] = -2 * (k - 1)
  /\ (TXPowerSteps(e.bname) # Unknown => Len(e.snap.txp) = TXPowerSteps(e.bname))
  /\ \A k \in 1..Len(e.txpow) : LET i == e.txpow[k][1] IN
        (i >= 0 /\ i < Len(e.snap.txp)) => (e.txpow[k][2] = 0 /\ e.txpow[k][3] = e.snap.txp[i + 1])

\* ---- C15 (index handling of the channel accessors) -------------------------------------------------
IndexOK(lst, chans) == \A k \in 1..Len(lst) :
  LET x == lst[k] IN
  IF x.i >= 0 /\ x.i < Len(chans) THEN x.code = 0 /\ x.f = chans[x.i + 1].f /\ x.min = chans[x.i + 1].min /\ x.max = chans[x.i + 1].max
  ELSE x.code = -1

CfgFails(e) ==
  IF e.name = "XX999" THEN Tag(e.cfgerr = "error", "C13.values")
  ELSE IF e.cfgerr # "" THEN <<"C13.values">>
  ELSE Tag(e.bname = Canonical(e.name) /\ e.bname \in Regions, "C13.values")
    \o Tag(RX1ChanOK(e), "C12.rx1chan")
    \o Tag(RX1NoPanic(e), "C12.total")
    \o Tag(RX1Closed(e), "C12.closed")
    \o Tag(RX1Invalid(e), "C12.invalid")
    \o Tag(RX1Value(e), "C12.value")
    \o Tag(RX1Monotone(e), "C12.monotone")
    \o Tag(ChannelsClosedE(e) /\ RX1Closed(e), "C13.closed")
    \o Tag(LookupInverse(e) /\ GetDROK(e), "C13.lookup")
    \o Tag(LatestOK(e), "C13.latest")
    \o Tag(SizeRelations(e), "C13.sizes")
    \o Tag(RepeaterLE(e), "C13.repeater")
    \o Tag(SFMonotone(e), "C13.sfmonotone")
    \o Tag(DRValues(e), "C13.drvalues")
    \o Tag(ChannelValues(e), "C13.channels")
    \o Tag(DefaultValues(e), "C13.defaults")
    \o Tag(TXPowerValues(e), "C13.txpower")
    \o Tag(IndexOK(e.ulch, e.snap.ul) /\ IndexOK(e.dlch, e.snap.dl), "C15.index")

PingFails(e) ==
  LET r == e.bname IN
  IF e.code # 0 THEN <<"C12.pingslot">>
  ELSE IF PingFixed(r) # Unknown THEN Tag(e.f = [q |-> PingFixed(r), r |-> 0], "C12.pingslot")
  ELSE Tag(e.f = [q |-> PingHopQ(r, ((e.devaddr[4] % 8) + (e.t128 % 8)) % 8), r |-> 0], "C12.pingslot")

\* ---- extended coverage (prefix "X.", never part of a property verdict) -------------------------------------------------
\* default max EIRP of RP002 (1/100 dBm), TxParamSetupReq support (AS923 always; AU915 from RP 1.0.2 rev B on; nowhere else),
\* downlink TX power: never above the band's regulatory ceiling and EU868's 869.4-869.65 MHz sub-band at 27 dBm
MaxEIRPc(r) == CASE r = "EU868" -> 1600 [] r = "US915" -> 3000 [] r = "AU915" -> 3000 [] r = "KR920" -> 1400 [] r = "IN865" -> 3000
                 [] r = "RU864" -> 1600 [] r = "CN470" -> 1915 [] r = "CN779" -> 1215 [] r = "EU433" -> 1215 [] r = "ISM2400" -> 1000
                 [] OTHER -> 1600   \* AS923 and its sub-plans
TxParamExpected(r, v) == IF IsAS923(r) THEN TRUE ELSE IF r = "AU915" THEN v \notin {"1.0.1", "1.0.2"} ELSE FALSE
MiscFails(e) ==
  Tag(e.eirpc = MaxEIRPc(e.bname), "X.band-eirp")
  \o Tag(e.bname = "ISM2400" \/ \A v \in DOMAIN e.txparam : e.txparam[v] = TxParamExpected(e.bname, v), "X.band-txparam")   \* ISM2400: not vouched for (Unknown)
  \o Tag(\A k \in 1..Len(e.dltx) : e.dltx[k].p >= 0 /\ e.dltx[k].p <= 30
                                     /\ (e.bname = "EU868" /\ e.dltx[k].f = [q |-> 8695250, r |-> 0] => e.dltx[k].p = 27), "X.band-dltx")

Fails(e) == CASE e.ev = "bandcfg" -> CfgFails(e)
              [] e.ev = "bandmisc" -> MiscFails(e)
              [] e.ev = "pingslot" -> PingFails(e)
              [] e.ev = "hang" -> <<e.prop \o ".hang">>    \* a call that never returned (recorded by the watchdog of the harness)
              [] OTHER -> <<"unknown-event">>

Init == l = 1 /\ nfail = 0
Next == /\ l <= Len(Tr)
        /\ LET f == Fails(Tr[l]) IN
             /\ (IF f = <<>> THEN TRUE ELSE PrintT(<<"VFAIL", l, f>>))
             /\ nfail' = nfail + (IF f = <<>> THEN 0 ELSE 1)
        /\ l' = l + 1
Done == (l = Len(Tr) + 1) => PrintT(<<"VDONE", l - 1, nfail>>)
====
