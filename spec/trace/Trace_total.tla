---- MODULE Trace_total ----
(* Trace specification for the `total` driver family (C09): a decoding call has exactly two
   outcomes - a value or an error - and leaves its input untouched.
     C09.total  "returns normally with a value or an error ... without panicking, looping, or writing
                 to the input buffer" (a call that does not return within the deadline is "timeout") *)
EXTENDS Integers, Sequences, TLC, Json, IOUtils
Tr == ndJsonDeserialize(IOEnv.VERIF_TRACE)
VARIABLES l, nfail
Fails(e) == IF e.ev = "total" THEN (IF e.err \in {"", "error"} /\ e.intact THEN <<>> ELSE <<"C09.total">>) ELSE IF e.ev = "hang" THEN <<e.prop \o ".hang">> ELSE <<"unknown-event">>
Init == l = 1 /\ nfail = 0
Next == /\ l <= Len(Tr)
        /\ LET f == Fails(Tr[l]) IN
             /\ (IF f = <<>> THEN TRUE ELSE PrintT(<<"VFAIL", l, f>>))
             /\ nfail' = nfail + (IF f = <<>> THEN 0 ELSE 1)
        /\ l' = l + 1
Done == (l = Len(Tr) + 1) => PrintT(<<"VDONE", l - 1, nfail>>)
====
