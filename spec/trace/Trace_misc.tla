---- MODULE Trace_misc ----
(* Trace specification for the `misc` driver family (C20).
     C20.gpsoffset   "the offset applied equals the published GPS-UTC leap-second count for that date"
     C20.gpsround    "converting any UTC instant to time-since-GPS-epoch and back returns the same instant"
     C20.gpsmono     "the mapping is strictly increasing"
     C20.gpsback     "converting a GPS duration to UTC and back is the identity except inside an inserted leap second"
     C20.symbols / C20.airtime / C20.airmono   Semtech formula; never decreases with payload size
     C20.eirp / C20.eirpdec  largest table entry not exceeding the power; decodes to that entry *)
EXTENDS Integers, Sequences, SequencesExt, FiniteSets, TLC, Json, IOUtils, BigNat, Misc

Tr == ndJsonDeserialize(IOEnv.VERIF_TRACE)
VARIABLES l, nfail
Tag(cond, t) == IF cond THEN <<>> ELSE <<t>>
T3(x) == [d |-> x.d, s |-> x.s, ns |-> x.ns]

GpsFails(e) ==
  IF e.err # "" THEN <<"C20.gpsoffset">> ELSE
  Tag(~e.dur.neg /\ T3(e.dur) = ToGPS(e.utc), "C20.gpsoffset")
  \o Tag(e.back = e.utc, "C20.gpsround")
GpsBackFails(e) ==
  IF e.err # "" THEN <<"C20.gpsback">>
  ELSE IF InsideLeap(T3(e.dur)) THEN <<>>
  ELSE Tag(~e.again.neg /\ T3(e.again) = T3(e.dur) /\ e.utc = FromGPS(T3(e.dur)), "C20.gpsback")
GpsPairFails(e) == Tag(TLess(e.t1, e.t2) => (~e.d1.neg /\ ~e.d2.neg /\ TLess(T3(e.d1), T3(e.d2))), "C20.gpsmono")

AirFails(e) ==
  IF e.cr < 1 \/ e.cr > 4 THEN Tag(e.err = "error", "C20.symbols")
  ELSE IF e.err # "" THEN <<"C20.symbols">>
  ELSE
  LET symOK == \A pl \in 0..255 : e.nsym[pl + 1] = PayloadSymbols(pl, e.sf, e.cr, e.hdr, e.ldro)
      \* |lib - formula| <= (#symbols + preamble + 6) ns, compared as  lib*BW  vs  numerator  (no division)
      airOK == \A pl \in 0..255 :
                 LET n == e.nsym[pl + 1]
                     num == AirNumerator(e.pre, n, e.sf)
                     tol == FromNat(n + e.pre + 6)     \* < 1 ns lost per symbol incl. the 4.25 preamble symbols, + 1 for the preamble division
                     lo == MulSmall(e.air[pl + 1], e.bw)
                     hi == MulSmall(Add(e.air[pl + 1], tol), e.bw)
                 IN  LE(lo, num) /\ LE(num, hi)
      mono == \A pl \in 1..255 : LE(e.air[pl], e.air[pl + 1])
  IN  Tag(symOK, "C20.symbols") \o Tag(airOK, "C20.airtime") \o Tag(mono, "C20.airmono")

EirpFails(e) == Tag(e.err = "" /\ (e.fl >= 8 => e.idx = EIRPIndex(e.fl)), "C20.eirp")
EirpDecFails(e) == IF e.idx <= 15 THEN Tag(e.err = "" /\ e.integral /\ e.val = EIRPTable[e.idx + 1], "C20.eirpdec")
                   ELSE Tag(e.err = "error", "C20.eirpdec")

\* ---- extended coverage (prefix "X.", never part of a property verdict): receiver sensitivity and link budget -------------
\* S = -174 + 10 log10(BW) + NF + SNR (dBm), link budget = TX power - S; values in 1/1000 dB, float32 arithmetic: +-3
Near(a, b, tol) == a - b <= tol /\ b - a <= tol
IsPow10(n) == n \in {1, 10, 100, 1000, 10000, 100000, 1000000, 10000000}
Log10Of(n) == CHOOSE k \in 0..7 : 10^k = n
SensFails(e) ==
  Tag(Near(e.s - e.s0, 10 * (e.nfc + e.snrc), 3), "X.sens-additive")
  \o Tag(Near(e.s10 - e.s0, 10000, 3), "X.sens-decade")
  \o Tag(Near(e.s2 - e.s0, 3010, 3), "X.sens-octave")
  \o Tag(IsPow10(e.bw) => Near(e.s0, -174000 + 10000 * Log10Of(e.bw), 3), "X.sens-anchor")
  \o Tag(Near(e.lb, 10 * e.txc - e.s, 3), "X.sens-budget")

\* a method called on a zero value, or on a value whose optional / interface member is nil, returns (with a result or an
\* error): the library answers "MACPayload must not be nil" and the like everywhere else
ZeroValueFails(e) == Tag(e.res \in {"", "error"}, "X.zerovalue")

Fails(e) == CASE e.ev = "gps" -> GpsFails(e)
              [] e.ev = "zerovalue" -> ZeroValueFails(e)
              [] e.ev = "sens" -> SensFails(e)
              [] e.ev = "gpsback" -> GpsBackFails(e)
              [] e.ev = "gpspair" -> GpsPairFails(e)
              [] e.ev = "airtime" -> AirFails(e)
              [] e.ev = "eirp" -> EirpFails(e)
              [] e.ev = "eirpdec" -> EirpDecFails(e)
              [] e.ev = "hang" -> <<e.prop \o ".hang">>    \* a call that never returned (recorded by the watchdog of the harness)
              [] OTHER -> <<"unknown-event">>
Init == l = 1 /\ nfail = 0
Next == /\ l <= Len(Tr)
        /\ LET f == Fails(Tr[l]) IN
             /\ (IF f = <<>> THEN TRUE ELSE PrintT(<<"VFAIL", l, f>>))
             /\ nfail' = nfail + (IF f = <<>> THEN 0 ELSE 1)
        /\ l' = l + 1
Done == (l = Len(Tr) + 1) => PrintT(<<"VDONE", l - 1, nfail>>)
====
