---- MODULE CryptoClauses ----
(* Clause operators shared by the crypto and link trace specifications (concrete AES/CMAC). *)
EXTENDS Integers, Sequences, SequencesExt, FiniteSets, TLC, Bytes, MACCommands, Frame, Crypto

Msg(f) == <<MHDRByte(f.mtype, f.major)>> \o MACPayloadBytes(f)
DirByte(f) == IF DirOf(f.mtype) = "up" THEN 0 ELSE 1
ItemsOK(dir, items) == \A i \in 1..Len(items) : ItemRepresentable(dir, items[i])
FrameOK(f) == f.kind = "data" /\ ItemsOK(DirOf(f.mtype), f.fopts) /\ ItemsOK(DirOf(f.mtype), f.frm)

\* msg = the authenticated bytes MHDR | MACPayload
ExpMicM(e, which, msg) ==
  LET f == e.frame  da == Rev(f.devaddr) IN
  CASE which = "up" -> MicUp(e.ver, f.fctrl.ack, e.conf, e.txdr, e.txch, e.fkey, e.skey, da, f.fcnt, msg)
    [] which = "down" -> MicDown(e.ver, f.fctrl.ack, e.conf, e.skey, da, f.fcnt, msg)
\* events recorded from a RECEIVED byte string carry it as `raw`: the authenticated bytes are the received ones
\* (MHDR with its reserved bits as they arrived), not a re-encoding of the decoded value
MsgOf(e) == IF "raw" \in DOMAIN e THEN SubSeq(e.raw, 1, Len(e.raw) - 4) ELSE Msg(e.frame)
ExpMic(e, which) == ExpMicM(e, which, MsgOf(e))

SetMicFails(e) ==
  IF ~FrameOK(e.frame) THEN <<>>
  ELSE IF e.err # "" THEN <<"C02.mic">>
  ELSE IF e.frame.mic # ExpMic(e, e.dir) THEN <<"C02.mic">> ELSE <<>>

ValidateFails(e) ==
  IF ~FrameOK(e.frame) THEN <<>>
  ELSE IF e.err # "" THEN <<"C02.validate">>
  ELSE LET f == e.frame
           exp == IF e.which = "upF" THEN SubSeq(f.mic, 3, 4) = MicUpF(e.fkey, Rev(f.devaddr), f.fcnt, MsgOf(e))
                  ELSE f.mic = ExpMic(e, e.which)
       IN  IF e.ok = exp THEN <<>> ELSE <<"C02.validate">>

EncFrmFails(e) ==
  LET exp == EncFRM(e.key, IF e.up THEN 0 ELSE 1, Rev(e.devaddr), e.fcnt, e["in"]) IN
  IF e.err # "" THEN <<"C03.frm">>
  ELSE (IF e.out # exp \/ Len(e.out) # Len(e["in"]) THEN <<"C03.frm">> ELSE <<>>)
    \o (IF e.err2 # "" \/ e.out2 # e["in"] THEN <<"C03.involution">> ELSE <<>>)

EncFOptsFails(e) ==
  IF Len(e["in"]) > 15 THEN (IF e.err = "error" THEN <<>> ELSE <<"C03.fopts">>)
  ELSE IF e.err # "" THEN <<"C03.fopts">>
  ELSE IF e.out # EncFOpts(e.key, IF e.afcntdown THEN 2 ELSE 1, IF e.up THEN 0 ELSE 1, Rev(e.devaddr), e.fcnt, e["in"]) THEN <<"C03.fopts">>
  ELSE <<>>

OkE(x) == x \in {"", "error"}
RawOr(bb) == IF bb = <<>> THEN <<>> ELSE <<[t |-> "raw", b |-> bb]>>
MethodFails(e) ==
  LET pre == e.pre  post == e.post  dir == DirOf(pre.mtype)  db == DirByte(pre)  da == Rev(pre.devaddr)
      ok == e.err = ""
      frmOK == ItemsOK(dir, pre.frm) /\ (AnyCmd(pre.frm) => pre.fport = <<0>>)
      foOK == ItemsOK(dir, pre.fopts)
      frmB == ItemsBytes(dir, pre.frm)
      foB == ItemsBytes(dir, pre.fopts)
      restSame(a, b, fld) == IF fld = "frm" THEN [a EXCEPT !.frm = <<>>] = [b EXCEPT !.frm = <<>>]
                             ELSE [a EXCEPT !.fopts = <<>>] = [b EXCEPT !.fopts = <<>>]
  IN
  IF ~OkE(e.err) THEN <<"C09.total">> ELSE
  CASE e.name = "EncryptFRMPayload" ->
         IF pre.frm = <<>> THEN (IF ok /\ post = pre THEN <<>> ELSE <<"C03.method">>)
         ELSE IF ~frmOK THEN (IF ~ok \/ post # pre THEN <<>> ELSE <<"C03.method">>)       \* refusing is fine; silent success is not
         ELSE IF pre.fport = <<>> /\ ~ok THEN <<>>                                       \* payload without FPort: refusing is fine
         ELSE IF ~ok THEN <<"C03.method">>
         ELSE IF post.frm = RawOr(EncFRM(e.key, db, da, pre.fcnt, frmB)) /\ restSame(pre, post, "frm") THEN <<>> ELSE <<"C03.method">>
    [] e.name = "DecryptFRMPayload" ->
         IF pre.frm = <<>> THEN (IF ok /\ restSame(pre, post, "frm") /\ post.frm = <<>> THEN <<>> ELSE <<"C03.method">>)
         ELSE IF ~frmOK THEN <<>>
         ELSE LET D == EncFRM(e.key, db, da, pre.fcnt, frmB) IN
              IF pre.fport = <<0>> THEN
                (IF ~StreamDecodable(dir, D) THEN (IF ~ok THEN <<>> ELSE <<"C03.method">>)
                 ELSE IF ok /\ ItemsCarry(dir, post.frm, D) /\ restSame(pre, post, "frm") THEN <<>> ELSE <<"C03.method">>)
              ELSE IF ok /\ post.frm = RawOr(D) /\ restSame(pre, post, "frm") THEN <<>> ELSE <<"C03.method">>
    [] e.name = "EncryptFOpts" ->
         IF pre.fopts = <<>> THEN (IF ok /\ post = pre THEN <<>> ELSE <<"C03.method">>)
         ELSE IF ~foOK \/ Len(foB) > 15 THEN (IF ~ok THEN <<>> ELSE <<"C03.method">>)
         ELSE IF ~ok THEN <<"C03.method">>
         ELSE IF post.fopts = RawOr(EncFOpts(e.key, FOptsVariant(db, pre.fport), db, da, pre.fcnt, foB)) /\ restSame(pre, post, "fopts") THEN <<>> ELSE <<"C03.method">>
    [] e.name = "DecryptFOpts" ->
         IF pre.fopts = <<>> THEN (IF ok /\ post = pre THEN <<>> ELSE <<"C03.method">>)
         ELSE IF ~foOK \/ Len(foB) > 15 THEN (IF ~ok THEN <<>> ELSE <<"C03.method">>)
         ELSE LET D == EncFOpts(e.key, FOptsVariant(db, pre.fport), db, da, pre.fcnt, foB) IN
              IF ~StreamDecodable(dir, D) THEN (IF ~ok THEN <<>> ELSE <<"C03.method">>)
              ELSE IF ok /\ ItemsCarry(dir, post.fopts, D) /\ restSame(pre, post, "fopts") THEN <<>> ELSE <<"C03.method">>
    [] OTHER -> <<"unknown-method">>

ExpJoinMic(e) ==
  LET f == e.frame IN
  IF f.kind = "joinacc" THEN JoinAcceptMic(f.dl.optneg, e.jrtype, Rev(e.joineui), LE(e.devnonce, 2), e.key, Msg(f))
  ELSE JoinReqMic(e.key, MsgOf(e))          \* a received frame: the MIC covers the bytes as received (reserved MHDR bits included)
JoinMicFails(e) ==
  IF ~SpecValid(e.frame) THEN <<>>
  ELSE IF e.err # "" THEN <<"C04.mic">>
  ELSE IF e.op = "set" THEN (IF e.frame.mic = ExpJoinMic(e) THEN <<>> ELSE <<"C04.mic">>)
  ELSE (IF e.ok = (e.frame.mic = ExpJoinMic(e)) THEN <<>> ELSE <<"C04.validate">>)

EncJAFails(e) ==
  IF ~SpecValid(e.pre) THEN <<>>
  ELSE IF e.err # "" THEN <<"C04.encrypt">>
  ELSE LET pt == MACPayloadBytes(e.pre) \o e.pre.mic
           ct == EncJoinAccept(e.key, pt)
           got == e.post.bytes \o e.post.mic
       IN  IF e.post.kind = "raw" /\ got = ct /\ DecJoinAccept(e.key, got) = pt /\ Len(pt) \in {16, 32}
              /\ e.post.mtype = e.pre.mtype /\ e.post.major = e.pre.major THEN <<>> ELSE <<"C04.encrypt">>
DecJAFails(e) ==
  IF e.err # "" THEN <<"C04.decrypt">>
  ELSE LET ct == e.pre.bytes \o e.pre.mic
           pt == DecJoinAccept(e.key, ct)
           exp == [mtype |-> e.pre.mtype, major |-> e.pre.major, mic |-> SubSeq(pt, Len(pt) - 3, Len(pt)), kind |-> "joinacc"]
                  @@ DecodeJoinAccept(SubSeq(pt, 1, Len(pt) - 4))
       IN  IF e.post = exp THEN <<>> ELSE <<"C04.decrypt">>

====
