---- MODULE Trace_maccmd ----
(* Trace specification for the `maccmd` driver family (independent events).
   Every recorded event is examined; a failing event prints <<"VFAIL", line, clauses>>.
   Clause names start with the id of the property whose sentence they implement:
     C06.bytes     "the bytes produced ... are bit-for-bit those prescribed"
     C06.decode    "decoding spec-encoded bytes yields the spec field values, RFU bits ignored"
     C07.accept    "every value within the spec's field ranges is accepted"
     C07.reject    "out-of-range fields are reported, never silently truncated"
     C07.lossless  "encoding either returns an error or produces bytes that decode back to the same value"
     C07.stream    "any sequence of commands ... decodes into exactly that sequence for its direction"
     C07.registry  "each registered payload size equals the encoded length"
     C09.total     "returns normally with a value or an error ... without writing to the input buffer" *)
EXTENDS Integers, Sequences, SequencesExt, TLC, Json, IOUtils, Bytes, MACCommands

Tr == ndJsonDeserialize(IOEnv.VERIF_TRACE)
VARIABLES l, nfail

Has(e, k) == k \in DOMAIN e

\* ---- enc ----------------------------------------------------------------------------------------
EncFails(e) ==
  LET lay == Layout(e.dir, e.cid)
      dta == IsDTA(e)
      repr == IF dta THEN DurRepresentable(e.val.Time) ELSE Representable(lay, e.val)
      v == IF dta THEN DurToFields(e.val.Time) ELSE e.val
      must == repr /\ (dta \/ MustAccept(lay, e.val))
      ok == e.err = ""
  IN  (IF e.err \in {"", "error"} THEN <<>> ELSE <<"C09.total">>)
   \o (IF must /\ ~ok THEN <<"C07.accept">> ELSE <<>>)
   \o (IF ~repr /\ ok THEN <<"C07.reject">> ELSE <<>>)
   \o (IF ok /\ repr /\ e.bytes # EncodeLayout(lay, v) THEN <<"C06.bytes">> ELSE <<>>)
   \o (IF ok /\ Len(e.bytes) # LayoutSize(lay) THEN <<"C07.registry">> ELSE <<>>)
   \o (IF ok /\ (e.berr # "" \/ ~Has(e, "back")) THEN <<"C07.lossless">>
       ELSE IF ok /\ e.back # (IF dta THEN [Time |-> QuantDur(e.val.Time)] ELSE e.val) THEN <<"C07.lossless">>
       ELSE <<>>)

\* ---- dec ----------------------------------------------------------------------------------------
DecFails(e) ==
  LET lay == Layout(e.dir, e.cid)
      right == Len(e.bytes) = LayoutSize(lay)
      exp == IF IsDTA(e) THEN [Time |-> FieldsToDur(DecodeLayout(lay, e.bytes))] ELSE DecodeLayout(lay, e.bytes)
  IN  (IF e.err \in {"", "error"} /\ e.intact THEN <<>> ELSE <<"C09.total">>)
   \o (IF right /\ e.err # "" THEN <<"C06.decode">>
       ELSE IF right /\ e.val # exp THEN <<"C06.decode">>
       ELSE <<>>)
   \o (IF ~right /\ e.err = "" THEN <<"C06.length">> ELSE <<>>)
   \* the same bytes decoded into a long-lived payload value that held other commands before
   \o (IF right /\ e.err = "" /\ Has(e, "serr") /\ (e.serr # "" \/ ~Has(e, "sval")) THEN <<"C06.decode">>
       ELSE IF right /\ e.err = "" /\ Has(e, "serr") /\ e.sval # exp THEN <<"C06.decode">>
       ELSE <<>>)
   \* ... and into a long-lived MACCommand value that served the same CID (in either direction) before
   \o (IF right /\ e.err = "" /\ Has(e, "cerr") /\ LayoutSize(lay) > 0 /\ (e.cerr # "" \/ ~Has(e, "cval")) THEN <<"C06.decode", "C07.stream">>
       ELSE IF right /\ e.err = "" /\ Has(e, "cval") /\ e.cval # exp THEN <<"C06.decode", "C07.stream">>
       ELSE <<>>)

QuantCmds(e) == [i \in 1..Len(e.cmds) |->
                   IF e.dir = "down" /\ e.cmds[i].cid = 13 /\ ~Has(e.cmds[i], "raw") /\ e.cmds[i].p # <<>>
                     THEN [e.cmds[i] EXCEPT !.p = <<[Time |-> QuantDur(e.cmds[i].p[1].Time)]>>]
                     ELSE e.cmds[i]]
\* ---- stream -------------------------------------------------------------------------------------
CmdOf(dir, it) == IF Has(it, "raw") THEN [cid |-> it.cid, raw |-> it.raw]
                  ELSE IF dir = "down" /\ it.cid = 13 /\ it.p # <<>> THEN [cid |-> it.cid, p |-> <<DurToFields(it.p[1].Time)>>]
                  ELSE [cid |-> it.cid, p |-> it.p]
CmdMust(dir, it) == Has(it, "raw") \/ it.p = <<>>
                    \/ (IF dir = "down" /\ it.cid = 13 THEN DurRepresentable(it.p[1].Time)
                        ELSE MustAccept(Layout(dir, it.cid), it.p[1]))
CmdRepr(dir, it) == Has(it, "raw") \/ it.p = <<>>
                    \/ (IF dir = "down" /\ it.cid = 13 THEN DurRepresentable(it.p[1].Time)
                        ELSE Representable(Layout(dir, it.cid), it.p[1]))
\* an FOpts sequence longer than the 15-byte field has no encoding: it is refused (accepting it would frame it differently)
OverlongFails(e) == IF e.err = "error" THEN <<>> ELSE <<"C07.stream", "C06.bytes">>
StreamFails(e) ==
  LET cmds == [i \in 1..Len(e.cmds) |-> CmdOf(e.dir, e.cmds[i])]
      must == \A i \in 1..Len(e.cmds) : CmdMust(e.dir, e.cmds[i])
      exp == EncodeStream(e.dir, cmds)
      ok == e.err = ""
      carried == IF e.where = "fopts" THEN SubSeq(e.frame, 9, Len(e.frame) - 4)
                 ELSE SubSeq(e.frame, 10, Len(e.frame) - 4)
      lenOK == IF e.where = "fopts" THEN e.frame[6] % 16 = Len(exp) ELSE e.frame[6] % 16 = 0 /\ e.frame[9] = 0
  IN  (IF e.err \in {"", "error"} THEN <<>> ELSE <<"C09.total">>)
   \o (IF must /\ ~ok THEN <<"C07.accept">> ELSE <<>>)
   \* a sequence holding a command that has no encoding is refused as a whole - never sent without it or with other values
   \o (IF ok /\ (\E i \in 1..Len(e.cmds) : ~CmdRepr(e.dir, e.cmds[i])) THEN <<"C07.reject">> ELSE <<>>)
   \o (IF ok /\ must /\ (carried # exp \/ ~lenOK) THEN <<"C06.bytes">> ELSE <<>>)
   \* the commands decoded from a frame that carries several of them are the commands that were encoded
   \* (C07: the stream is self-delimiting; C06: decoding spec-encoded bytes yields the spec field values)
   \o (IF ok /\ must /\ (e.derr # "" \/ ~Has(e, "back")) THEN <<"C07.stream", "C06.decode">>
       ELSE IF ok /\ must /\ e.back # QuantCmds(e) THEN <<"C07.stream", "C06.decode">>
       ELSE <<>>)

\* ---- lookup -------------------------------------------------------------------------------------
LookupFails(e) ==
  IF HasPayload(e.dir, e.cid)
    THEN (IF e.err = "" /\ e.size = Size(e.dir, e.cid) /\ e.typed THEN <<>> ELSE <<"C07.registry">>)
    ELSE (IF e.err = "error" THEN <<>> ELSE <<"C07.registry">>)      \* nothing is registered in this process

Fails(e) == CASE e.ev = "enc" -> EncFails(e)
              [] e.ev = "dec" -> DecFails(e)
              [] e.ev = "stream" -> IF "overlong" \in DOMAIN e THEN OverlongFails(e) ELSE StreamFails(e)
              [] e.ev = "lookup" -> LookupFails(e)
              [] e.ev = "cmdtype" -> (IF e.err = "" /\ e.ty = PayloadTypeName(e.dir, e.cid) THEN <<>> ELSE <<"C06.decode", "C07.stream", "C05.recover">>)
              [] e.ev = "hang" -> <<e.prop \o ".hang">>    \* a call that never returned (recorded by the watchdog of the harness)
              [] OTHER -> <<"unknown-event">>

Init == l = 1 /\ nfail = 0
Next == /\ l <= Len(Tr)
        /\ LET f == Fails(Tr[l]) IN
             /\ (IF f = <<>> THEN TRUE ELSE PrintT(<<"VFAIL", l, f>>))
             /\ nfail' = nfail + (IF f = <<>> THEN 0 ELSE 1)
        /\ l' = l + 1
Done == (l = Len(Tr) + 1) => PrintT(<<"VDONE", l - 1, nfail>>)
====
