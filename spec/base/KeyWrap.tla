---- MODULE KeyWrap ----
(* RFC 3394 AES key wrap (sec. 2.2.1 wrap, 2.2.2 unwrap, 2.2.3 integrity check with the default
   IV A6A6A6A6A6A6A6A6).  Plaintext is n >= 2 64-bit blocks.  t = n*j + i fits one byte for the
   sizes used here (n <= 4, j <= 5 => t <= 24) but is XORed as a 64-bit big-endian value. *)
EXTENDS Naturals, Sequences, Bitwise, SequencesExt, TLC, AES, Bytes

LOCAL IV == <<166,166,166,166,166,166,166,166>>
LOCAL Blocks(p) == [i \in 1..(Len(p) \div 8) |-> SubSeq(p, 8*i - 7, 8*i)]
LOCAL XorT(a, t) == [i \in 1..8 |-> IF i = 8 THEN a[i] ^^ (t % 256) ELSE IF i = 7 THEN a[i] ^^ (t \div 256) ELSE a[i]]

Wrap(kek, p) ==
  LET n == Len(p) \div 8   w == KeyWords(kek)   nr == Nr(kek)
      step(st, t) ==            \* st = <<A, R>>, t = n*j + i, i = ((t-1) % n) + 1
        LET i == ((t - 1) % n) + 1
            B == EncryptW(w, nr, st[1] \o st[2][i])
        IN  <<XorT(SubSeq(B, 1, 8), t), [st[2] EXCEPT ![i] = SubSeq(B, 9, 16)]>>
      fin == FoldLeft(step, <<IV, Blocks(p)>>, [t \in 1..(6 * n) |-> t])
  IN  fin[1] \o Concat(fin[2])

\* returns [ok |-> BOOLEAN, key |-> bytes]
Unwrap(kek, c) ==
  IF Len(c) < 24 \/ Len(c) % 8 # 0 THEN [ok |-> FALSE, key |-> <<>>] ELSE
  LET n == (Len(c) \div 8) - 1   w == KeyWords(kek)   nr == Nr(kek)
      cb == Blocks(c)
      step(st, k) ==            \* k = 1..6n counts down t = 6n + 1 - k
        LET t == 6 * n + 1 - k
            i == ((t - 1) % n) + 1
            B == DecryptW(w, nr, XorT(st[1], t) \o st[2][i])
        IN  <<SubSeq(B, 1, 8), [st[2] EXCEPT ![i] = SubSeq(B, 9, 16)]>>
      fin == FoldLeft(step, <<cb[1], [i \in 1..n |-> cb[i + 1]]>>, [k \in 1..(6 * n) |-> k])
  IN  [ok |-> fin[1] = IV, key |-> Concat(fin[2])]
====
