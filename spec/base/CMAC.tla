---- MODULE CMAC ----
(* RFC 4493 AES-CMAC, written from the RFC (subkey generation sec. 2.3, MAC generation 2.4). *)
EXTENDS Naturals, Sequences, Bitwise, SequencesExt, TLC, AES, Bytes

LOCAL Zero16 == Zeros(16)
\* left shift of a 16-byte string by one bit
LOCAL Shl1(s) == [i \in 1..16 |-> ((s[i] * 2) % 256) + (IF i < 16 THEN s[i + 1] \div 128 ELSE 0)]
LOCAL Dbl(s) == IF s[1] < 128 THEN Shl1(s)
                ELSE LET t == Shl1(s) IN [t EXCEPT ![16] = t[16] ^^ 135]

CMACw(w, nr, msg) ==
  LET L == EncryptW(w, nr, Zero16)   K1 == Dbl(L)   K2 == Dbl(K1)
      n == IF Len(msg) = 0 THEN 1 ELSE (Len(msg) + 15) \div 16
      complete == Len(msg) > 0 /\ Len(msg) % 16 = 0
      lastRaw == SubSeq(msg, 16 * (n - 1) + 1, Len(msg))
      last == IF complete THEN XorSeq(lastRaw, K1)
              ELSE XorSeq(lastRaw \o <<128>> \o Zeros(15 - Len(lastRaw)), K2)
      x == FoldLeft(LAMBDA acc, i : EncryptW(w, nr, XorSeq(acc, SubSeq(msg, 16*(i-1)+1, 16*i))),
                    Zero16, [i \in 1..(n - 1) |-> i])
  IN  EncryptW(w, nr, XorSeq(x, last))

CMAC(key, msg) == CMACw(KeyWords(key), Nr(key), msg)
====
