INIT Init
NEXT Next
