---- MODULE Bytes ----
(* Byte sequences: little/big-endian fields, bit fields, XOR.  A byte is a Nat in 0..255;
   byte strings are TLA+ sequences.  TLC integers are 32 bit, so nothing here ever holds a value
   >= 2^31: 32-bit quantities are kept as 4-byte sequences (see LE32Add etc. where needed). *)
EXTENDS Naturals, Sequences, Bitwise, SequencesExt, TLC

Byte == 0..255
IsBytes(s) == \A i \in 1..Len(s) : s[i] \in Byte

Pow2(n) == 2^n

\* bits lo..hi (0 = least significant) of a Nat < 2^31
Bits(x, lo, width) == (x \div Pow2(lo)) % Pow2(width)
Bit(x, i) == (x \div Pow2(i)) % 2 = 1
B2N(b) == IF b THEN 1 ELSE 0

\* little-endian encoding of x (< 2^31) on n bytes (n <= 3 in practice; 4 only for x < 2^31)
LE(x, n) == [i \in 1..n |-> (x \div Pow2(8 * (i - 1))) % 256]
BE(x, n) == [i \in 1..n |-> (x \div Pow2(8 * (n - i))) % 256]
\* value of a little-endian byte sequence; caller guarantees < 2^31
LEVal(s) == FoldLeft(LAMBDA acc, i : acc + s[i] * Pow2(8 * (i - 1)), 0, [i \in 1..Len(s) |-> i])
BEVal(s) == FoldLeft(LAMBDA acc, i : acc * 256 + s[i], 0, [i \in 1..Len(s) |-> i])

Rev(s) == [i \in 1..Len(s) |-> s[Len(s) + 1 - i]]

XorSeq(a, b) == [i \in 1..Len(a) |-> a[i] ^^ b[i]]        \* Len(a) = Len(b) assumed by callers
\* XOR a (any length) with the prefix of keystream k (Len(k) >= Len(a))
XorPrefix(a, k) == [i \in 1..Len(a) |-> a[i] ^^ k[i]]

Zeros(n) == [i \in 1..n |-> 0]
Take(s, n) == SubSeq(s, 1, IF n < Len(s) THEN n ELSE Len(s))
Drop(s, n) == SubSeq(s, n + 1, Len(s))

\* flatten a sequence of sequences
Concat(ss) == FoldLeft(LAMBDA acc, s : acc \o s, <<>>, ss)

\* bit sequence (MSB first) of a byte sequence, and back; used by the NetID/DevAddr algebra
BitsOf(s) == [i \in 1..(8 * Len(s)) |-> (s[((i - 1) \div 8) + 1] \div Pow2(7 - ((i - 1) % 8))) % 2]
BytesOfBits(b) == [i \in 1..(Len(b) \div 8) |->
                     FoldLeft(LAMBDA acc, j : acc * 2 + b[8 * (i - 1) + j], 0, <<1,2,3,4,5,6,7,8>>)]
====
