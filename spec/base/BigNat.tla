---- MODULE BigNat ----
(* Naturals as little-endian sequences of base-10^4 limbs (TLC integers are 32 bit and overflow is
   a run-time error).  Canonical form: no trailing zero limbs; zero is <<>>. *)
EXTENDS Integers, Sequences, SequencesExt, TLC

Base == 10000
Norm(a) == LET nz == {i \in 1..Len(a) : a[i] # 0} IN
           IF nz = {} THEN <<>> ELSE SubSeq(a, 1, CHOOSE i \in nz : \A j \in nz : j <= i)
FromNat(n) == Norm(<<n % Base, (n \div Base) % Base, n \div (Base * Base)>>)      \* n < 2^31
Limb(a, i) == IF i <= Len(a) THEN a[i] ELSE 0
IsBig(a) == \A i \in 1..Len(a) : a[i] >= 0 /\ a[i] < Base

\* a * m for 0 <= m < 2^17 (carry stays below 2^31)
MulSmall(a, m) ==
  LET st == FoldLeft(LAMBDA acc, i : LET x == a[i] * m + acc[2] IN <<Append(acc[1], x % Base), x \div Base>>,
                     <<<<>>, 0>>, [i \in 1..Len(a) |-> i])
      c == st[2]
  IN  Norm(st[1] \o <<c % Base, (c \div Base) % Base, c \div (Base * Base)>>)
ShiftLimbs(a, k) == IF a = <<>> THEN <<>> ELSE [i \in 1..k |-> 0] \o a           \* a * 10^(4k)
Add(a, b) ==
  LET n == (IF Len(a) > Len(b) THEN Len(a) ELSE Len(b)) + 1
      st == FoldLeft(LAMBDA acc, i : LET x == Limb(a, i) + Limb(b, i) + acc[2] IN <<Append(acc[1], x % Base), x \div Base>>,
                     <<<<>>, 0>>, [i \in 1..n |-> i])
  IN  Norm(st[1])
\* -1, 0, 1
Cmp(a, b) ==
  LET x == Norm(a)  y == Norm(b) IN
  IF Len(x) # Len(y) THEN (IF Len(x) < Len(y) THEN -1 ELSE 1)
  ELSE LET d == {i \in 1..Len(x) : x[i] # y[i]} IN
       IF d = {} THEN 0
       ELSE LET top == CHOOSE i \in d : \A j \in d : j <= i IN IF x[top] < y[top] THEN -1 ELSE 1
LE(a, b) == Cmp(a, b) <= 0
\* floor(a / d) for 0 < d < 2^17
DivSmall(a, d) ==
  LET st == FoldLeft(LAMBDA acc, k : LET i == Len(a) + 1 - k  x == acc[2] * Base + a[i] IN <<<<x \div d>> \o acc[1], x % d>>,
                     <<<<>>, 0>>, [k \in 1..Len(a) |-> k])
  IN  Norm(st[1])

ASSUME FromNat(123456789) = <<6789, 2345, 1>> /\ MulSmall(<<6789, 2345, 1>>, 1000) = <<9000, 5678, 1234>>
ASSUME Add(<<9999, 9999>>, <<1>>) = <<0, 0, 1>> /\ Cmp(<<1, 2>>, <<2, 1>>) = 1 /\ Cmp(<<>>, <<>>) = 0
ASSUME DivSmall(<<9000, 5678, 1234>>, 1000) = <<6789, 2345, 1>> /\ DivSmall(<<5>>, 7) = <<>>
====
