---- MODULE Text ----
(* Text encodings over sequences of character codes (TLC cannot index strings):
   RFC 4648 base64 (standard alphabet, padded) and lower-case hex. *)
EXTENDS Integers, Sequences, SequencesExt, TLC, Bytes

B64Char(i) == IF i < 26 THEN 65 + i ELSE IF i < 52 THEN 97 + (i - 26) ELSE IF i < 62 THEN 48 + (i - 52)
              ELSE IF i = 62 THEN 43 ELSE 47
Base64(b) ==
  LET n == Len(b)
      full == n \div 3
      grp(i) == LET x == b[3*i - 2] * 65536 + b[3*i - 1] * 256 + b[3*i]
                IN  <<B64Char(x \div 262144), B64Char((x \div 4096) % 64), B64Char((x \div 64) % 64), B64Char(x % 64)>>
      tailp == IF n % 3 = 1 THEN LET x == b[n] * 16 IN <<B64Char(x \div 64), B64Char(x % 64), 61, 61>>
               ELSE IF n % 3 = 2 THEN LET x == (b[n - 1] * 256 + b[n]) * 4
                                      IN <<B64Char(x \div 4096), B64Char((x \div 64) % 64), B64Char(x % 64), 61>>
               ELSE <<>>
  IN  Concat([i \in 1..full |-> grp(i)]) \o tailp

HexDigit(d) == IF d < 10 THEN 48 + d ELSE 87 + d          \* lower case
Hex(b) == Concat([i \in 1..Len(b) |-> <<HexDigit(b[i] \div 16), HexDigit(b[i] % 16)>>])
HexVal(c) == IF c >= 48 /\ c <= 57 THEN c - 48 ELSE IF c >= 97 /\ c <= 102 THEN c - 87
             ELSE IF c >= 65 /\ c <= 70 THEN c - 55 ELSE -1
\* decode hex text (either case, optional "0x" prefix); <<-1>> on malformed input
UnHex(t) ==
  LET s == IF Len(t) >= 2 /\ t[1] = 48 /\ t[2] = 120 THEN SubSeq(t, 3, Len(t)) ELSE t IN
  IF Len(s) % 2 # 0 \/ \E i \in 1..Len(s) : HexVal(s[i]) = -1 THEN <<-1>>
  ELSE [i \in 1..(Len(s) \div 2) |-> 16 * HexVal(s[2*i - 1]) + HexVal(s[2*i])]

ASSUME Base64(<<102, 111, 111, 98, 97, 114>>) = <<90, 109, 57, 118, 89, 109, 70, 121>>     \* "foobar" -> "Zm9vYmFy"
ASSUME Base64(<<102, 111>>) = <<90, 109, 56, 61>> /\ Base64(<<102>>) = <<90, 103, 61, 61>>  \* RFC 4648 sec. 10
ASSUME Hex(<<0, 171, 255>>) = <<48, 48, 97, 98, 102, 102>> /\ UnHex(<<48, 120, 65, 98>>) = <<171>>
====
