---- MODULE AES ----
(* FIPS-197: AES cipher and inverse cipher for 128/192/256-bit keys, written from the standard.
   A block/state is a sequence of 16 bytes in input order (state[r + 4c + 1] = s_{r,c}).
   Iteration uses folds (Java overrides, eager) - never RECURSIVE operators, whose arguments TLC
   re-evaluates lazily at every use. *)
EXTENDS Naturals, Sequences, Bitwise, SequencesExt, TLC, AESTables

LOCAL X2(a, b) == a ^^ b
LOCAL X4(a, b, c, d) == (a ^^ b) ^^ (c ^^ d)

SubBytes(s)    == TLCEval([i \in 1..16 |-> SBoxT[s[i] + 1]])
InvSubBytes(s) == TLCEval([i \in 1..16 |-> InvSBoxT[s[i] + 1]])

\* ShiftRows: s'_{r,c} = s_{r,(c+r) mod 4}
ShiftRows(s) == TLCEval([i \in 1..16 |->
                  LET r == (i - 1) % 4  c == (i - 1) \div 4 IN s[r + 4 * ((c + r) % 4) + 1]])
\* InvShiftRows: s'_{r,(c+r) mod 4} = s_{r,c}  <=>  s'_{r,c} = s_{r,(c-r) mod 4}
InvShiftRows(s) == TLCEval([i \in 1..16 |->
                  LET r == (i - 1) % 4  c == (i - 1) \div 4 IN s[r + 4 * ((c + 4 - r) % 4) + 1]])

MixColumns(s) == TLCEval([i \in 1..16 |->
   LET r == (i - 1) % 4  c == (i - 1) \div 4
       a0 == s[4*c + 1]  a1 == s[4*c + 2]  a2 == s[4*c + 3]  a3 == s[4*c + 4]
   IN  CASE r = 0 -> X4(Mul2T[a0+1], Mul3T[a1+1], a2, a3)
         [] r = 1 -> X4(a0, Mul2T[a1+1], Mul3T[a2+1], a3)
         [] r = 2 -> X4(a0, a1, Mul2T[a2+1], Mul3T[a3+1])
         [] r = 3 -> X4(Mul3T[a0+1], a1, a2, Mul2T[a3+1])])

InvMixColumns(s) == TLCEval([i \in 1..16 |->
   LET r == (i - 1) % 4  c == (i - 1) \div 4
       a0 == s[4*c + 1]  a1 == s[4*c + 2]  a2 == s[4*c + 3]  a3 == s[4*c + 4]
   IN  CASE r = 0 -> X4(Mul14T[a0+1], Mul11T[a1+1], Mul13T[a2+1], Mul9T[a3+1])
         [] r = 1 -> X4(Mul9T[a0+1], Mul14T[a1+1], Mul11T[a2+1], Mul13T[a3+1])
         [] r = 2 -> X4(Mul13T[a0+1], Mul9T[a1+1], Mul14T[a2+1], Mul11T[a3+1])
         [] r = 3 -> X4(Mul11T[a0+1], Mul13T[a1+1], Mul9T[a2+1], Mul14T[a3+1])])

AddRK(s, k) == TLCEval([i \in 1..16 |-> s[i] ^^ k[i]])

\* --- key expansion (sec. 5.2): a sequence of 4(Nr+1) words, each a 4-byte sequence --------------
LOCAL Rcon == <<1, 2, 4, 8, 16, 32, 64, 128, 27, 54>>
LOCAL SubWord(w) == <<SBoxT[w[1]+1], SBoxT[w[2]+1], SBoxT[w[3]+1], SBoxT[w[4]+1]>>
LOCAL RotWord(w) == <<w[2], w[3], w[4], w[1]>>
LOCAL XorWord(a, b) == <<a[1] ^^ b[1], a[2] ^^ b[2], a[3] ^^ b[3], a[4] ^^ b[4]>>

Nk(key) == Len(key) \div 4
Nr(key) == Nk(key) + 6

KeyWords(key) ==
  LET nk == Nk(key)
      total == 4 * (nk + 7)
      init == [i \in 1..nk |-> <<key[4*i - 3], key[4*i - 2], key[4*i - 1], key[4*i]>>]
      step(w, i) ==      \* i is the 0-based index of the word being produced
        LET prev == w[i]          \* w[i-1] in 0-based terms
            temp == IF i % nk = 0
                      THEN XorWord(SubWord(RotWord(prev)), <<Rcon[i \div nk], 0, 0, 0>>)
                      ELSE IF nk > 6 /\ i % nk = 4 THEN SubWord(prev) ELSE prev
        IN  Append(w, XorWord(w[i - nk + 1], temp))
  IN  TLCEval(FoldLeft(step, init, [j \in 1..(total - nk) |-> nk + j - 1]))

RoundKey(w, r) == w[4*r + 1] \o w[4*r + 2] \o w[4*r + 3] \o w[4*r + 4]

EncryptW(w, nr, pt) ==
  LET sN == FoldLeft(LAMBDA s, r : AddRK(MixColumns(ShiftRows(SubBytes(s))), RoundKey(w, r)),
                     AddRK(pt, RoundKey(w, 0)), [i \in 1..(nr - 1) |-> i])
  IN  AddRK(ShiftRows(SubBytes(sN)), RoundKey(w, nr))

\* inverse cipher (sec. 5.3)
DecryptW(w, nr, ct) ==
  LET s1 == FoldLeft(LAMBDA s, r : InvMixColumns(AddRK(InvSubBytes(InvShiftRows(s)), RoundKey(w, nr - r))),
                     AddRK(ct, RoundKey(w, nr)), [i \in 1..(nr - 1) |-> i])
  IN  AddRK(InvSubBytes(InvShiftRows(s1)), RoundKey(w, 0))

AESEnc(key, block) == EncryptW(KeyWords(key), Nr(key), block)
AESDec(key, block) == DecryptW(KeyWords(key), Nr(key), block)
====
