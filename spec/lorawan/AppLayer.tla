---- MODULE AppLayer ----
(* Application-layer packages over LoRaWAN: Clock Synchronization (TS003-1.0.0), Remote Multicast
   Setup (TS005-1.0.0), Fragmented Data Block Transport (TS004-1.0.0), Firmware Management Protocol
   (TS006-1.0.0): command tables (CID x direction -> payload layout), the status-dependent sizes,
   and the multicast key derivation.  Field names are the leaf names of the library's structs (that
   is all the projection shares with the code).  A command is [cid, haspl, val]; `haspl` is FALSE
   for CIDs that carry no payload in that direction. *)
EXTENDS Integers, Sequences, SequencesExt, FiniteSets, TLC, Bytes, MACCommands

U8(n) == G(1, <<F(n, 8, "uint")>>)
PkgVersionAns == <<U8("PackageIdentifier"), U8("PackageVersion")>>
IdHdr == G(1, <<F("McGroupID", 2, "uint"), RFU(6)>>)
FreqDR == <<G(3, <<F("DLFrequency", 24, "freq")>>), U8("DR")>>

Special == <<"special">>
\* fixed layouts; <<>> = defined without payload bytes; Special = status-dependent size; "none" handled by HasCmd
ALayout(pkg, dir, cid) ==
  CASE pkg = "clocksync" /\ dir = "up" /\ cid = 0 -> PkgVersionAns
    [] pkg = "clocksync" /\ dir = "up" /\ cid = 1 -> <<RawG("DeviceTime", 4), G(1, <<F("TokenReq", 4, "uint"), F("AnsRequired", 1, "flag"), RFU(3)>>)>>
    [] pkg = "clocksync" /\ dir = "up" /\ cid = 2 -> <<G(1, <<F("NotSupported", 1, "flag"), RFU(7)>>), RawG("Time", 4)>>
    [] pkg = "clocksync" /\ dir = "down" /\ cid = 1 -> <<RawG("TimeCorrection", 4), G(1, <<F("TokenAns", 4, "uint"), RFU(4)>>)>>
    [] pkg = "clocksync" /\ dir = "down" /\ cid = 2 -> <<G(1, <<F("Period", 4, "uint"), RFU(4)>>)>>
    [] pkg = "clocksync" /\ dir = "down" /\ cid = 3 -> <<G(1, <<F("NbTransmissions", 3, "uint"), RFU(5)>>)>>
    [] pkg = "multicastsetup" /\ dir = "up" /\ cid = 0 -> PkgVersionAns
    [] pkg = "multicastsetup" /\ dir = "up" /\ cid = 1 -> Special
    [] pkg = "multicastsetup" /\ dir = "up" /\ cid = 2 -> <<G(1, <<F("McGroupID", 2, "uint"), F("IDError", 1, "flag"), RFU(5)>>)>>
    [] pkg = "multicastsetup" /\ dir = "up" /\ cid = 3 -> <<G(1, <<F("McGroupID", 2, "uint"), F("McGroupUndefined", 1, "flag"), RFU(5)>>)>>
    [] pkg = "multicastsetup" /\ dir = "up" /\ cid \in {4, 5} -> Special
    [] pkg = "multicastsetup" /\ dir = "down" /\ cid = 1 -> <<G(1, <<F("RegGroupMask", 4, "chmask"), RFU(4)>>)>>
    [] pkg = "multicastsetup" /\ dir = "down" /\ cid = 2 -> <<IdHdr, RevG("McAddr", 4), RawG("McKeyEncrypted", 16), RawG("MinMcFCnt", 4), RawG("MaxMcFCnt", 4)>>
    [] pkg = "multicastsetup" /\ dir = "down" /\ cid = 3 -> <<IdHdr>>
    [] pkg = "multicastsetup" /\ dir = "down" /\ cid = 4 -> <<IdHdr, RawG("SessionTime", 4), G(1, <<F("TimeOut", 4, "uint"), RFU(4)>>)>> \o FreqDR
    [] pkg = "multicastsetup" /\ dir = "down" /\ cid = 5 -> <<IdHdr, RawG("SessionTime", 4), G(1, <<F("TimeOut", 4, "uint"), F("Periodicity", 3, "uint"), RFU(1)>>)>> \o FreqDR
    [] pkg = "fragmentation" /\ dir = "up" /\ cid = 0 -> PkgVersionAns
    [] pkg = "fragmentation" /\ dir = "up" /\ cid = 1 -> <<G(2, <<F("NbFragReceived", 14, "uint"), F("FragIndex", 2, "uint")>>), U8("MissingFrag"), G(1, <<F("NotEnoughMatrixMemory", 1, "flag"), RFU(7)>>)>>
    [] pkg = "fragmentation" /\ dir = "up" /\ cid = 2 -> <<G(1, <<F("EncodingUnsupported", 1, "flag"), F("NotEnoughMemory", 1, "flag"), F("FragSessionIndexNotSupported", 1, "flag"),
                                                               F("WrongDescriptor", 1, "flag"), RFU(2), F("FragIndex", 2, "uint")>>)>>
    [] pkg = "fragmentation" /\ dir = "up" /\ cid = 3 -> <<G(1, <<F("FragIndex", 2, "uint"), F("SessionDoesNotExist", 1, "flag"), RFU(5)>>)>>
    [] pkg = "fragmentation" /\ dir = "down" /\ cid = 1 -> <<G(1, <<F("Participants", 1, "flag"), F("FragIndex", 2, "uint"), RFU(5)>>)>>
    [] pkg = "fragmentation" /\ dir = "down" /\ cid = 2 -> <<G(1, <<F("McGroupBitMask", 4, "chmask"), F("FragIndex", 2, "uint"), RFU(2)>>), G(2, <<F("NbFrag", 16, "uint")>>), U8("FragSize"),
                                                            G(1, <<F("BlockAckDelay", 3, "uint"), F("FragmentationMatrix", 3, "uint"), RFU(2)>>), U8("Padding"), RawG("Descriptor", 4)>>
    [] pkg = "fragmentation" /\ dir = "down" /\ cid = 3 -> <<G(1, <<F("FragIndex", 2, "uint"), RFU(6)>>)>>
    [] pkg = "fragmentation" /\ dir = "down" /\ cid = 8 -> Special
    [] pkg = "firmwaremanagement" /\ dir = "up" /\ cid = 0 -> PkgVersionAns
    [] pkg = "firmwaremanagement" /\ dir = "up" /\ cid = 1 -> <<RawG("FWversion", 4), RawG("HWversion", 4)>>
    [] pkg = "firmwaremanagement" /\ dir = "up" /\ cid = 2 -> <<RawG("RebootTime", 4)>>
    [] pkg = "firmwaremanagement" /\ dir = "up" /\ cid = 3 -> <<U24G("Countdown")>>
    [] pkg = "firmwaremanagement" /\ dir = "up" /\ cid = 4 -> Special
    [] pkg = "firmwaremanagement" /\ dir = "up" /\ cid = 5 -> <<G(1, <<F("ErrorNoValidImage", 1, "uint"), F("ErrorInvalidVersion", 1, "uint"), RFU(6)>>)>>
    [] pkg = "firmwaremanagement" /\ dir = "down" /\ cid \in {1, 4} -> <<>>
    [] pkg = "firmwaremanagement" /\ dir = "down" /\ cid = 2 -> <<RawG("RebootTime", 4)>>
    [] pkg = "firmwaremanagement" /\ dir = "down" /\ cid = 3 -> <<U24G("Countdown")>>
    [] pkg = "firmwaremanagement" /\ dir = "down" /\ cid = 5 -> <<RawG("FirmwareToDeleteVersion", 4)>>
Pkgs == {"clocksync", "multicastsetup", "fragmentation", "firmwaremanagement"}
CIDsOf(pkg, dir) ==
  CASE pkg = "clocksync" -> IF dir = "up" THEN {0, 1, 2} ELSE {1, 2, 3}
    [] pkg = "multicastsetup" -> IF dir = "up" THEN 0..5 ELSE 1..5
    [] pkg = "fragmentation" -> IF dir = "up" THEN 0..3 ELSE {1, 2, 3, 8}
    [] pkg = "firmwaremanagement" -> IF dir = "up" THEN 0..5 ELSE 1..5
HasCmd(pkg, dir, cid) == cid \in CIDsOf(pkg, dir)
IsSpecial(pkg, dir, cid) == \/ (pkg = "multicastsetup" /\ dir = "up" /\ cid \in {1, 4, 5})
                            \/ (pkg = "fragmentation" /\ dir = "down" /\ cid = 8)
                            \/ (pkg = "firmwaremanagement" /\ dir = "up" /\ cid = 4)

PopCount(bits) == FoldLeft(LAMBDA a, i : a + bits[i], 0, [i \in 1..Len(bits) |-> i])
HasErr(v) == v.McGroupUndefined \/ v.FreqError \/ v.DRError

\* ---- well-formedness: every field within its specified bit width (and the structural constraints) ------
WellFormed(pkg, dir, c) ==
  IF ~c.haspl THEN ~HasCmd(pkg, dir, c.cid)
  ELSE IF ~HasCmd(pkg, dir, c.cid) THEN FALSE
  ELSE LET v == c.val IN
  CASE pkg = "multicastsetup" /\ dir = "up" /\ c.cid = 1 ->
         /\ v.NbTotalGroups <= 7 /\ Len(v.Items) = PopCount(v.AnsGroupMask)
         /\ \A i \in 1..Len(v.Items) : v.Items[i].McGroupID <= 3 /\ Len(v.Items[i].McAddr) = 4
    [] pkg = "multicastsetup" /\ dir = "up" /\ c.cid \in {4, 5} ->
         /\ v.McGroupID <= 3
         /\ IF HasErr(v) THEN v.TimeToStart = <<>> ELSE Len(v.TimeToStart) = 1 /\ v.TimeToStart[1][4] = 0
    [] pkg = "fragmentation" /\ dir = "down" /\ c.cid = 8 -> v.FragIndex <= 3 /\ v.N < 16384
    [] pkg = "firmwaremanagement" /\ dir = "up" /\ c.cid = 4 ->
         IF v.UpImageStatus = 3 THEN Len(v.nextFirmwareVersion) = 1 /\ Len(v.nextFirmwareVersion[1]) = 4
         ELSE v.UpImageStatus \in 0..2 /\ v.nextFirmwareVersion = <<>>
    [] OTHER -> MustAccept(ALayout(pkg, dir, c.cid), v)

PopCountBits(bits) == FoldLeft(LAMBDA a, i : a + bits[i] * Pow2(i - 1), 0, [i \in 1..Len(bits) |-> i])
\* values the library's exported API can build (DevUpgradeImageAns.nextFirmwareVersion is unexported)
Constructible(pkg, dir, c) == ~(pkg = "firmwaremanagement" /\ dir = "up" /\ c.haspl /\ c.cid = 4 /\ c.val.UpImageStatus = 3)
\* ---- encoding ----------------------------------------------------------------------------------------------
APayloadBytes(pkg, dir, c) ==
  IF ~c.haspl THEN <<>> ELSE
  LET v == c.val IN
  CASE pkg = "multicastsetup" /\ dir = "up" /\ c.cid = 1 ->
         <<PopCountBits(v.AnsGroupMask) + 16 * v.NbTotalGroups>> \o Concat([i \in 1..Len(v.Items) |-> <<v.Items[i].McGroupID>> \o Rev(v.Items[i].McAddr)])
    [] pkg = "multicastsetup" /\ dir = "up" /\ c.cid \in {4, 5} ->
         <<v.McGroupID + 4 * B2N(v.DRError) + 8 * B2N(v.FreqError) + 16 * B2N(v.McGroupUndefined)>>
         \o (IF HasErr(v) THEN <<>> ELSE SubSeq(v.TimeToStart[1], 1, 3))
    [] pkg = "fragmentation" /\ dir = "down" /\ c.cid = 8 -> LE(v.N + 16384 * v.FragIndex, 2) \o v.Payload
    [] pkg = "firmwaremanagement" /\ dir = "up" /\ c.cid = 4 -> <<v.UpImageStatus>> \o (IF v.UpImageStatus = 3 THEN v.nextFirmwareVersion[1] ELSE <<>>)
    [] OTHER -> EncodeLayout(ALayout(pkg, dir, c.cid), v)
ACmdBytes(pkg, dir, c) == <<c.cid>> \o APayloadBytes(pkg, dir, c)
AStreamBytes(pkg, dir, cmds) == Concat([i \in 1..Len(cmds) |-> ACmdBytes(pkg, dir, cmds[i])])

\* ---- decoding a stream: each CID is followed by a payload whose size is fixed, or given by its status bits,
\*      or (DataFragment) extends to the end -------------------------------------------------------------------
PayloadSizeAt(pkg, dir, cid, rest) ==      \* -1 = not enough bytes
  IF ~HasCmd(pkg, dir, cid) THEN 0
  ELSE CASE pkg = "multicastsetup" /\ dir = "up" /\ cid = 1 -> IF rest = <<>> THEN -1 ELSE 1 + 5 * PopCount([i \in 1..4 |-> (rest[1] \div Pow2(i - 1)) % 2])
         [] pkg = "multicastsetup" /\ dir = "up" /\ cid \in {4, 5} -> IF rest = <<>> THEN -1 ELSE IF (rest[1] \div 4) % 8 # 0 THEN 1 ELSE 4
         [] pkg = "fragmentation" /\ dir = "down" /\ cid = 8 -> IF Len(rest) < 2 THEN -1 ELSE Len(rest)
         [] pkg = "firmwaremanagement" /\ dir = "up" /\ cid = 4 -> IF rest = <<>> THEN -1 ELSE IF rest[1] % 4 = 3 THEN 5 ELSE 1
         [] OTHER -> LayoutSize(ALayout(pkg, dir, cid))
DecodePayload(pkg, dir, cid, b) ==
  CASE pkg = "multicastsetup" /\ dir = "up" /\ cid = 1 ->
         [NbTotalGroups |-> (b[1] \div 16) % 8, AnsGroupMask |-> [i \in 1..4 |-> (b[1] \div Pow2(i - 1)) % 2],
          Items |-> [k \in 1..((Len(b) - 1) \div 5) |-> [McGroupID |-> b[5 * k - 3] % 4, McAddr |-> Rev(SubSeq(b, 5 * k - 2, 5 * k + 1))]]]
    [] pkg = "multicastsetup" /\ dir = "up" /\ cid \in {4, 5} ->
         [McGroupID |-> b[1] % 4, DRError |-> Bit(b[1], 2), FreqError |-> Bit(b[1], 3), McGroupUndefined |-> Bit(b[1], 4),
          TimeToStart |-> IF Len(b) = 4 THEN <<SubSeq(b, 2, 4) \o <<0>>>> ELSE <<>>]
    [] pkg = "fragmentation" /\ dir = "down" /\ cid = 8 -> [N |-> (b[1] + 256 * b[2]) % 16384, FragIndex |-> b[2] \div 64, Payload |-> SubSeq(b, 3, Len(b))]
    [] pkg = "firmwaremanagement" /\ dir = "up" /\ cid = 4 -> [UpImageStatus |-> b[1] % 4, nextFirmwareVersion |-> IF Len(b) = 5 THEN <<SubSeq(b, 2, 5)>> ELSE <<>>]
    [] OTHER -> IF b = <<>> THEN <<>> ELSE DecodeLayout(ALayout(pkg, dir, cid), b)
\* [ok, cmds]
ADecodeStream(pkg, dir, bytes) ==
  LET step[i \in 1..(Len(bytes) + 1)] ==
        IF i > Len(bytes) THEN [ok |-> TRUE, cmds |-> <<>>]
        ELSE LET cid == bytes[i]
                 rest == SubSeq(bytes, i + 1, Len(bytes))
                 sz == PayloadSizeAt(pkg, dir, cid, rest)
             IN  IF sz = -1 \/ sz > Len(rest) THEN [ok |-> FALSE, cmds |-> <<>>]
                 ELSE LET nxt == step[i + 1 + sz]
                          c == IF HasCmd(pkg, dir, cid) THEN [cid |-> cid, haspl |-> TRUE, val |-> DecodePayload(pkg, dir, cid, SubSeq(rest, 1, sz))]
                               ELSE [cid |-> cid, haspl |-> FALSE, val |-> <<>>]
                      IN  [ok |-> nxt.ok, cmds |-> <<c>> \o nxt.cmds]
  IN  step[1]

\* ---- TS005 sec. 4: multicast keys (AES = aes128_encrypt) ---------------------------------------------------------
McBlock(first, rest) == <<first>> \o rest \o Zeros(15 - Len(rest))
====
