---- MODULE RegionalParameters ----
(* LoRaWAN Regional Parameters (RP001-1.0.2/1.0.3, RP002-1.0.0 .. 1.0.3) for the 14 regions the
   library implements, transcribed from the documents' tables as far as they can be vouched for
   offline.  A cell that cannot be vouched for is `Unknown` and constrains nothing; only the
   structural relations of BandRules apply to it.  Frequencies are in units of 100 Hz (q).
   Region name = what Band.Name() returns. *)
EXTENDS Integers, Sequences, SequencesExt, FiniteSets, TLC

Unknown == -999

Regions == {"EU868", "US915", "AU915", "CN470", "CN779", "EU433", "AS923", "AS923-2", "AS923-3", "AS923-4", "KR920", "IN865", "RU864", "ISM2400"}
IsAS923(r) == r \in {"AS923", "AS923-2", "AS923-3", "AS923-4"}
ASOffset(r) == CASE r = "AS923" -> 0 [] r = "AS923-2" -> -18000 [] r = "AS923-3" -> -66000 [] r = "AS923-4" -> -59000 [] OTHER -> 0

\* ---- data-rate definitions: <<index, modulation, SF, BW kHz, bit rate, uplink, downlink>> (LoRa/FSK rows only) -----
L(i, sf, bw, up, down) == [i |-> i, mod |-> "LORA", sf |-> sf, bw |-> bw, br |-> 0, up |-> up, down |-> down]
FSK(i) == [i |-> i, mod |-> "FSK", sf |-> 0, bw |-> 0, br |-> 50000, up |-> TRUE, down |-> TRUE]
SF12to7(bw) == {L(i, 12 - i, bw, TRUE, TRUE) : i \in 0..5}
DataRates(r) ==
  CASE r \in {"EU868", "CN779", "EU433", "RU864"} \/ IsAS923(r) -> SF12to7(125) \cup {L(6, 7, 250, TRUE, TRUE), FSK(7)}
    [] r \in {"CN470", "KR920"} -> SF12to7(125)
    [] r = "IN865" -> SF12to7(125) \cup {FSK(7)}
    [] r = "US915" -> {L(0, 10, 125, TRUE, FALSE), L(1, 9, 125, TRUE, FALSE), L(2, 8, 125, TRUE, FALSE), L(3, 7, 125, TRUE, FALSE), L(4, 8, 500, TRUE, FALSE)}
                      \cup {L(8 + k, 12 - k, 500, FALSE, TRUE) : k \in 0..5}
    [] r = "AU915" -> {L(i, 12 - i, 125, TRUE, FALSE) : i \in 0..5} \cup {L(6, 8, 500, TRUE, FALSE)}
                      \cup {L(8 + k, 12 - k, 500, FALSE, TRUE) : k \in 0..5}
    [] r = "ISM2400" -> {L(i, 12 - i, 812, TRUE, TRUE) : i \in 0..7}
\* indices the region leaves undefined (RFU) - must not be defined by an implementation
UndefinedDRs(r) ==
  CASE r = "KR920" -> 6..15
    [] r = "CN470" -> 8..15          \* 6, 7 are SF7/500 and FSK since RP002-1.0.1
    [] r = "IN865" -> {6} \cup (8..15)
    [] r = "ISM2400" -> 8..15
    [] r \in {"US915", "AU915"} -> {14, 15}
    [] OTHER -> 12..15       \* 8..11 are LR-FHSS in RP002-1.0.2+ for EU868; not asserted either way for the others

\* ---- default (mandatory) uplink channels and downlink channel plan ------------------------------
Ch(q, mn, mx) == [q |-> q, min |-> mn, max |-> mx, maxs |-> {mx}]
\* channels whose upper data-rate differs between revisions (LR-FHSS data-rates added by RP002-1.0.2)
ChS(q, mn, mx, maxs) == [q |-> q, min |-> mn, max |-> mx, maxs |-> maxs]
DefaultUplink(r) ==
  CASE r = "EU868" -> <<Ch(8681000, 0, 5), Ch(8683000, 0, 5), Ch(8685000, 0, 5)>>
    [] r = "CN779" -> <<Ch(7795000, 0, 5), Ch(7797000, 0, 5), Ch(7799000, 0, 5)>>
    [] r = "EU433" -> <<Ch(4331750, 0, 5), Ch(4333750, 0, 5), Ch(4335750, 0, 5)>>
    [] IsAS923(r) -> <<Ch(9232000 + ASOffset(r), 0, 5), Ch(9234000 + ASOffset(r), 0, 5)>>
    [] r = "KR920" -> <<Ch(9221000, 0, 5), Ch(9223000, 0, 5), Ch(9225000, 0, 5)>>
    [] r = "IN865" -> <<Ch(8650625, 0, 5), Ch(8654025, 0, 5), Ch(8659850, 0, 5)>>
    [] r = "RU864" -> <<Ch(8689000, 0, 5), Ch(8691000, 0, 5)>>
    [] r = "ISM2400" -> <<Ch(24030000, 0, 7), Ch(24250000, 0, 7), Ch(24790000, 0, 7)>>
    [] r = "US915" -> [k \in 1..64 |-> Ch(9023000 + 2000 * (k - 1), 0, 3)] \o [k \in 1..8 |-> ChS(9030000 + 16000 * (k - 1), 4, 4, {4, 6})]
    [] r = "AU915" -> [k \in 1..64 |-> Ch(9152000 + 2000 * (k - 1), 0, 5)] \o [k \in 1..8 |-> ChS(9159000 + 16000 * (k - 1), 6, 6, {6, 7})]
    [] r = "CN470" -> [k \in 1..96 |-> Ch(4703000 + 2000 * (k - 1), 0, 5)]
\* RX1 channel rule and, for the fixed plans, the downlink channel frequencies
RX1ChanRule(r) == CASE r \in {"US915", "AU915"} -> 8 [] r = "CN470" -> 48 [] OTHER -> 0      \* 0 = same channel
DownlinkQ(r, k) == CASE r \in {"US915", "AU915"} -> 9233000 + 6000 * k     \* k = 0..7
                     [] r = "CN470" -> 5003000 + 2000 * k                  \* k = 0..47
FixedPlan(r) == r \in {"US915", "AU915", "CN470"}

\* ---- RX1 data-rate ----------------------------------------------------------------------------------
MaxRX1Offset(r) == CASE r = "US915" -> 3 [] IsAS923(r) \/ r = "IN865" -> 7 [] OTHER -> 5
MaxI(a, b) == IF a > b THEN a ELSE b
MinI(a, b) == IF a < b THEN a ELSE b
\* uplink data-rates for which the RX1 data-rate is vouched for
RX1Known(r) == CASE r \in {"EU868", "CN779", "EU433", "RU864", "ISM2400"} \/ IsAS923(r) -> 0..7
                 [] r \in {"CN470", "KR920"} -> 0..5
                 [] r = "IN865" -> (0..5) \cup {7}
                 [] r = "US915" -> 0..4
                 [] r = "AU915" -> 0..6
EffOffset(o) == IF o = 6 THEN -1 ELSE IF o = 7 THEN -2 ELSE o
USRow(dr) == CASE dr = 0 -> <<10, 9, 8, 8>> [] dr = 1 -> <<11, 10, 9, 8>> [] dr = 2 -> <<12, 11, 10, 9>> [] dr = 3 -> <<13, 12, 11, 10>> [] dr = 4 -> <<13, 13, 12, 11>>
AURow(dr) == CASE dr = 0 -> <<8, 8, 8, 8, 8, 8>> [] dr = 1 -> <<9, 8, 8, 8, 8, 8>> [] dr = 2 -> <<10, 9, 8, 8, 8, 8>> [] dr = 3 -> <<11, 10, 9, 8, 8, 8>>
               [] dr = 4 -> <<12, 11, 10, 9, 8, 8>> [] dr = 5 -> <<13, 12, 11, 10, 9, 8>> [] dr = 6 -> <<13, 13, 12, 11, 10, 9>>
\* dwell = TRUE when the downlink dwell-time limit (400 ms) applies (AS923 only)
RX1DR(r, dwell, dr, off) ==
  CASE r = "US915" -> USRow(dr)[off + 1]
    [] r = "AU915" -> AURow(dr)[off + 1]
    [] IsAS923(r) -> MinI(5, MaxI(IF dwell THEN 2 ELSE 0, dr - EffOffset(off)))
    [] r = "IN865" -> IF dr = 7 THEN <<7, 5, 5, 4, 3, 2, 7, 7>>[off + 1]      \* the FSK row of RP002 (DR6 is RFU in this band)
                      ELSE MinI(5, MaxI(0, dr - EffOffset(off)))
    [] OTHER -> MaxI(dr - off, 0)
\* offsets over which the rule is monotone ("the region's positive offsets")
PositiveOffsets(r) == IF IsAS923(r) \/ r = "IN865" THEN 0..5 ELSE 0..MaxRX1Offset(r)

\* ---- defaults ---------------------------------------------------------------------------------------
RX2(r) == CASE r = "EU868" -> [q |-> 8695250, dr |-> 0] [] r = "US915" -> [q |-> 9233000, dr |-> 8] [] r = "AU915" -> [q |-> 9233000, dr |-> 8]
            [] r = "CN470" -> [q |-> 5053000, dr |-> 0] [] r = "CN779" -> [q |-> 7860000, dr |-> 0] [] r = "EU433" -> [q |-> 4346650, dr |-> 0]
            [] IsAS923(r) -> [q |-> 9232000 + ASOffset(r), dr |-> 2] [] r = "KR920" -> [q |-> 9219000, dr |-> 0] [] r = "IN865" -> [q |-> 8665500, dr |-> 2]
            [] r = "RU864" -> [q |-> 8691000, dr |-> 0] [] r = "ISM2400" -> [q |-> 24230000, dr |-> 0]
\* Class-B ping slot: fixed frequency, or hopping over 8 downlink channels
PingFixed(r) == CASE r = "EU868" -> 8695250 [] r = "CN779" -> 7850000 [] r = "EU433" -> 4346650 [] IsAS923(r) -> 9234000 + ASOffset(r)
                  [] r = "KR920" -> 9231000 [] r = "IN865" -> 8665500 [] r = "RU864" -> 8689000 [] r = "ISM2400" -> 24240000 [] OTHER -> Unknown
PingHopQ(r, k) == CASE r \in {"US915", "AU915"} -> 9233000 + 6000 * k [] r = "CN470" -> 5083000 + 2000 * k
\* TX power: step i is -2*i dB; number of steps (Unknown where the revisions differ)
TXPowerSteps(r) == CASE r \in {"EU868", "CN470", "KR920", "RU864", "ISM2400"} \/ IsAS923(r) -> 8 [] r \in {"CN779", "EU433"} -> 6 [] r = "IN865" -> 11 [] OTHER -> Unknown
\* default timing (ms): RECEIVE_DELAY1/2, JOIN_ACCEPT_DELAY1/2
Delays == [rd1 |-> 1000, rd2 |-> 2000, jd1 |-> 5000, jd2 |-> 6000]

\* ---- sanity of the transcription itself (checked as ASSUMEs by the design check) ---------------------
DownDRs(r) == {d.i : d \in {x \in DataRates(r) : x.down}}
UpDRs(r) == {d.i : d \in {x \in DataRates(r) : x.up}}
TableClosed == \A r \in Regions : \A dr \in RX1Known(r) \cap UpDRs(r) : \A off \in 0..MaxRX1Offset(r), dw \in BOOLEAN :
                  RX1DR(r, dw, dr, off) \in DownDRs(r)
RankIn(S, x) == Cardinality({y \in S : y < x})
TableMonotone == \A r \in Regions : \A dr \in RX1Known(r) \cap UpDRs(r) : \A dw \in BOOLEAN : \A off \in PositiveOffsets(r) \ {0} :
                    LET a == RX1DR(r, dw, dr, off - 1)  b == RX1DR(r, dw, dr, off) IN
                    b <= a /\ RankIn(DownDRs(r), a) - RankIn(DownDRs(r), b) <= 1
ChannelsClosed == \A r \in Regions : \A i \in 1..Len(DefaultUplink(r)) :
                     DefaultUplink(r)[i].min \in UpDRs(r) /\ DefaultUplink(r)[i].max \in UpDRs(r)
RX2Closed == \A r \in Regions : RX2(r).dr \in DownDRs(r)
====
