---- MODULE JoinProc ----
(* The join procedure seen from a specification-conformant END-DEVICE and from the network / application
   servers that receive the join-server's answer (LoRaWAN 1.1 sec. 6.2, LoRaWAN 1.0.x sec. 6.2,
   Backend Interfaces 1.0 sec. 11-12) - written independently of the join-server implementation and
   generic in the primitives (module CryptoGen), so that it is instantiated with in-TLA+ AES/CMAC for
   trace validation and symbolically for the design check.
   A request r carries: kind ("join", "rejoin0", "rejoin1", "rejoin2"), the device's root keys nwkkey,
   appkey, deveui / joineui / netid (MSB first), devnonce (DevNonce or RJcount), the fields the NS asks
   for (devaddr, dl, rxdelay, cflist) and the JoinNonce jn3 the JS is configured to use. *)
EXTENDS Integers, Sequences, SequencesExt, Bytes
CONSTANTS CMACf(_, _), AESf(_, _), AESDf(_, _), First(_, _), XorP(_, _), Cat(_, _)
INSTANCE CryptoGen

JRType(kind) == CASE kind = "join" -> 255 [] kind = "rejoin0" -> 0 [] kind = "rejoin1" -> 1 [] kind = "rejoin2" -> 2
DevNonce2(r) == LE(r.devnonce, 2)
\* keys of the join-server scope (LoRaWAN 1.1 sec. 6.1.1.4)
JSIntKey(r) == JSKey(r.nwkkey, 6, Rev(r.deveui))
JSEncKey(r) == JSKey(r.nwkkey, 5, Rev(r.deveui))

\* the device decrypts the join-accept: NwkKey for a join-request, JSEncKey for a rejoin-request
DecryptKey(r) == IF r.kind = "join" THEN r.nwkkey ELSE JSEncKey(r)
\* phy = MHDR | encrypted(payload | MIC)
Plain(r, phy) == DecJoinAccept(DecryptKey(r), SubSeq(phy, 2, Len(phy)))
\* MIC the device expects over MHDR | payload
ExpectedMic(r, mhdr, payload, optneg) ==
  IF optneg THEN JoinAcceptMic(TRUE, JRType(r.kind), Rev(r.joineui), DevNonce2(r), JSIntKey(r), <<mhdr>> \o payload)
  ELSE JoinAcceptMic(FALSE, 0, <<>>, <<>>, r.nwkkey, <<mhdr>> \o payload)

\* session keys the device derives (1.1 when OptNeg, otherwise 1.0 with the single root key)
DeviceKeys(r, optneg) ==
  IF optneg THEN [FNwkSIntKey |-> SKey11(r.nwkkey, 1, r.jn3, Rev(r.joineui), DevNonce2(r)),
                  AppSKey |-> SKey11(r.appkey, 2, r.jn3, Rev(r.joineui), DevNonce2(r)),
                  SNwkSIntKey |-> SKey11(r.nwkkey, 3, r.jn3, Rev(r.joineui), DevNonce2(r)),
                  NwkSEncKey |-> SKey11(r.nwkkey, 4, r.jn3, Rev(r.joineui), DevNonce2(r))]
  ELSE [NwkSKey |-> SKey10(r.nwkkey, 1, r.jn3, Rev(r.netid), DevNonce2(r)),
        AppSKey |-> SKey10(r.nwkkey, 2, r.jn3, Rev(r.netid), DevNonce2(r))]
\* signature of a known deviation (known_findings.json, rejoin-keys-1.0-derivation): the four 1.1 key names
\* filled with the LoRaWAN 1.0 derivation (NetID block, NwkKey as the only root key)
Keys10Style(r) == [FNwkSIntKey |-> SKey10(r.nwkkey, 1, r.jn3, Rev(r.netid), DevNonce2(r)),
                   AppSKey |-> SKey10(r.nwkkey, 2, r.jn3, Rev(r.netid), DevNonce2(r)),
                   SNwkSIntKey |-> SKey10(r.nwkkey, 3, r.jn3, Rev(r.netid), DevNonce2(r)),
                   NwkSEncKey |-> SKey10(r.nwkkey, 4, r.jn3, Rev(r.netid), DevNonce2(r))]
====
