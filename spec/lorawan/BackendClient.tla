---- MODULE BackendClient ----
(* Backend Interfaces client (package backend, client.go): what a request method stamps on the
   caller's payload, how the request travels, and how the answer becomes the method's result.
   Written from the Backend Interfaces 1.0 text (sec. 17-20: every request carries ProtocolVersion,
   SenderID, ReceiverID, TransactionID, MessageType; the answer carries the same TransactionID, the
   IDs swapped, the matching *Ans type and a Result) and from the behaviour the code documents. *)
EXTENDS Integers, Sequences

RequestMethods == {"JoinReq", "RejoinReq", "PRStartReq", "PRStopReq", "XmitDataReq", "ProfileReq", "HomeNSReq"}
AnsType(m) == CASE m = "JoinReq" -> "JoinAns" [] m = "RejoinReq" -> "RejoinAns" [] m = "PRStartReq" -> "PRStartAns"
                [] m = "PRStopReq" -> "PRStopAns" [] m = "XmitDataReq" -> "XmitDataAns" [] m = "ProfileReq" -> "ProfileAns"
                [] m = "HomeNSReq" -> "HomeNSAns"
ProtocolVersion == "1.0"

\* the base payload the peer must see for a call of `method` by a client configured with (sender, receiver);
\* a TransactionID of zero asks the client to draw one
Stamped(cfg, method, giventx, givenzero, seen) ==
  /\ seen.pv = ProtocolVersion /\ seen.sender = cfg.sender /\ seen.receiver = cfg.receiver /\ seen.msgtype = method
  /\ (~givenzero => seen.txid = giventx)

\* transport: one HTTP POST of a JSON document, with the configured Authorization header (absent when not configured)
Transport(cfg, seen) == seen.http = "POST" /\ seen.auth = cfg.auth

\* the peer's reply as the scripted server produced it
Decodable(script) == script.mode \notin {"garbage", "empty"}
\* a request method fails exactly when the reply is not a JSON answer or its ResultCode is not Success
\* (the HTTP status of a reply that carries a well-formed answer is not looked at by the sync client: DON'T-CARE)
MustFail(script) == ~Decodable(script) \/ script.code # "Success"
MustSucceed(script) == Decodable(script) /\ script.code = "Success" /\ script.mode # "status500"
====
