---- MODULE ChannelPlan ----
(* Channel plan of a band instance and the LinkADRReq channel-mask semantics (LoRaWAN 1.1 sec. 5.2
   and the Regional Parameters' ChMaskCntl tables), independent of the library's planner.
   A plan is a sequence of channels [f, min, max, en, cu]; channel index = position - 1. *)
EXTENDS Integers, Sequences, SequencesExt, FiniteSets, TLC

ZeroF == [q |-> 0, r |-> 0]
AddCh(chans, f, mn, mx) == Append(chans, [f |-> f, min |-> mn, max |-> mx, en |-> f # ZeroF, cu |-> TRUE])
ValidIndex(chans, i) == i >= 0 /\ i < Len(chans)
SetEn(chans, i, v) == [chans EXCEPT ![i + 1].en = v]

IndicesWhere(chans, P(_)) == SelectSeq([i \in 1..Len(chans) |-> i - 1], LAMBDA j : P(chans[j + 1]))
All(chans) == [i \in 1..Len(chans) |-> i - 1]
Std(chans) == IndicesWhere(chans, LAMBDA c : ~c.cu)
Custom(chans) == IndicesWhere(chans, LAMBDA c : c.cu)
Enabled(chans) == IndicesWhere(chans, LAMBDA c : c.en)
Disabled(chans) == IndicesWhere(chans, LAMBDA c : ~c.en)
SetOf(s) == {s[i] : i \in 1..Len(s)}
EnabledDRs(chans) == UNION {chans[i].min..chans[i].max : i \in 1..Len(chans)}

\* ---- CFList offered to joining devices -----------------------------------------------------------------
\* dynamic-channel regions: the first five custom channels that use the CFList data-rate range, in order
CFListChannels(chans, cfmin, cfmax) ==
  LET el == SelectSeq(chans, LAMBDA c : c.cu /\ c.min = cfmin /\ c.max = cfmax)
      n == IF Len(el) < 5 THEN Len(el) ELSE 5
  IN  [i \in 1..5 |-> IF i <= n THEN el[i].f ELSE ZeroF]
\* fixed-plan regions (since 1.0.3): the enabled flags of all channels in blocks of 16
CFListMasks(chans) ==
  LET nb == (Len(chans) + 15) \div 16 IN
  [b \in 1..nb |-> [i \in 1..16 |-> IF 16 * (b - 1) + i <= Len(chans) /\ chans[16 * (b - 1) + i].en THEN 1 ELSE 0]]

\* ---- LinkADRReq ------------------------------------------------------------------------------------------
\* what the network wants the device to use: enabled channels the device can know
Target(chans, dev) == {i \in 0..(Len(chans) - 1) : chans[i + 1].en /\ (~chans[i + 1].cu \/ i \in dev)}
Invalid == {-1}
\* usLike: US915 / AU915 (ChMaskCntl 6 = all 125 kHz channels on, 7 = all off, ChMask applies to 64..71)
ApplyOne(usLike, n, bs, S, p) ==
  IF S = Invalid THEN Invalid
  ELSE IF usLike /\ p.cntl \in {6, 7} THEN
         LET base == IF p.cntl = 6 THEN S \cup (0..63) ELSE S \ (0..63) IN
         (base \ (64..71)) \cup {64 + i - 1 : i \in {j \in 1..8 : p.mask[j] = 1}}
  ELSE LET lo == bs * p.cntl
           on == {lo + i - 1 : i \in {j \in 1..bs : p.mask[j] = 1}}
       IN  IF \E c \in on : c >= n THEN Invalid
           ELSE (S \ (lo..(lo + bs - 1))) \cup on
Apply(usLike, n, bs, dev, payloads) == FoldLeft(LAMBDA S, p : ApplyOne(usLike, n, bs, S, p), dev, payloads)
Blocks(n, bs) == (n + bs - 1) \div bs

\* ---- reference planner (generic regions): one payload per block that contains a relevant difference ----------
RefPlan(chans, bs, dev) ==
  LET tgt == Target(chans, dev)
      relevant == (dev \ tgt) \cup (tgt \ dev)
      blks == SelectSeq([b \in 1..Blocks(Len(chans), bs) |-> b - 1], LAMBDA b : \E c \in relevant : c \div bs = b)
  IN  [k \in 1..Len(blks) |-> [cntl |-> blks[k], mask |-> [i \in 1..bs |-> IF (bs * blks[k] + i - 1) \in tgt THEN 1 ELSE 0]]]
====
