---- MODULE CryptoGen ----
(* LoRaWAN 1.0.x / 1.1 message integrity and encryption (LoRaWAN 1.1 sec. 4.3.3, 4.4, 6.2.x, with
   the FOpts-encryption erratum: A[4] = 0x01 for FCntUp/NFCntDown, 0x02 for AFCntDown, A[15] = 1),
   generic in the block cipher and MAC so that the same definitions are instantiated with the real
   AES/AES-CMAC (module Crypto) and with injective symbolic terms (module MicSym).
     CMACf(key, msg)   the full MAC            First(x, n)  its first n bytes
     AESf(key, block)  block encryption        AESDf        block decryption
     XorP(data, ks)    XOR of data with a keystream prefix
   32-bit counters are 4-byte little-endian sequences. *)
EXTENDS Integers, Sequences, SequencesExt, Bytes
CONSTANTS CMACf(_, _), AESf(_, _), AESDf(_, _), First(_, _), XorP(_, _), Cat(_, _)

\* ---- data-frame MIC -----------------------------------------------------------------------------
\* dirbyte: 0 uplink, 1 downlink.  devaddrLE = DevAddr as transmitted.  len = Len(msg) mod 256
B0(conf2, dirbyte, devaddrLE, fcnt4, len) ==
  <<73>> \o conf2 \o <<0, 0>> \o <<dirbyte>> \o devaddrLE \o fcnt4 \o <<0, len>>
B1(conf2, txdr, txch, devaddrLE, fcnt4, len) ==
  <<73>> \o conf2 \o <<txdr, txch>> \o <<0>> \o devaddrLE \o fcnt4 \o <<0, len>>

\* ConfFCnt enters only for LoRaWAN 1.1 frames that carry ACK, and only modulo 2^16
Conf2(ver, ack, conf4) == IF ver = 1 /\ ack THEN <<conf4[1], conf4[2]>> ELSE <<0, 0>>

\* uplink: 1.0 -> CMAC(FNwkSIntKey(=NwkSKey), B0|msg)[0..3];  1.1 -> cmacS[0..1] | cmacF[0..1]
MicUp(ver, ack, conf4, txdr, txch, fkey, skey, devaddrLE, fcnt4, msg) ==
  LET len == Len(msg) % 256
      cmacF == CMACf(fkey, B0(<<0, 0>>, 0, devaddrLE, fcnt4, len) \o msg)
      cmacS == CMACf(skey, B1(Conf2(ver, ack, conf4), txdr, txch, devaddrLE, fcnt4, len) \o msg)
  IN  IF ver = 0 THEN First(cmacF, 4) ELSE Cat(First(cmacS, 2), First(cmacF, 2))
MicUpF(fkey, devaddrLE, fcnt4, msg) ==
  First(CMACf(fkey, B0(<<0, 0>>, 0, devaddrLE, fcnt4, Len(msg) % 256) \o msg), 2)
\* downlink: CMAC(SNwkSIntKey(=NwkSKey), B0|msg)[0..3], ConfFCnt in B0 for 1.1 + ACK
MicDown(ver, ack, conf4, key, devaddrLE, fcnt4, msg) ==
  First(CMACf(key, B0(Conf2(ver, ack, conf4), 1, devaddrLE, fcnt4, Len(msg) % 256) \o msg), 4)

\* ---- join MICs ----------------------------------------------------------------------------------
\* join-request / rejoin-request: CMAC(key, MHDR | payload)[0..3]
JoinReqMic(key, msg) == First(CMACf(key, msg), 4)
\* join-accept: 1.0 form over MHDR|payload; OptNeg form prefixes JoinReqType | JoinEUI | DevNonce
JoinAcceptMic(optneg, jrtype, joineuiLE, devnonce2, key, msg) ==
  First(CMACf(key, IF optneg THEN <<jrtype>> \o joineuiLE \o devnonce2 \o msg ELSE msg), 4)

\* ---- payload encryption ------------------------------------------------------------------------------
ABlock(b4, dirbyte, devaddrLE, fcnt4, i) == <<1, 0, 0, 0, b4, dirbyte>> \o devaddrLE \o fcnt4 \o <<0, i>>
NBlocks(n) == (n + 15) \div 16
Keystream(key, b4, dirbyte, devaddrLE, fcnt4, n) ==
  FoldLeft(LAMBDA acc, i : acc \o AESf(key, ABlock(b4, dirbyte, devaddrLE, fcnt4, i)), <<>>, [i \in 1..NBlocks(n) |-> i])
EncFRM(key, dirbyte, devaddrLE, fcnt4, data) ==
  XorP(data, Keystream(key, 0, dirbyte, devaddrLE, fcnt4, Len(data)))
\* FOpts: one block; variant byte 2 = AFCntDown exactly for downlinks with FPort > 0
FOptsVariant(dirbyte, fport) == IF dirbyte = 1 /\ fport # <<>> /\ fport[1] > 0 THEN 2 ELSE 1
EncFOpts(key, variant, dirbyte, devaddrLE, fcnt4, data) ==
  XorP(data, AESf(key, ABlock(variant, dirbyte, devaddrLE, fcnt4, 1)))

\* ---- join-accept encryption: aes128_decrypt in ECB over payload | MIC ---------------------------
EncJoinAccept(key, pt) == FoldLeft(LAMBDA acc, i : acc \o AESDf(key, SubSeq(pt, 16*i - 15, 16*i)), <<>>, [i \in 1..(Len(pt) \div 16) |-> i])
DecJoinAccept(key, ct) == FoldLeft(LAMBDA acc, i : acc \o AESf(key, SubSeq(ct, 16*i - 15, 16*i)), <<>>, [i \in 1..(Len(ct) \div 16) |-> i])

\* ---- key derivation (1.0: sec. 6.2.5 of 1.0.x; 1.1: sec. 6.1.1.3, 6.2.5) ----------------------------
Pad16(s) == s \o Zeros(16 - Len(s))
SKey10(key, typ, joinnonce3, netidLE, devnonce2) == AESf(key, Pad16(<<typ>> \o joinnonce3 \o netidLE \o devnonce2))
SKey11(key, typ, joinnonce3, joineuiLE, devnonce2) == AESf(key, Pad16(<<typ>> \o joinnonce3 \o joineuiLE \o devnonce2))
JSKey(nwkkey, typ, deveuiLE) == AESf(nwkkey, Pad16(<<typ>> \o deveuiLE))
====
