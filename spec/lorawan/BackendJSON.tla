---- MODULE BackendJSON ----
(* LoRaWAN Backend Interfaces 1.0 wire text of the scalar types: frequencies are JSON numbers in MHz,
   percentages JSON numbers as fractions, byte strings hex text, timestamps ISO 8601 / RFC 3339 at
   one-second resolution; key envelopes per RFC 3394 (module KeyWrap).  Text is a sequence of
   character codes; big values are BigNat limbs. *)
EXTENDS Integers, Sequences, SequencesExt, FiniteSets, TLC, Bytes, Text, BigNat, Misc

IsDigit(c) == c >= 48 /\ c <= 57
Bad == <<-1>>
\* value * 10^k of a plain decimal numeral with at most k fraction digits (no sign, no exponent); Bad otherwise
DecimalScaled(t, k) ==
  LET dots == {i \in 1..Len(t) : t[i] = 46}
      ip == IF dots = {} THEN t ELSE SubSeq(t, 1, (CHOOSE i \in dots : TRUE) - 1)
      fp == IF dots = {} THEN <<>> ELSE SubSeq(t, (CHOOSE i \in dots : TRUE) + 1, Len(t))
  IN  IF Cardinality(dots) > 1 \/ ip = <<>> \/ (dots # {} /\ fp = <<>>) \/ Len(fp) > k
         \/ (\E i \in 1..Len(ip) : ~IsDigit(ip[i])) \/ (\E i \in 1..Len(fp) : ~IsDigit(fp[i])) THEN Bad
      ELSE LET digits == ip \o fp \o [i \in 1..(k - Len(fp)) |-> 48] IN
           FoldLeft(LAMBDA acc, i : Add(MulSmall(acc, 10), FromNat(digits[i] - 48)), <<>>, [i \in 1..Len(digits) |-> i])
\* decimal numeral of n / 10^k for a Nat n (< 2^31): shortest form (no trailing zeros, no trailing dot)
Digits(n) == IF n = 0 THEN <<48>> ELSE
             LET D[x \in Nat] == IF x = 0 THEN <<>> ELSE Append(D[x \div 10], 48 + (x % 10)) IN D[n]
PadLeft(s, n) == [i \in 1..(n - Len(s)) |-> 48] \o s
StripZeros(s) == LET nz == {i \in 1..Len(s) : s[i] # 48} IN IF nz = {} THEN <<>> ELSE SubSeq(s, 1, CHOOSE i \in nz : \A j \in nz : j <= i)
ScaledText(n, k) == LET p == 10^k  fr == StripZeros(PadLeft(Digits(n % p), k)) IN
                    Digits(n \div p) \o (IF fr = <<>> \/ n % p = 0 THEN <<>> ELSE <<46>> \o fr)

\* ---- RFC 3339 timestamp "YYYY-MM-DDTHH:MM:SS(Z|+hh:mm|-hh:mm)" -> UTC (days since GPS epoch day, second of day)
Num2(t, i) == (t[i] - 48) * 10 + (t[i + 1] - 48)
ParseTime(t) ==
  IF Len(t) \notin {20, 25} THEN [ok |-> FALSE] ELSE
  LET y == Num2(t, 1) * 100 + Num2(t, 3)   mo == Num2(t, 6)   d == Num2(t, 9)
      h == Num2(t, 12)   mi == Num2(t, 15)   s == Num2(t, 18)
      off == IF Len(t) = 20 THEN 0 ELSE (IF t[20] = 45 THEN -1 ELSE 1) * (Num2(t, 21) * 3600 + Num2(t, 24) * 60)
      shape == t[5] = 45 /\ t[8] = 45 /\ t[11] = 84 /\ t[14] = 58 /\ t[17] = 58 /\ (IF Len(t) = 20 THEN t[20] = 90 ELSE t[20] \in {43, 45} /\ t[23] = 58)
      day == DaysFromCivil(y, mo, d) - EpochDay
      tot == h * 3600 + mi * 60 + s - off
  IN  IF ~shape THEN [ok |-> FALSE]
      ELSE [ok |-> TRUE, d |-> day + (IF tot < 0 THEN -1 ELSE IF tot >= 86400 THEN 1 ELSE 0), s |-> (tot + 86400) % 86400, off |-> off]
====
