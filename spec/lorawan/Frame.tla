---- MODULE Frame ----
(* LoRaWAN 1.0.x / 1.1 PHYPayload wire format (LoRaWAN 1.1 sec. 4 and 6), written from the
   specification.  An abstract frame is a record:
     mtype 0..7, major 0..3, mic <<4 bytes>>, kind
     kind "data":    devaddr <<4 bytes, most significant first>>, fctrl [adr, adrackreq, ack, b4],
                     fcnt <<4 bytes LE>> (32-bit counter; 16 bits travel), fopts items, fport <<>> | <<p>>,
                     frm items.  b4 is FCtrl bit 4 (ClassB on uplinks, FPending on downlinks).
                     An item is [t |-> "cmd", cid, p | raw] or [t |-> "raw", b |-> bytes].
     kind "joinreq": joineui, deveui <<8 bytes MSB first>>, devnonce 0..65535
     kind "joinacc": joinnonce <<4 bytes LE>>, netid <<3>>, devaddr <<4>>, dl [optneg, rx2dr, rx1off],
                     rxdelay, cflist <<>> | <<[type, chans | masks]>>
     kind "rejoin02"/"rejoin1": rjtype, netid | joineui, deveui, rjcount
     kind "raw":     bytes (proprietary MACPayload, or an encrypted join-accept)
   Identifiers are transmitted little-endian, i.e. byte-reversed w.r.t. their MSB-first notation. *)
EXTENDS Integers, Sequences, SequencesExt, TLC, Bytes, MACCommands

Has(r, k) == k \in DOMAIN r
FErr == [err |-> TRUE]
IsErr(x) == Has(x, "err")

DirOf(mtype) == IF mtype \in {0, 2, 4, 6} THEN "up" ELSE "down"
IsDataMType(m) == m \in {2, 3, 4, 5}

MHDRByte(mtype, major) == mtype * 32 + major                      \* bits 7..5 MType, 4..2 RFU, 1..0 Major
FCtrlByte(c, foptslen) == B2N(c.adr) * 128 + B2N(c.adrackreq) * 64 + B2N(c.ack) * 32 + B2N(c.b4) * 16 + foptslen
FCtrlOf(b) == [adr |-> Bit(b, 7), adrackreq |-> Bit(b, 6), ack |-> Bit(b, 5), b4 |-> Bit(b, 4)]

\* ---- items (FOpts / FRMPayload content) ---------------------------------------------------------
ItemCmd(dir, it) == IF Has(it, "raw") THEN [cid |-> it.cid, raw |-> it.raw]
                    ELSE IF it.p = <<>> THEN [cid |-> it.cid, p |-> <<>>]
                    ELSE [cid |-> it.cid, p |-> <<NormVal(dir, it.cid, it.p[1])>>]
ItemRepresentable(dir, it) ==
  IF it.t = "raw" THEN TRUE
  ELSE IF it.t # "cmd" THEN FALSE
  ELSE IF Has(it, "raw") \/ it.p = <<>> THEN TRUE
  ELSE HasPayload(dir, it.cid) /\
       (IF dir = "down" /\ it.cid = 13 THEN DurRepresentable(it.p[1].Time) ELSE Representable(Layout(dir, it.cid), it.p[1]))
ItemBytes(dir, it) == IF it.t = "raw" THEN it.b ELSE EncodeCmd(dir, ItemCmd(dir, it))
ItemsBytes(dir, items) == Concat([i \in 1..Len(items) |-> ItemBytes(dir, items[i])])
AllCmds(items) == \A i \in 1..Len(items) : items[i].t = "cmd"
AnyCmd(items) == \E i \in 1..Len(items) : items[i].t = "cmd"

\* items (as decoded by a receiver) carry exactly the command stream `bytes`: framing by the
\* specification's payload sizes, typed payloads equal the specification's decoding (RFU ignored)
ItemCarries(dir, it, c) ==
  /\ it.t = "cmd" /\ it.cid = c.cid
  /\ IF Has(it, "raw") THEN it.raw = c.raw
     ELSE IF it.p = <<>> THEN c.raw = <<>>
     ELSE /\ HasPayload(dir, it.cid) /\ Len(c.raw) = Size(dir, it.cid)
          /\ LET exp == DecodeLayout(Layout(dir, it.cid), c.raw) IN
               it.p[1] = (IF dir = "down" /\ it.cid = 13 THEN [Time |-> FieldsToDur(exp)] ELSE exp)
StreamDecodable(dir, bytes) == DecodeStreamRaw(<<>>, dir, bytes).ok
ItemsCarry(dir, items, bytes) ==
  LET d == DecodeStreamRaw(<<>>, dir, bytes) IN
  d.ok /\ Len(items) = Len(d.cmds) /\ \A i \in 1..Len(items) : ItemCarries(dir, items[i], d.cmds[i])

\* ---- CFList (LoRaWAN 1.1 sec. 6.2.3 / Regional Parameters: type 0 = five 24-bit frequencies in
\*      100 Hz units, type 1 = up to six 16-bit channel masks + RFU) ------------------------------
CFListRepresentable(cf) ==
  IF cf.type = 0 THEN \A i \in 1..5 : cf.chans[i].r = 0 /\ cf.chans[i].q < 16777216
  ELSE IF cf.type = 1 THEN Len(cf.masks) <= 6
  ELSE FALSE
MaskBytes(m) == LE(FoldLeft(LAMBDA acc, i : acc + m[i] * Pow2(i - 1), 0, [i \in 1..16 |-> i]), 2)
CFListBytes(cf) ==
  IF cf.type = 0 THEN Concat([i \in 1..5 |-> LE(cf.chans[i].q, 3)]) \o <<0>>
  ELSE LET mb == Concat([i \in 1..Len(cf.masks) |-> MaskBytes(cf.masks[i])]) IN mb \o Zeros(15 - Len(mb)) \o <<1>>
ZeroMask == [i \in 1..16 |-> 0]
StripZeroMasks(ms) == LET keep == {i \in 1..Len(ms) : \E j \in i..Len(ms) : ms[j] # ZeroMask} IN SubSeq(ms, 1, Cardinality(keep))
DecodeCFList(b) ==    \* 16 bytes; the wire cannot represent trailing all-zero masks
  IF b[16] = 1 THEN [type |-> 1, masks |-> StripZeroMasks([i \in 1..6 |-> LET x == b[2*i - 1] + 256 * b[2*i] IN [k \in 1..16 |-> (x \div Pow2(k - 1)) % 2]])]
  ELSE [type |-> b[16], chans |-> [i \in 1..5 |-> [q |-> LEVal(SubSeq(b, 3*i - 2, 3*i)), r |-> 0]]]
CanonCFList(cfl) == IF cfl = <<>> THEN <<>>
                    ELSE IF cfl[1].type = 1 THEN <<[type |-> 1, masks |-> StripZeroMasks(cfl[1].masks)]>>
                    ELSE cfl

DLSettingsByte(dl) == B2N(dl.optneg) * 128 + dl.rx1off * 16 + dl.rx2dr

\* ---- spec validity (what a sender may put in a frame) and encoding -------------------------------
DataValid(f) ==
  LET dir == DirOf(f.mtype) IN
  /\ IsDataMType(f.mtype)
  /\ \A i \in 1..Len(f.fopts) : ItemRepresentable(dir, f.fopts[i])
  /\ \A i \in 1..Len(f.frm) : ItemRepresentable(dir, f.frm[i])
  /\ Len(ItemsBytes(dir, f.fopts)) <= 15
  /\ (f.fport = <<>> => f.frm = <<>>)
  /\ (f.fport = <<0>> => f.fopts = <<>>)
  /\ (AnyCmd(f.frm) => f.fport = <<0>>)

SpecValid(f) ==
  CASE f.kind = "data" -> DataValid(f)
    [] f.kind = "joinreq" -> f.mtype = 0
    [] f.kind = "joinacc" -> /\ f.mtype = 1 /\ f.joinnonce[4] = 0 /\ f.rxdelay <= 15
                             /\ f.dl.rx2dr <= 15 /\ f.dl.rx1off <= 7
                             /\ (f.cflist = <<>> \/ CFListRepresentable(f.cflist[1]))
    [] f.kind = "rejoin02" -> f.mtype = 6 /\ f.rjtype \in {0, 2}
    [] f.kind = "rejoin1" -> f.mtype = 6 /\ f.rjtype = 1
    [] f.kind = "raw" -> f.mtype \in {1, 7}
    [] OTHER -> FALSE

MACPayloadBytes(f) ==
  CASE f.kind = "data" ->
         LET dir == DirOf(f.mtype)
             fo == ItemsBytes(dir, f.fopts)
         IN  Rev(f.devaddr) \o <<FCtrlByte(f.fctrl, Len(fo))>> \o <<f.fcnt[1], f.fcnt[2]>> \o fo
             \o (IF f.fport = <<>> THEN <<>> ELSE f.fport \o ItemsBytes(dir, f.frm))
    [] f.kind = "joinreq" -> Rev(f.joineui) \o Rev(f.deveui) \o LE(f.devnonce, 2)
    [] f.kind = "joinacc" -> SubSeq(f.joinnonce, 1, 3) \o Rev(f.netid) \o Rev(f.devaddr) \o <<DLSettingsByte(f.dl)>> \o <<f.rxdelay>>
                             \o (IF f.cflist = <<>> THEN <<>> ELSE CFListBytes(f.cflist[1]))
    [] f.kind = "rejoin02" -> <<f.rjtype>> \o Rev(f.netid) \o Rev(f.deveui) \o LE(f.rjcount, 2)
    [] f.kind = "rejoin1" -> <<f.rjtype>> \o Rev(f.joineui) \o Rev(f.deveui) \o LE(f.rjcount, 2)
    [] f.kind = "raw" -> f.bytes

EncodeFrame(f) == <<MHDRByte(f.mtype, f.major)>> \o MACPayloadBytes(f) \o f.mic

\* ---- decoding (total: a frame or FErr) -------------------------------------------------------------
DecodeJoinAccept(mp) ==     \* decrypted join-accept MACPayload: 12 or 28 bytes; bits 7..4 of the RxDelay byte are RFU (ignored)
  [joinnonce |-> SubSeq(mp, 1, 3) \o <<0>>, netid |-> Rev(SubSeq(mp, 4, 6)), devaddr |-> Rev(SubSeq(mp, 7, 10)),
   dl |-> [optneg |-> Bit(mp[11], 7), rx1off |-> Bits(mp[11], 4, 3), rx2dr |-> Bits(mp[11], 0, 4)],
   rxdelay |-> mp[12] % 16, cflist |-> IF Len(mp) = 28 THEN <<DecodeCFList(SubSeq(mp, 13, 28))>> ELSE <<>>]

DecodeFrame(b) ==
  IF Len(b) < 5 THEN FErr ELSE
  LET mtype == b[1] \div 32
      major == b[1] % 4
      mp == SubSeq(b, 2, Len(b) - 4)
      hdr == [mtype |-> mtype, major |-> major, mic |-> SubSeq(b, Len(b) - 3, Len(b))]
      n == Len(mp)
  IN  CASE mtype = 0 -> IF n # 18 THEN FErr
                        ELSE hdr @@ [kind |-> "joinreq", joineui |-> Rev(SubSeq(mp, 1, 8)), deveui |-> Rev(SubSeq(mp, 9, 16)),
                                     devnonce |-> mp[17] + 256 * mp[18]]
        [] mtype \in {1, 7} -> hdr @@ [kind |-> "raw", bytes |-> mp]
        [] mtype = 6 -> IF n = 0 THEN FErr
                        ELSE IF mp[1] \in {0, 2} THEN
                               (IF n # 14 THEN FErr
                                ELSE hdr @@ [kind |-> "rejoin02", rjtype |-> mp[1], netid |-> Rev(SubSeq(mp, 2, 4)),
                                             deveui |-> Rev(SubSeq(mp, 5, 12)), rjcount |-> mp[13] + 256 * mp[14]])
                        ELSE IF mp[1] = 1 THEN
                               (IF n # 19 THEN FErr
                                ELSE hdr @@ [kind |-> "rejoin1", rjtype |-> 1, joineui |-> Rev(SubSeq(mp, 2, 9)),
                                             deveui |-> Rev(SubSeq(mp, 10, 17)), rjcount |-> mp[18] + 256 * mp[19]])
                        ELSE FErr
        [] OTHER ->
             IF n < 7 THEN FErr ELSE
             LET fol == mp[5] % 16 IN
             IF n < 7 + fol THEN FErr ELSE
             LET hasport == n > 7 + fol
                 port == IF hasport THEN <<mp[8 + fol]>> ELSE <<>>
                 frmb == SubSeq(mp, 9 + fol, n)
             IN  IF port = <<0>> /\ fol > 0 THEN FErr        \* FOpts and port 0 are mutually exclusive
                 ELSE hdr @@ [kind |-> "data", devaddr |-> Rev(SubSeq(mp, 1, 4)), fctrl |-> FCtrlOf(mp[5]),
                              fcnt |-> <<mp[6], mp[7], 0, 0>>,
                              fopts |-> IF fol = 0 THEN <<>> ELSE <<[t |-> "raw", b |-> SubSeq(mp, 8, 7 + fol)]>>,
                              fport |-> port,
                              frm |-> IF frmb = <<>> THEN <<>> ELSE <<[t |-> "raw", b |-> frmb]>>]

\* the three RFU bits of the MHDR
MHDRRFUZero(b) == Len(b) >= 1 /\ (b[1] \div 4) % 8 = 0

\* canonical form of a data frame's carried content: raw bytes per region
RawItems(dir, items) == LET bb == ItemsBytes(dir, items) IN IF bb = <<>> THEN <<>> ELSE <<[t |-> "raw", b |-> bb]>>
\* what the decoder must return for a spec-valid frame value f (FCnt modulo 2^16, content as bytes)
WireImage(f) ==
  IF f.kind = "data" THEN [f EXCEPT !.fcnt = <<f.fcnt[1], f.fcnt[2], 0, 0>>,
                                    !.fopts = RawItems(DirOf(f.mtype), f.fopts),
                                    !.frm = RawItems(DirOf(f.mtype), f.frm)]
  ELSE IF f.kind = "joinacc" THEN [mtype |-> f.mtype, major |-> f.major, mic |-> f.mic, kind |-> "raw", bytes |-> MACPayloadBytes(f)]
  ELSE f
====
