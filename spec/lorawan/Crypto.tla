---- MODULE Crypto ----
(* CryptoGen instantiated with the real primitives (FIPS-197 AES, RFC 4493 AES-CMAC written in
   TLA+, spec/base). *)
EXTENDS Integers, Sequences, SequencesExt, Bytes, AES, CMAC
INSTANCE CryptoGen WITH CMACf <- CMAC, AESf <- AESEnc, AESDf <- AESDec, First <- Take, XorP <- XorPrefix, Cat <- \o
====
