---- MODULE JsonView ----
(* The JSON document of a frame (PHYPayload.MarshalJSON): what frame logs, debuggers and the gRPC/REST APIs built on
   the library show.  Extended coverage - no listed property speaks about it.  The member names are the library's
   public JSON interface (struct tags); the VALUES are determined by the frame: enumeration members by the names of
   the LoRaWAN specification (MType, Major "LoRaWANR1", the request / indication name of a CID), identifiers as the
   hex text of their MSB-first notation, byte strings in base64, counters and frequencies as numbers, absent optional
   members as null.  A document is modelled as its set of leaves [p: path, k: kind, t: text, v: 8 number bytes LE].
   The members below "payload" of a standard MAC command are NOT modelled (29 layouts): only their presence is. *)
EXTENDS Integers, Sequences, SequencesExt, FiniteSets, TLC, Bytes, MACCommands, Frame

HexCh == <<"0", "1", "2", "3", "4", "5", "6", "7", "8", "9", "a", "b", "c", "d", "e", "f">>
HexStr(b) == FoldLeft(LAMBDA acc, x : acc \o HexCh[(x \div 16) + 1] \o HexCh[(x % 16) + 1], "", b)
B64A == <<"A", "B", "C", "D", "E", "F", "G", "H", "I", "J", "K", "L", "M", "N", "O", "P", "Q", "R", "S", "T", "U", "V", "W", "X", "Y", "Z",
          "a", "b", "c", "d", "e", "f", "g", "h", "i", "j", "k", "l", "m", "n", "o", "p", "q", "r", "s", "t", "u", "v", "w", "x", "y", "z",
          "0", "1", "2", "3", "4", "5", "6", "7", "8", "9", "+", "/">>
B64S(i) == B64A[i + 1]
B64Str(b) ==
  LET n == Len(b)
      full == n \div 3
      grp(i) == LET x == b[3*i - 2] * 65536 + b[3*i - 1] * 256 + b[3*i]
                IN  B64S(x \div 262144) \o B64S((x \div 4096) % 64) \o B64S((x \div 64) % 64) \o B64S(x % 64)
      tailp == IF n % 3 = 1 THEN LET x == b[n] * 16 IN B64S(x \div 64) \o B64S(x % 64) \o "=="
               ELSE IF n % 3 = 2 THEN LET x == (b[n - 1] * 256 + b[n]) * 4
                                      IN B64S(x \div 4096) \o B64S((x \div 64) % 64) \o B64S(x % 64) \o "="
               ELSE ""
  IN  FoldLeft(LAMBDA acc, i : acc \o grp(i), "", [i \in 1..full |-> i]) \o tailp
ASSUME B64Str(<<102, 111, 111, 98, 97, 114>>) = "Zm9vYmFy" /\ B64Str(<<102, 111>>) = "Zm8=" /\ B64Str(<<102>>) = "Zg==" /\ B64Str(<<>>) = ""
ASSUME HexStr(<<0, 171, 255>>) = "00abff"

MTypeName(m) == <<"JoinRequest", "JoinAccept", "UnconfirmedDataUp", "UnconfirmedDataDown", "ConfirmedDataUp", "ConfirmedDataDown",
                  "RejoinRequest", "Proprietary">>[m + 1]
MajorName(j) == IF j = 0 THEN "LoRaWANR1" ELSE "Major(" \o ToString(j) \o ")"
\* a CID is shown under the name of its request / indication (one value serves both directions)
ReqNames == <<"ResetInd", "LinkCheckReq", "LinkADRReq", "DutyCycleReq", "RXParamSetupReq", "DevStatusReq", "NewChannelReq",
              "RXTimingSetupReq", "TXParamSetupReq", "DLChannelReq", "RekeyInd", "ADRParamSetupReq", "DeviceTimeReq",
              "ForceRejoinReq", "RejoinParamSetupReq", "PingSlotInfoReq", "PingSlotChannelReq">>
CIDJsonName(cid) == IF cid >= 1 /\ cid <= 17 THEN ReqNames[cid]
                    ELSE IF cid = 19 THEN "BeaconFreqReq" ELSE IF cid = 32 THEN "DeviceModeInd"
                    ELSE "CID(" \o ToString(cid) \o ")"

Leaf(p, k, t, v) == [p |-> p, k |-> k, t |-> t, v |-> v]
S(p, t) == Leaf(p, "s", t, <<>>)
N8(p, bytes) == Leaf(p, "n", "", bytes \o Zeros(8 - Len(bytes)))
B(p, b) == Leaf(p, "b", IF b THEN "true" ELSE "false", <<>>)
Null(p) == Leaf(p, "null", "", <<>>)

IsStdCmd(it) == it.t = "cmd" /\ ~Has(it, "raw") /\ it.p # <<>>
ItemLeaves(p, it) ==
  IF it.t = "raw" THEN {S(p \o <<"bytes">>, B64Str(it.b))}
  ELSE {S(p \o <<"cid">>, CIDJsonName(it.cid))}
       \cup (IF Has(it, "raw") THEN {S(p \o <<"payload", "bytes">>, B64Str(it.raw))}
             ELSE IF it.p = <<>> THEN {Null(p \o <<"payload">>)} ELSE {})
ItemsLeaves(p, items) == IF items = <<>> THEN {Null(p)}
                         ELSE UNION {ItemLeaves(p \o <<ToString(i - 1)>>, items[i]) : i \in 1..Len(items)}
ItemsOpaque(p, items) == {p \o <<ToString(i - 1), "payload">> : i \in {j \in 1..Len(items) : IsStdCmd(items[j])}}

MP == <<"macPayload">>
CFListLeaves(cfl) ==
  LET p == MP \o <<"cFlist">> IN
  IF cfl = <<>> THEN {Null(p)} ELSE
  LET cf == cfl[1] IN
  {N8(p \o <<"cFListType">>, LE(cf.type, 1))}
  \cup (IF Has(cf, "chans") THEN {N8(p \o <<"payload", "Channels", ToString(i - 1)>>, LE(cf.chans[i].q * 100 + cf.chans[i].r, 4)) : i \in 1..5}
        ELSE IF cf.masks = <<>> THEN {Null(p \o <<"payload", "ChannelMasks">>)}
        ELSE {B(p \o <<"payload", "ChannelMasks", ToString(i - 1), ToString(k - 1)>>, cf.masks[i][k] = 1) : i \in 1..Len(cf.masks), k \in 1..16})

BodyLeaves(f) ==
  CASE f.kind = "data" ->
         LET dir == DirOf(f.mtype)  h == MP \o <<"fhdr">>  c == h \o <<"fCtrl">> IN
         {S(h \o <<"devAddr">>, HexStr(f.devaddr)), B(c \o <<"adr">>, f.fctrl.adr), B(c \o <<"adrAckReq">>, f.fctrl.adrackreq),
          B(c \o <<"ack">>, f.fctrl.ack), B(c \o <<"fPending">>, dir = "down" /\ f.fctrl.b4), B(c \o <<"classB">>, dir = "up" /\ f.fctrl.b4),
          N8(h \o <<"fCnt">>, f.fcnt),
          IF f.fport = <<>> THEN Null(MP \o <<"fPort">>) ELSE N8(MP \o <<"fPort">>, LE(f.fport[1], 1))}
         \cup ItemsLeaves(h \o <<"fOpts">>, f.fopts) \cup ItemsLeaves(MP \o <<"frmPayload">>, f.frm)
    [] f.kind = "joinreq" -> {S(MP \o <<"joinEUI">>, HexStr(f.joineui)), S(MP \o <<"devEUI">>, HexStr(f.deveui)), N8(MP \o <<"devNonce">>, LE(f.devnonce, 2))}
    [] f.kind = "joinacc" -> {N8(MP \o <<"joinNonce">>, f.joinnonce), S(MP \o <<"homeNetID">>, HexStr(f.netid)), S(MP \o <<"devAddr">>, HexStr(f.devaddr)),
                              S(MP \o <<"dlSettings">>, HexStr(<<DLSettingsByte(f.dl)>>)), N8(MP \o <<"rxDelay">>, LE(f.rxdelay, 1))}
                             \cup CFListLeaves(f.cflist)
    [] f.kind = "rejoin02" -> {N8(MP \o <<"rejoinType">>, LE(f.rjtype, 1)), S(MP \o <<"netID">>, HexStr(f.netid)), S(MP \o <<"devEUI">>, HexStr(f.deveui)),
                               N8(MP \o <<"rjCount0">>, LE(f.rjcount, 2))}
    [] f.kind = "rejoin1" -> {N8(MP \o <<"rejoinRequest">>, LE(f.rjtype, 1)), S(MP \o <<"joinEUI">>, HexStr(f.joineui)), S(MP \o <<"devEUI">>, HexStr(f.deveui)),
                              N8(MP \o <<"rjCount1">>, LE(f.rjcount, 2))}
    [] f.kind = "raw" -> {S(MP \o <<"bytes">>, B64Str(f.bytes))}
    [] f.kind = "nil" -> {Null(MP)}
Opaque(f) == IF f.kind = "data" THEN ItemsOpaque(MP \o <<"fhdr", "fOpts">>, f.fopts) \cup ItemsOpaque(MP \o <<"frmPayload">>, f.frm) ELSE {}
View(f) == {S(<<"mhdr", "mType">>, MTypeName(f.mtype)), S(<<"mhdr", "major">>, MajorName(f.major)), S(<<"mic">>, HexStr(f.mic))} \cup BodyLeaves(f)

\* representation choices of the writer that carry no information: [] / {} for null, null for an empty byte string
Canon(l) == IF l.k = "empty" THEN Null(l.p)
            ELSE IF l.k = "null" /\ l.p # <<>> /\ l.p[Len(l.p)] = "bytes" THEN S(l.p, "")
            ELSE l
ViewOK(f, leaves) ==
  LET act == {Canon(leaves[i]) : i \in 1..Len(leaves)}
      op == Opaque(f)
      under(l) == \E o \in op : IsPrefix(o, l.p)
  IN  /\ {l \in act : ~under(l)} = View(f)
      /\ \A o \in op : \E l \in act : IsPrefix(o, l.p) /\ l.k # "null"
====
