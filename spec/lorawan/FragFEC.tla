---- MODULE FragFEC ----
(* TS004-1.0.0 Fragmented Data Block Transport, forward error correction: the pseudo-random parity
   matrix (prbs23, matrix_line of the reference pseudo-code), the systematic encoder, and an
   independent decoder (Gaussian elimination over GF(2)).
   Loops with data-dependent termination are LET-local recursive FUNCTIONS (arguments are values). *)
EXTENDS Integers, Sequences, SequencesExt, FiniteSets, TLC, Bitwise, Bytes

Prbs23(x) == LET b0 == x % 2  b1 == (x \div 32) % 2 IN (x \div 2) + ((b0 + b1) % 2) * 4194304
IsPow2(m) == m \in {1, 2, 4, 8, 16, 32, 64, 128, 256, 512, 1024, 2048, 4096, 8192, 16384}    \* NbFrag is a 14-bit field

\* set of data-fragment indices (1-based) that parity fragment n (n >= 1) of an M-fragment block combines
MatrixLine(n, m) ==
  LET mm == IF IsPow2(m) THEN 1 ELSE 0
      Draw[x \in Nat] == LET y == Prbs23(x)  r == y % (m + mm) IN IF r >= m THEN Draw[y] ELSE <<y, r>>
      st == FoldLeft(LAMBDA acc, k : LET d == Draw[acc[1]] IN <<d[1], acc[2] \cup {d[2] + 1}>>,
                     <<1 + 1001 * n, {}>>, [k \in 1..(m \div 2) |-> k])
  IN  st[2]

Fragments(data, size) == [i \in 1..(Len(data) \div size) |-> SubSeq(data, size * (i - 1) + 1, size * i)]
XorRows(rows, S, size) == FoldLeft(LAMBDA acc, i : IF i \in S THEN XorSeq(acc, rows[i]) ELSE acc, Zeros(size), [i \in 1..Len(rows) |-> i])
Encode(data, size, red) ==
  LET fr == Fragments(data, size)  m == Len(fr) IN
  fr \o [y \in 1..red |-> XorRows(fr, MatrixLine(y, m), size)]

\* selection vector of coded fragment j (1..M data, M+1.. parity)
SelVec(j, m) == IF j <= m THEN {j} ELSE MatrixLine(j - m, m)
SetXor(a, b) == (a \ b) \cup (b \ a)

\* Gaussian elimination over GF(2).  rows: sequence of [sel, val]; returns [ok, data] where data[i] is
\* the value of data fragment i.  XorV is the value XOR (bytes, or symmetric difference for symbolic values).
Eliminate(rows, m, XorV(_, _)) ==
  LET step(st, col) ==
        IF ~st.ok THEN st
        ELSE LET cand == {i \in 1..Len(st.rows) : i \notin st.used /\ col \in st.rows[i].sel} IN
             IF cand = {} THEN [st EXCEPT !.ok = FALSE]
             ELSE LET p == CHOOSE i \in cand : \A j \in cand : i <= j
                      pr == st.rows[p]
                  IN  [ok |-> TRUE, used |-> st.used \cup {p}, piv |-> st.piv @@ (col :> p),
                       rows |-> [i \in 1..Len(st.rows) |->
                                   IF i # p /\ col \in st.rows[i].sel
                                     THEN [sel |-> SetXor(st.rows[i].sel, pr.sel), val |-> XorV(st.rows[i].val, pr.val)]
                                     ELSE st.rows[i]]]
      fin == FoldLeft(step, [ok |-> TRUE, used |-> {}, piv |-> <<>>, rows |-> rows], [c \in 1..m |-> c])
  IN  IF ~fin.ok THEN [ok |-> FALSE, data |-> <<>>]
      ELSE [ok |-> TRUE, data |-> [c \in 1..m |-> fin.rows[fin.piv[c]].val]]
====
