---- MODULE Misc ----
(* GPS <-> UTC conversion (published leap-second list, IERS Bulletin C), LoRa time on air (Semtech
   AN1200.13 / LoRa design guide formula) and the TXParamSetupReq EIRP coding (LoRaWAN 1.1 sec. 5.8).
   Instants and durations are (d, s, ns) triples: whole days, seconds of day, nanoseconds; the UTC
   day count starts at the GPS epoch 1980-01-06. *)
EXTENDS Integers, Sequences, SequencesExt, FiniteSets, TLC, BigNat

\* ---- calendar --------------------------------------------------------------------------------------
\* days from 0000-03-01 style civil-to-days (proleptic Gregorian), y >= 1
DaysFromCivil(y, m, d) ==
  LET yy == IF m <= 2 THEN y - 1 ELSE y
      era == yy \div 400
      yoe == yy - era * 400
      mp == (m + 9) % 12
      doy == (153 * mp + 2) \div 5 + d - 1
      doe == yoe * 365 + yoe \div 4 - yoe \div 100 + doy
  IN  era * 146097 + doe
EpochDay == DaysFromCivil(1980, 1, 6)
\* UTC days (since the GPS epoch) that end with an inserted leap second 23:59:60
LeapDates == << <<1981, 6, 30>>, <<1982, 6, 30>>, <<1983, 6, 30>>, <<1985, 6, 30>>, <<1987, 12, 31>>, <<1989, 12, 31>>,
                <<1990, 12, 31>>, <<1992, 6, 30>>, <<1993, 6, 30>>, <<1994, 6, 30>>, <<1995, 12, 31>>, <<1997, 6, 30>>,
                <<1998, 12, 31>>, <<2005, 12, 31>>, <<2008, 12, 31>>, <<2012, 6, 30>>, <<2015, 6, 30>>, <<2016, 12, 31>> >>
LeapDay(i) == DaysFromCivil(LeapDates[i][1], LeapDates[i][2], LeapDates[i][3]) - EpochDay
NLeaps == Len(LeapDates)
\* GPS - UTC offset (seconds, relative to the epoch) at a UTC instant: leap seconds already inserted
LeapCount(d) == Cardinality({i \in 1..NLeaps : d > LeapDay(i)})
NormT(d, s, ns) == [d |-> d + s \div 86400, s |-> s % 86400, ns |-> ns]
ToGPS(t) == NormT(t.d, t.s + LeapCount(t.d), t.ns)
\* the leap second i occupies GPS [ (LeapDay(i)+1, i-1), (LeapDay(i)+1, i) )
InsideLeap(g) == \E i \in 1..NLeaps : g.d = LeapDay(i) + 1 /\ g.s = i - 1
After(g, d, s) == g.d > d \/ (g.d = d /\ g.s >= s)
FromGPS(g) == LET k == Cardinality({i \in 1..NLeaps : After(g, LeapDay(i) + 1, i)})
                  tot == g.s - k
              IN  IF tot >= 0 THEN [d |-> g.d, s |-> tot, ns |-> g.ns] ELSE [d |-> g.d - 1, s |-> tot + 86400, ns |-> g.ns]
TLess(a, b) == a.d < b.d \/ (a.d = b.d /\ (a.s < b.s \/ (a.s = b.s /\ a.ns < b.ns)))

\* ---- LoRa time on air --------------------------------------------------------------------------------
\* payload symbols: 8 + max(ceil((8PL - 4SF + 28 + 16 - 20H) / (4(SF - 2DE))) (CR + 4), 0), H = 0 with header
PayloadSymbols(pl, sf, cr, header, ldro) ==
  LET a == 8 * pl - 4 * sf + 28 + 16 - (IF header THEN 0 ELSE 20)
      b == 4 * (sf - (IF ldro THEN 2 ELSE 0))
  IN  8 + (IF a > 0 THEN ((a + b - 1) \div b) * (cr + 4) ELSE 0)
\* exact time on air in ns = (100 (pre + nsym) + 425) * 2^SF * 10^4 / BW[kHz]  -- numerator as BigNat
AirNumerator(pre, nsym, sf) == ShiftLimbs(MulSmall(FromNat(100 * (pre + nsym) + 425), 2^sf), 1)

\* ---- TXParamSetupReq EIRP coding ----------------------------------------------------------------------
EIRPTable == <<8, 10, 12, 13, 14, 16, 18, 20, 21, 24, 26, 27, 29, 30, 33, 36>>
\* largest entry not exceeding the power (floor of the power in dBm suffices: the entries are integers)
EIRPIndex(fl) == LET ok == {i \in 1..16 : EIRPTable[i] <= fl} IN IF ok = {} THEN 0 ELSE (CHOOSE i \in ok : \A j \in ok : j <= i) - 1
====
