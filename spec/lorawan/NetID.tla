---- MODULE NetID ----
(* LoRaWAN addressing (LoRaWAN 1.1 sec. 6.1.1, Backend Interfaces 1.0 sec. 13): NetID types and the
   DevAddr = AddrPrefix | NwkAddr structure, on bit sequences (most significant bit first).
     NetID (24 bits)  = Type (3 bits) | ID, the ID using the low 6/6/9/21/21/21/21/21 bits by type
     DevAddr (32 bits) = type prefix (type ones then a zero, length type+1) | NwkID | NwkAddr
     NwkID = the least-significant 6/6/9/11/12/13/15/17 bits of the NetID's ID *)
EXTENDS Integers, Sequences, SequencesExt, FiniteSets, TLC, Bytes

IDBits == <<6, 6, 9, 21, 21, 21, 21, 21>>
NwkIDBits == <<6, 6, 9, 11, 12, 13, 15, 17>>
TypeOf(netid) == netid[1] \div 32                       \* top three bits
PrefixLen(t) == t + 1
Prefix(t) == [i \in 1..(t + 1) |-> IF i <= t THEN 1 ELSE 0]
LowBits(bits, n) == SubSeq(bits, Len(bits) - n + 1, Len(bits))
IDOf(netid) == LowBits(BitsOf(netid), IDBits[TypeOf(netid) + 1])
NwkIDOf(netid) == LowBits(BitsOf(netid), NwkIDBits[TypeOf(netid) + 1])

\* address with the NetID's prefix and NwkID, NwkAddr bits untouched
SetPrefix(addr, netid) ==
  LET t == TypeOf(netid)  pl == PrefixLen(t)  nb == NwkIDBits[t + 1]  a == BitsOf(addr)
  IN  BytesOfBits(Prefix(t) \o NwkIDOf(netid) \o SubSeq(a, pl + nb + 1, 32))
\* membership: the address carries that type prefix and NwkID
IsNetID(addr, netid) ==
  LET t == TypeOf(netid)  pl == PrefixLen(t)  nb == NwkIDBits[t + 1]  a == BitsOf(addr)
  IN  SubSeq(a, 1, pl) = Prefix(t) /\ SubSeq(a, pl + 1, pl + nb) = NwkIDOf(netid)
\* type of an address: number of leading ones (an address of 8 ones has no type: -1)
AddrType(addr) == LET a == BitsOf(addr) IN
                  IF \A i \in 1..8 : a[i] = 1 THEN -1 ELSE (CHOOSE i \in 1..8 : a[i] = 0 /\ \A j \in 1..(i - 1) : a[j] = 1) - 1
AddrNwkID(addr) == LET t == AddrType(addr) IN SubSeq(BitsOf(addr), PrefixLen(t) + 1, PrefixLen(t) + NwkIDBits[t + 1])
\* a bit string right-aligned in whole bytes
RightAligned(bits) == LET n == (Len(bits) + 7) \div 8 IN BytesOfBits(Zeros(8 * n - Len(bits)) \o bits)
====
