---- MODULE MACCommands ----
(* Table-driven description of the LoRaWAN 1.0.x / 1.1 MAC-command payloads (LoRaWAN 1.1 sec. 5,
   Class B sec. 14, DeviceModeInd from the 1.0.4/"Class C" addition), written from the
   specification text, not from the Go source.

   A payload layout is a sequence of groups.  A group is n bytes holding one little-endian integer
   that is split into bit fields listed from the least-significant bit upwards.  Field kinds:
     "uint"   unsigned, w bits                       "flag"  one bit, value is a BOOLEAN
     "rfu"    reserved: transmitted as 0, ignored by receivers
     "s6"     6-bit two's complement (DevStatusAns margin -32..31)
     "freq"   24-bit frequency in 100 Hz units; value is [q |-> Hz \div 100, r |-> Hz % 100]
     "freqx"  as "freq", with the 2.4 GHz rule of the Semtech 2.4 GHz physical-layer proposal
              (>= 2.4 GHz is coded in 200 Hz units) - only NewChannelReq
     "chmask" w bits (16 for ChMask), value is a sequence of w 0/1 (element i+1 = bit i)
   Special single-field groups (whole bytes): kind "u32"/"raw" - the n bytes as transmitted (e.g. a 32-bit
   little-endian integer kept as its 4 bytes); "rev" - n bytes transmitted in reverse order (identifiers);
   "u24" - 3 bytes on the wire for a value kept as 4 little-endian bytes whose top byte must be 0.

   `must` is the set of wire values a sender MUST be able to express (the specification's defined
   range); wire values outside `must` but inside the field width are RFU *values* (DON'T-CARE for
   acceptance).  Values that do not fit the width are Unrepresentable. *)
EXTENDS Integers, Sequences, SequencesExt, FiniteSets, TLC, Bytes

F(name, w, kind)        == [name |-> name, w |-> w, kind |-> kind, must |-> 0..(Pow2(w) - 1)]
FM(name, w, kind, must) == [name |-> name, w |-> w, kind |-> kind, must |-> must]
G(n, fields) == [n |-> n, fields |-> fields]
RFU(w) == F("RFU", w, "rfu")

LOCAL VersionG == G(1, <<FM("Minor", 4, "uint", {1}), RFU(4)>>)
LOCAL FreqG(name) == G(3, <<F(name, 24, "freq")>>)
LOCAL AckG(a, b, c) == G(1, <<F(a, 1, "flag"), F(b, 1, "flag"), F(c, 1, "flag"), RFU(5)>>)
LOCAL Ack2G(a, b) == G(1, <<F(a, 1, "flag"), F(b, 1, "flag"), RFU(6)>>)
LOCAL Ack1G(a) == G(1, <<F(a, 1, "flag"), RFU(7)>>)

NoLayout == <<>>

\* dir is "up" or "down"
Layout(dir, cid) ==
  IF dir = "down" THEN
    CASE cid = 1  -> <<VersionG>>                                                       \* ResetConf
      [] cid = 2  -> <<G(1, <<F("Margin", 8, "uint")>>), G(1, <<F("GwCnt", 8, "uint")>>)>>   \* LinkCheckAns
      [] cid = 3  -> <<G(1, <<F("TXPower", 4, "uint"), F("DataRate", 4, "uint")>>),      \* LinkADRReq
                       G(2, <<F("ChMask", 16, "chmask")>>),
                       G(1, <<F("NbRep", 4, "uint"), F("ChMaskCntl", 3, "uint"), RFU(1)>>)>>
      [] cid = 4  -> <<G(1, <<FM("MaxDCycle", 8, "uint", 0..15)>>)>>                     \* DutyCycleReq (4 bits + RFU; 255 legacy) 
      [] cid = 5  -> <<G(1, <<F("RX2DataRate", 4, "uint"), F("RX1DROffset", 3, "uint"), FM("Bit7", 1, "flag", {0})>>),
                       FreqG("Frequency")>>                                             \* RXParamSetupReq
      [] cid = 7  -> <<G(1, <<F("ChIndex", 8, "uint")>>), G(3, <<F("Freq", 24, "freqx")>>),
                       G(1, <<F("MinDR", 4, "uint"), F("MaxDR", 4, "uint")>>)>>          \* NewChannelReq
      [] cid = 8  -> <<G(1, <<F("Delay", 4, "uint"), RFU(4)>>)>>                        \* RXTimingSetupReq
      [] cid = 9  -> <<G(1, <<F("MaxEIRP", 4, "uint"), F("UplinkDwellTime", 1, "uint"),
                              F("DownlinkDwellTime", 1, "uint"), RFU(2)>>)>>             \* TXParamSetupReq
      [] cid = 10 -> <<G(1, <<F("ChIndex", 8, "uint")>>), FreqG("Freq")>>                \* DLChannelReq
      [] cid = 11 -> <<VersionG>>                                                       \* RekeyConf
      [] cid = 12 -> <<G(1, <<F("DelayExp", 4, "uint"), F("LimitExp", 4, "uint")>>)>>    \* ADRParamSetupReq
      [] cid = 13 -> <<G(4, <<FM("Seconds", 32, "u32", {})>>), G(1, <<F("Frac", 8, "uint")>>)>>   \* DeviceTimeAns
      [] cid = 14 -> <<G(2, <<F("DR", 4, "uint"), FM("RejoinType", 3, "uint", {0, 2}), RFU(1),
                              F("MaxRetries", 3, "uint"), F("Period", 3, "uint"), RFU(2)>>)>>  \* ForceRejoinReq
      [] cid = 15 -> <<G(1, <<F("MaxCountN", 4, "uint"), F("MaxTimeN", 4, "uint")>>)>>    \* RejoinParamSetupReq
      [] cid = 17 -> <<FreqG("Frequency"), G(1, <<F("DR", 4, "uint"), RFU(4)>>)>>        \* PingSlotChannelReq
      [] cid = 19 -> <<FreqG("Frequency")>>                                             \* BeaconFreqReq
      [] cid = 32 -> <<G(1, <<FM("Class", 8, "uint", {0, 2})>>)>>                       \* DeviceModeConf
      [] OTHER -> NoLayout
  ELSE
    CASE cid = 1  -> <<VersionG>>                                                       \* ResetInd
      [] cid = 3  -> <<AckG("ChannelMaskACK", "DataRateACK", "PowerACK")>>              \* LinkADRAns
      [] cid = 5  -> <<AckG("ChannelACK", "RX2DataRateACK", "RX1DROffsetACK")>>         \* RXParamSetupAns
      [] cid = 6  -> <<G(1, <<F("Battery", 8, "uint")>>), G(1, <<F("Margin", 6, "s6"), RFU(2)>>)>>  \* DevStatusAns
      [] cid = 7  -> <<Ack2G("ChannelFrequencyOK", "DataRateRangeOK")>>                  \* NewChannelAns
      [] cid = 10 -> <<Ack2G("ChannelFrequencyOK", "UplinkFrequencyExists")>>            \* DLChannelAns
      [] cid = 11 -> <<VersionG>>                                                       \* RekeyInd
      [] cid = 15 -> <<Ack1G("TimeOK")>>                                                \* RejoinParamSetupAns
      [] cid = 16 -> <<G(1, <<F("Periodicity", 3, "uint"), RFU(5)>>)>>                  \* PingSlotInfoReq
      [] cid = 17 -> <<Ack2G("ChannelFrequencyOK", "DataRateOK")>>                       \* PingSlotChannelAns
      [] cid = 19 -> <<Ack1G("BeaconFrequencyOK")>>                                     \* BeaconFreqAns
      [] cid = 32 -> <<G(1, <<FM("Class", 8, "uint", {0, 2})>>)>>                       \* DeviceModeInd
      [] OTHER -> NoLayout

\* CIDs the specification defines without payload
DefinedEmpty(dir, cid) == IF dir = "down" THEN cid \in {6, 16} ELSE cid \in {2, 4, 8, 9, 12, 13}
StdCIDsWithPayload(dir) == IF dir = "down" THEN {1,2,3,4,5,7,8,9,10,11,12,13,14,15,17,19,32}
                           ELSE {1,3,5,6,7,10,11,15,16,17,19,32}
HasPayload(dir, cid) == cid \in StdCIDsWithPayload(dir)

LayoutSize(lay) == FoldLeft(LAMBDA acc, g : acc + g.n, 0, lay)
Size(dir, cid) == IF HasPayload(dir, cid) THEN LayoutSize(Layout(dir, cid)) ELSE 0
\* ---- field level -------------------------------------------------------------------------------
\* wire value of a field value, or -1 when the value does not fit the field (Unrepresentable)
WireVal(f, x) ==
  CASE f.kind = "uint"   -> IF x >= 0 /\ x < Pow2(f.w) THEN x ELSE -1
    [] f.kind = "flag"   -> B2N(x)
    [] f.kind = "rfu"    -> 0
    [] f.kind = "s6"     -> IF x >= -32 /\ x <= 31 THEN (x + 64) % 64 ELSE -1
    [] f.kind = "freq"   -> IF x.r = 0 /\ x.q < 16777216 THEN x.q ELSE -1
    [] f.kind = "freqx"  -> IF x.q >= 24000000
                              THEN (IF x.r = 0 /\ x.q % 2 = 0 /\ x.q \div 2 < 16777216 THEN x.q \div 2 ELSE -1)
                              ELSE (IF x.r = 0 /\ x.q < 12000000 THEN x.q ELSE -1)
    [] f.kind = "chmask" -> FoldLeft(LAMBDA acc, i : acc + x[i] * Pow2(i - 1), 0, [i \in 1..f.w |-> i])

FieldVal(f, wv) ==
  CASE f.kind = "uint"   -> wv
    [] f.kind = "flag"   -> wv = 1
    [] f.kind = "s6"     -> IF wv >= 32 THEN wv - 64 ELSE wv
    [] f.kind = "freq"   -> [q |-> wv, r |-> 0]
    [] f.kind = "freqx"  -> IF wv >= 12000000 THEN [q |-> 2 * wv, r |-> 0] ELSE [q |-> wv, r |-> 0]
    [] f.kind = "chmask" -> [i \in 1..f.w |-> (wv \div Pow2(i - 1)) % 2]

\* The 2.4 GHz rule makes 100-Hz-unit wire values in [12e6, 2^24) ambiguous (1.2-1.68 GHz in
\* 100 Hz units vs 2.4-3.36 GHz in 200 Hz units); the Semtech rule is taken: such frequencies
\* below 2.4 GHz are Unrepresentable in NewChannelReq.

Offsets(fields) == [i \in 1..Len(fields) |->
                      FoldLeft(LAMBDA acc, j : acc + fields[j].w, 0, [j \in 1..(i - 1) |-> j])]

IsU32(g) == g.fields[1].kind \in {"u32", "raw", "rev", "u24"}
RawG(name, n) == G(n, <<FM(name, 0, "raw", {})>>)
RevG(name, n) == G(n, <<FM(name, 0, "rev", {})>>)
U24G(name) == G(3, <<FM(name, 0, "u24", {})>>)
RawWire(g, x) == CASE g.fields[1].kind = "rev" -> Rev(x) [] g.fields[1].kind = "u24" -> SubSeq(x, 1, 3) [] OTHER -> x
RawValue(g, b) == CASE g.fields[1].kind = "rev" -> Rev(b) [] g.fields[1].kind = "u24" -> b \o <<0>> [] OTHER -> b
RawOK(g, x) == IF g.fields[1].kind = "u24" THEN Len(x) = 4 /\ x[4] = 0 ELSE Len(x) = g.n
WidthsOK(lay) == \A i \in 1..Len(lay) : IsU32(lay[i]) \/
                   FoldLeft(LAMBDA acc, f : acc + f.w, 0, lay[i].fields) = 8 * lay[i].n

GroupRepresentable(g, v) ==
  IF IsU32(g) THEN RawOK(g, v[g.fields[1].name])
  ELSE \A i \in 1..Len(g.fields) : g.fields[i].kind = "rfu" \/ WireVal(g.fields[i], v[g.fields[i].name]) # -1

EncodeGroup(g, v) ==
  IF IsU32(g) THEN RawWire(g, v[g.fields[1].name])
  ELSE LET off == Offsets(g.fields)
           total == FoldLeft(LAMBDA acc, i :
                       acc + (IF g.fields[i].kind = "rfu" THEN 0
                              ELSE WireVal(g.fields[i], v[g.fields[i].name]) * Pow2(off[i])),
                       0, [i \in 1..Len(g.fields) |-> i])
       IN  LE(total, g.n)

Representable(lay, v) == \A i \in 1..Len(lay) : GroupRepresentable(lay[i], v)
EncodeLayout(lay, v) == Concat([i \in 1..Len(lay) |-> EncodeGroup(lay[i], v)])

\* sender obligations: every field inside the specification's defined range
InMust(f, x) == f.kind = "rfu" \/ f.kind \in {"u32", "raw", "rev", "u24"} \/ (WireVal(f, x) # -1 /\ (f.kind \notin {"uint"} \/ WireVal(f, x) \in f.must))
MustAccept(lay, v) == \A i \in 1..Len(lay) : \A j \in 1..Len(lay[i].fields) :
                         LET f == lay[i].fields[j] IN f.kind = "rfu" \/ (IF IsU32(lay[i]) THEN RawOK(lay[i], v[f.name]) ELSE InMust(f, v[f.name]))

\* decode: bytes (exactly LayoutSize long) -> record of field values, RFU bits ignored
DecodeLayout(lay, bytes) ==
  LET starts == [i \in 1..Len(lay) |-> FoldLeft(LAMBDA acc, j : acc + lay[j].n, 0, [j \in 1..(i - 1) |-> j])]
      pairs == UNION { IF IsU32(lay[i])
                         THEN {<<lay[i].fields[1].name, RawValue(lay[i], SubSeq(bytes, starts[i] + 1, starts[i] + lay[i].n))>>}
                         ELSE LET g == lay[i]
                                  x == LEVal(SubSeq(bytes, starts[i] + 1, starts[i] + g.n))
                                  off == Offsets(g.fields)
                              IN  { <<g.fields[j].name, FieldVal(g.fields[j], Bits(x, off[j], g.fields[j].w))>>
                                      : j \in {k \in 1..Len(g.fields) : g.fields[k].kind # "rfu"} }
                     : i \in 1..Len(lay) }
  IN  [n \in {p[1] : p \in pairs} |-> (CHOOSE p \in pairs : p[1] = n)[2]]

\* values equal on every field of the layout (a decoded record may be compared with a logged one
\* whose JSON carries the same keys)
SameFields(lay, a, b) == \A i \in 1..Len(lay) : \A j \in 1..Len(lay[i].fields) :
                            LET f == lay[i].fields[j] IN f.kind = "rfu" \/ a[f.name] = b[f.name]

\* ---- DeviceTimeAns: the Go value is a duration {neg, secs (8 bytes LE), ns}; the wire has
\*      Seconds (u32) and Frac (1/256 s, rounded down) - LoRaWAN 1.1 sec. 5.9 ----------------------
IsDTA(e) == e.dir = "down" /\ e.cid = 13
DurRepresentable(t) == ~t.neg /\ SubSeq(t.secs, 5, 8) = <<0, 0, 0, 0>>
DurToFields(t) == [Seconds |-> SubSeq(t.secs, 1, 4), Frac |-> t.ns \div 3906250]
FieldsToDur(v) == [neg |-> FALSE, secs |-> v.Seconds \o <<0, 0, 0, 0>>, ns |-> v.Frac * 3906250]
QuantDur(t) == [neg |-> FALSE, secs |-> t.secs, ns |-> (t.ns \div 3906250) * 3906250]

NormVal(dir, cid, v) == IF dir = "down" /\ cid = 13 /\ "Time" \in DOMAIN v THEN DurToFields(v.Time) ELSE v

\* ---- command level ------------------------------------------------------------------------------
\* a command is [cid |-> n, p |-> <<>> (no payload) | <<value record>> | raw |-> bytes (proprietary)]
\* registry: function from <<dir, cid>> to size for proprietary CIDs (absent = 0)
RegSize(reg, dir, cid) == IF <<dir, cid>> \in DOMAIN reg THEN reg[<<dir, cid>>]
                          ELSE Size(dir, cid)

EncodeCmd(dir, c) ==
  <<c.cid>> \o (IF "raw" \in DOMAIN c THEN c.raw
                ELSE IF c.p = <<>> THEN <<>>
                ELSE EncodeLayout(Layout(dir, c.cid), c.p[1]))
CmdRepresentable(dir, c) ==
  "raw" \in DOMAIN c \/ c.p = <<>> \/ (HasPayload(dir, c.cid) /\ Representable(Layout(dir, c.cid), c.p[1]))
EncodeStream(dir, cmds) == Concat([i \in 1..Len(cmds) |-> EncodeCmd(dir, cmds[i])])

\* Stream decoding with payload sizes from the registry (LoRaWAN 1.1 sec. 5: commands are
\* concatenated, each CID is followed by its fixed-size payload; an unknown CID ends processing -
\* the library instead treats it as a zero-length command, which is what `size 0` models).
\* Result: [ok |-> BOOLEAN, cmds |-> sequence of [cid, raw payload bytes]]
DecodeStreamRaw(reg, dir, bytes) ==
  LET step[i \in 1..(Len(bytes) + 1)] ==
        IF i > Len(bytes) THEN [ok |-> TRUE, cmds |-> <<>>]
        ELSE LET cid == bytes[i]  sz == RegSize(reg, dir, cid) IN
             IF i + sz > Len(bytes) THEN [ok |-> FALSE, cmds |-> <<>>]
             ELSE LET rest == step[i + sz + 1] IN
                  [ok |-> rest.ok, cmds |-> <<[cid |-> cid, raw |-> SubSeq(bytes, i + 1, i + sz)]>> \o rest.cmds]
  IN  step[1]
\* ---- command names of the LoRaWAN specification; the library's API names the payload type of a command <Name>Payload ----
CmdName(dir, cid) ==
  IF dir = "down" THEN
    CASE cid = 1 -> "ResetConf" [] cid = 2 -> "LinkCheckAns" [] cid = 3 -> "LinkADRReq" [] cid = 4 -> "DutyCycleReq"
      [] cid = 5 -> "RXParamSetupReq" [] cid = 7 -> "NewChannelReq" [] cid = 8 -> "RXTimingSetupReq" [] cid = 9 -> "TXParamSetupReq"
      [] cid = 10 -> "DLChannelReq" [] cid = 11 -> "RekeyConf" [] cid = 12 -> "ADRParamSetupReq" [] cid = 13 -> "DeviceTimeAns"
      [] cid = 14 -> "ForceRejoinReq" [] cid = 15 -> "RejoinParamSetupReq" [] cid = 17 -> "PingSlotChannelReq" [] cid = 19 -> "BeaconFreqReq"
      [] cid = 32 -> "DeviceModeConf" [] OTHER -> ""
  ELSE
    CASE cid = 1 -> "ResetInd" [] cid = 3 -> "LinkADRAns" [] cid = 5 -> "RXParamSetupAns" [] cid = 6 -> "DevStatusAns"
      [] cid = 7 -> "NewChannelAns" [] cid = 10 -> "DLChannelAns" [] cid = 11 -> "RekeyInd" [] cid = 15 -> "RejoinParamSetupAns"
      [] cid = 16 -> "PingSlotInfoReq" [] cid = 17 -> "PingSlotChannelAns" [] cid = 19 -> "BeaconFreqAns" [] cid = 32 -> "DeviceModeInd"
      [] OTHER -> ""
PayloadTypeName(dir, cid) == CmdName(dir, cid) \o "Payload"
====
