#!/usr/bin/env python3
"""Regenerates MANIFEST.json from the table below (single source of truth for check registration)."""
import json, os
V = os.path.dirname(os.path.dirname(os.path.abspath(__file__)))
ALL = ["C%02d" % i for i in range(1, 21)]

CHECKS = {
 "C01": dict(
   technique="TLA+ frame-format specification (Frame.tla); TLC enumerates frame shapes (FrameGen), every shape is marshalled/unmarshalled by the real code; TLC validates recorded round-trip traces",
   text="TLC checks on the specification that Decode(Encode(v)) is the wire image of v for every frame shape (4 data MTypes x 16 FCtrl x FOpts length 0..15 x FPort absent/0/1/255 x FRMPayload lengths x join/rejoin/join-accept/CFList/proprietary shapes); each shape and seeded random frame values (valid and deliberately invalid) are run through MarshalBinary/MarshalText/UnmarshalBinary/UnmarshalText/Decode*ToMACCommands/Encrypt+DecryptJoinAccept and every recorded event is validated against the specification's Encode/WireImage/SpecValid.",
   note="Trusted: TLC, Frame.tla/MACCommands.tla transcription of LoRaWAN 1.1 sec. 4-6, projection tables. Invalid values that the encoder accepts are DON'T-CARE.",
   ref="3/C01"),
 "C02": dict(
   technique="LoRaWAN MIC definitions in TLA+ (CryptoGen) instantiated symbolically (TLC: which inputs are authenticated) and with in-TLA+ AES-CMAC (TLC validates every recorded Set*/Validate* call)",
   text="TLC checks on the symbolic instance, for all 8192 parameter records and all single-coordinate variations, that two MIC terms are equal iff exactly the inputs the property lists are equal (ConfFCnt only with ACK on 1.1 and only mod 2^16, full 32-bit FCnt, txDR/txCh/SNwkSIntKey only on 1.1 uplinks). Seeded frames (FOpts/FPort/FRMPayload up to 242 bytes) are MIC'ed by the real code and re-validated under 14 single-parameter perturbations; TLC recomputes every MIC with AES-CMAC written in TLA+ from RFC 4493/FIPS-197 and demands mic = spec value and ok = (carried = spec value).",
   note="Trusted: TLC, in-TLA+ AES/CMAC (published vectors re-checked each run), Frame.tla for the authenticated bytes, projection. Keys/counters are sampled.",
   ref="3/C02"),
 "C03": dict(
   technique="keystream/FOpts-block definitions in TLA+ with in-TLA+ AES; TLC design check of involution/length/variant rule; TLC validation of recorded function and method calls incl. error paths",
   text="TLC checks on the concrete specification (AES in TLA+) length preservation, involution, pairwise-distinct keystream blocks and the AFCntDown variant table; seeded calls of EncryptFRMPayload/EncryptFOpts (functions) and the four PHYPayload methods (also with FOpts > 15 bytes or unmarshalable commands) are recorded with the frame before/after and TLC demands post = Transform(pre) whenever the call reports success.",
   note="Trusted: TLC, in-TLA+ AES, Frame.tla, projection. Keys/addresses/counters sampled; lengths 0..255 incl. every block boundary.",
   ref="3/C03"),
 "C04": dict(
   technique="join MIC / join-accept encryption definitions in TLA+; symbolic TLC check of the OptNeg binding; TLC validation of recorded Set/Validate/Encrypt/Decrypt calls with in-TLA+ AES-CMAC and AES inverse cipher",
   text="TLC checks symbolically which fields enter the 1.0 and OptNeg join-accept MIC (and their byte order) and concretely that decrypt inverts encrypt for 16/32-byte inputs; seeded join-request, rejoin 0/1/2 and join-accept frames (CFList absent/channels/masks, OptNeg both) are MIC'ed, validated under perturbations, encrypted and decrypted by the real code and TLC recomputes MIC, ciphertext (AES inverse cipher in TLA+) and the AES-encrypt relation for every event.",
   note="Trusted: TLC, in-TLA+ AES/AES^-1/CMAC, Frame.tla, projection.",
   ref="3/C04"),
 "C05": dict(
   technique="SecureLink TLA+ state machine (symbolic crypto) explored exhaustively by TLC over all call orders x deviations; maximal behaviours replayed on real PHYPayload values; recorded calls validated with concrete in-TLA+ crypto; all single-bit corruptions",
   text="TLC explores 260k states of the sender|channel|receiver model: every order of the sender calls and of the receiver calls, both directions and versions, ACK, four content layouts, 14 deviations (mismatched key/counter half/MIC parameter, tampered wire component) and proves Recover/Reject/Residue on the model; a seeded sample of the ~93k maximal behaviours is executed call by call on real frames with concrete keys, each call validated by TLC (transform, MIC value, wire format) and the outcome compared with the model's; every single-bit corruption of serialised frames is checked for exact MIC agreement.",
   note="Trusted: TLC, in-TLA+ AES/CMAC, Frame.tla, projection. The symbolic verdict is compared only for receivers that validate before decrypting; known finding: MHDR RFU bits are not authenticated.",
   ref="3/C05"),
 "C06": dict(
   technique="independent table-driven TLA+ wire-format model; TLC-enumerated values and bytes (exhaustive for <=2-byte payloads) executed on the real encoders/decoders; TLC trace validation",
   text="The MAC-command layouts (field order, widths, kinds, RFU rows) and the frame/join/CFList formats are TLA+ tables written from the LoRaWAN text. TLC enumerates all values of <=1-byte (quick) / <=2-byte (thorough) payloads and boundary palettes of longer ones; each is encoded by the real library and each byte string is decoded by it; results must equal the specification's Encode/DecodeBits (RFU ignored). Frame headers, join payloads and CFLists are checked through the FrameGen shapes and byte shapes.",
   note="Trusted: TLC, the TLA+ tables (self-consistency invariants: widths sum to size, Decode o Encode = id), projection tables. DutyCycleReq is treated as one byte (legacy 255).",
   ref="3/C06"),
 "C08": dict(
   technique="TLA+ Decode/Encode of Frame.tla; canonicity is a TLC-checked theorem of the specification over guard-boundary byte shapes, each shape and seeded mutated byte strings replayed on the real decoder/encoder",
   text="TLC shows on the specification that every byte shape it decodes re-encodes identically (8 MTypes x MACPayload length 0..40 x FOptsLen nibble x FPort byte x rejoin type); every shape plus seeded uniform strings and structure-aware mutations of valid frames go through UnmarshalBinary -> MarshalBinary -> UnmarshalBinary on the real code and TLC validates: accepted and MHDR-RFU-zero => re-encoding succeeds and is byte-identical, and decodes again to an equal frame.",
   note="Trusted: TLC, Frame.tla, projection. Coverage-guided fuzzing is not used (DESIGN sec. 4).",
   ref="3/C08"),
 "C09": dict(
   technique="decoders specified as total functions in TLA+; TLC enumerates guard-boundary shapes from the specification's size tables (replayed on ~44 real entry points); recorded outcomes of random/textual/mutated inputs validated by TLC (value or error, input untouched)",
   text="TLC enumerates the shape model of the decoders' guards from the specification's own tables (every application-layer CID x direction x length 0..size+1 with every status-dependent size, every MAC-command CID x direction x 0..6 bytes, CFList/join payload lengths around their fixed sizes, frame shapes around FOptsLen/FPort/MType guards) and checks the specification's decoders are total on them; every shape, plus seeded uniform strings of 0..512 bytes, textual/JSON samples and structure-aware mutations of valid frames, is fed to ~44 real entry points (frame decode binary/base64, decode and decrypt-then-decode with random keys, join-accept decrypt, CFList, MAC commands, four application-layer stream decoders, identifier/backend text and JSON types, key-envelope unwrap) under observe(): outcome must be value or error, the input buffer unchanged, no call exceeding the deadline.",
   note="Trusted: TLC, harness observe(). Totality only; linear time is a per-call deadline; no coverage-guided fuzzing.",
   ref="3/C09"),
 "C10": dict(
   technique="Ownership state machine and RegistryConc lock model in TLA+, exhaustively explored by TLC; model behaviours replayed on real buffers and - with a blocking verification hook as scheduler gate - on the real registry; stateful TLC validation of recorded buffer/value histories, hook-event orders and concurrent results",
   text="TLC explores every operation sequence (<=3/4 ops) of the ownership model over position classes (frame conditions as action properties: overwrite/encode/inspect never change a decoded value, in-place encryption changes only the given cells) and every interleaving of decoders and registrars under the readers-writer lock (LockDiscipline, Linearizable); ownership behaviours and seeded histories run on real backing arrays observed over their full capacity with the model stepped alongside (decode = spec Decode, encode = spec Encode, in-place ciphertext = spec keystream); decode-into-used vs fresh for 29 MAC payloads, CFList, frames, all application-layer payloads and Commands; band instance independence; model interleavings are replayed on the real registry through gated hooks (results must equal the model's), free-running goroutines are recorded (lock observed held at every map access, every lookup linearizable) and concurrent MIC/encrypt/decode results are validated against the sequential specification.",
   note="Trusted: TLC, Frame/Crypto specs, hooks (TryLock probes), harness. Generic Go-memory-model race freedom beyond what hooks/results expose is not claimed.",
   ref="3/C10"),
 "C11": dict(
   technique="NetID/DevAddr addressing rules on bit sequences in TLA+ (NetID.tla); algebraic identities model-checked by TLC; recorded SetAddrPrefix/IsNetID/NwkID/NetIDType/ID results and identifier representations validated by TLC (all 2^24 NetIDs in the thorough tier)",
   text="TLC checks the identities IsNetID(SetPrefix(a,n),n), IsNetID(a,n) <=> SetPrefix(a,n)=a, NwkAddr untouched, type and NwkID preserved, idempotence on the specification for all 8 types x an ID lattice x 4 address patterns; the real SetAddrPrefix, IsNetID (on the input, the result and a one-bit neighbour), NwkID, NetIDType, NetID.Type/ID are recorded for structured+random NetIDs (quick) or all 2^24 NetIDs (thorough) and compared bit for bit with the specification; text/binary/sql representations of EUI64, DevAddr, NetID, AES128Key are checked incl. 0x prefix, upper case and nine kinds of malformed/wrong-length input.",
   note="Trusted: TLC, NetID.tla, Text.tla (hex), projection.",
   ref="3/C11"),
 "C12": dict(
   technique="Regional Parameters rules as TLA+ tables/functions (RegionalParameters.tla), sanity-checked by TLC; every band configuration's tables and accessor results recorded through a read-only hook and validated by TLC (fully enumerated)",
   text="All 24 band names x repeater x dwell-time are instantiated; for each, the hook snapshot (data-rate flags, RX1 table, channels) and the results of GetRX1DataRateIndex for DR -2..16 x offset -2..9, GetRX1ChannelIndex/Frequency for every uplink channel, channel accessors for index -2..n+1 are recorded in one event and TLC checks them against the region's rule (same channel / mod 8 / mod 48, max(DR-offset,floor) or the US915/AU915 tables, AS923/IN865 effective offsets), closedness over downlink data-rates, monotone step<=1, errors for invalid/negative arguments; ping-slot frequencies for seeded DevAddr/beacon times against the fixed/hopping rule.",
   note="Trusted: TLC, the offline transcription of the Regional Parameters (Unknown cells constrain nothing), read-only snapshot hook, projection. Finite space fully enumerated except DevAddr/beacon time.",
   ref="3/C12"),
 "C13": dict(
   technique="TLA+ Regional Parameters tables + structural relations; all configurations x versions x revisions x data-rates enumerated on the real code and validated by TLC",
   text="For every configuration TLC checks on the recorded snapshot and accessor results: every data-rate index handed out (channel ranges, RX1 results and table keys, RX2 default, enabled uplink data-rates) is defined; GetDataRateIndex inverts GetDataRate in each supported direction; (unknown,unknown) and every version/revision string resolve by the latest-fallback rule and every defined data-rate has a latest size; every listed size has M=N+8, N<=242 ((0,0) exempt), repeater<=non-repeater, non-decreasing as SF decreases at equal bandwidth within a direction; data-rate definitions, default channels, RX2 defaults, delays and TX-power steps equal the transcribed Regional Parameters values.",
   note="Trusted: TLC, offline transcription (Unknown: LR-FHSS rows, per-revision absolute sizes, US915/AU915 TX-power step count), snapshot hook. Fully enumerated.",
   ref="3/C13"),
 "C14": dict(
   technique="independent LinkADRReq ChMaskCntl semantics in TLA+ (ChannelPlan.tla); reference planner model checked by TLC over all network x device patterns of reduced plans; recorded planner outputs on real bands validated by TLC (all 2^n device subsets for small plans)",
   text="TLC checks on reduced plans (5 standard + 3 custom channels, block size 4, all 256 enable patterns x all 256 device subsets) that a reference planner reaches exactly Target with <= blocks+1 payloads and none when the device matches; on the real bands, histories of Add/Disable/Enable followed by structured and random device sets (and ALL subsets of <=10/16-channel plans) are recorded with the generated payloads, and TLC applies them with the specification's own LinkADRReq semantics (incl. ChMaskCntl 6/7 of US915/AU915) and demands result = Target, encodable payloads, the count bound, minimality, and agreement of the library's apply function.",
   note="Trusted: TLC, ChannelPlan.tla, snapshot hook. Device sets are subsets of the plan.",
   ref="3/C14"),
 "C15": dict(
   technique="channel-plan state machine in TLA+; TLC explores all short histories with bad indices; recorded histories (arbitrary int arguments, all bands) validated statefully by TLC after every call; CFList and cross-layer MAC encodability events",
   text="TLC explores all histories (<=4/5 ops) over the argument palette {-1,0,n-1,n,n+5} x {0, existing, new frequency} checking the partitions and that standard channels only change `enabled`; seeded histories of up to 30 Add/Disable/Enable calls with arbitrary ints on all 14 bands are recorded with the full projection (every channel, five index lists, lookups) after every call and TLC steps the model alongside, demanding equality, the partitions on the observed lists, errors (never panics) for bad indices, matching lookups, the CFList rule per protocol version, and that CFLists, RX2/ping-slot/beacon frequencies and channels encode into join-accepts/MAC commands and decode back.",
   note="Trusted: TLC, ChannelPlan.tla, MACCommands/Frame tables, snapshot hook. Known finding: ISM2400 frequencies are not encodable outside NewChannelReq.",
   ref="3/C15"),
 "C16": dict(
   technique="independent device/NS/AS model of the join procedure in TLA+ (JoinProc.tla); symbolic TLC model of two interleaved join-server transactions; every answer of the real http.Handler validated by TLC with in-TLA+ AES, AES-CMAC and RFC 3394",
   text="TLC explores all interleavings of two join-server transactions (five tasks each) over the scenario lattice (join/rejoin x OptNeg x MIC right/wrong x known/unknown x KEK wrapped or not) on a symbolic instance and checks result codes, mirroring, that the device decrypts the answer / accepts its MIC / finds the requested fields, key agreement and key separation; seeded join-requests and rejoin-requests type 0/1/2 (random keys, EUIs, nonces, NetIDs, DLSettings, RxDelay, CFList, 16/24/32-byte NS/AS KEKs or none) go through the real handler in sequential and concurrent batches of up to 64, and TLC plays the device and the NS/AS on every answer with concrete crypto.",
   note="Trusted: TLC, JoinProc.tla/CryptoGen.tla, in-TLA+ AES/CMAC/KeyWrap, harness. Known finding: rejoin answers carry 1.0-derived keys.",
   ref="3/C16"),
 "C17": dict(
   technique="backend-interface wire text (decimal numerals, hex, RFC 3339) and RFC 3394 key wrap in TLA+; numeral identities model-checked by TLC; recorded encodings/decodings, struct documents and envelopes validated by TLC",
   text="TLC checks on the specification that the decimal numeral of n/10^6 (n/100) denotes n over dense sweeps and that RFC 3394 unwrap inverts wrap and rejects flipped bits (16/24/32-byte KEKs); the real Percentage (0..1000 exhaustive) and Frequency (every multiple of 100 kHz up to 2^32 Hz, neighbours, random) encodings are parsed digit by digit in TLA+ and must denote and decode to the value; hex strings (0x, upper case, malformed), ISO 8601 timestamps with zone offsets (to one second), all 20 payload structs with random optional fields (decode then re-encode must give the same document) and key envelopes incl. tampered ciphertexts and wrong KEKs (in-TLA+ AES key wrap decides success) are validated.",
   note="Trusted: TLC, BackendJSON.tla/KeyWrap.tla, lexical JSON rewrite in the harness. float64 fields are compared as text.",
   ref="3/C17"),
 "C18": dict(
   technique="TS003/TS004/TS005/TS006 command tables in TLA+ (AppLayer.tla) incl. status-dependent sizes and stream framing; TLC enumerates values/sequences (replayed on the four packages); TLC validates recorded random values, sequences and key derivations (in-TLA+ AES)",
   text="TLC checks on the specification that every enumerated command value (all byte values of 1-byte payloads, patterns of longer ones, every status byte of the status-dependent ones) is well-formed, encodes to its size and that DecodeStream o Encode is the identity for all sequences of <=2/3 commands incl. zero-length firmware commands and payload-less CIDs; every such value/sequence and seeded random in-range values and sequences of 1..6 commands are marshalled, sized and unmarshalled by the real packages and compared (bytes, reported sizes, decoded sequence, no panic); McRootKey/McKEKey/McAppSKey/McNetSKey are recomputed with AES written in TLA+.",
   note="Trusted: TLC, AppLayer.tla transcription, reflection projection (leaf field names), in-TLA+ AES.",
   ref="3/C18"),
 "C19": dict(
   technique="TS004 parity matrix, systematic encoder and a GF(2) Gaussian-elimination decoder in TLA+ (FragFEC.tla); TLC explores every erasure pattern of small blocks symbolically; real encoder outputs validated and decoded by the specification",
   text="TLC checks with symbolic fragments (sets under symmetric difference) for M<=7/10, redundancy<=4/6 and EVERY erasure pattern that a full-rank subset decodes to the original fragments; each pattern is replayed: the real Encode output restricted to the pattern is decoded by the specification's decoder and must give the data; seeded blocks (size 1..64, count 1..300 incl. powers of two and neighbours, redundancy 0..100) are checked for the systematic prefix, each parity fragment = XOR of the specification's matrix line, linearity on XORed inputs, unmodified input and errors (not panics) for zero/negative/non-dividing sizes.",
   note="Trusted: TLC, FragFEC.tla (TS004 reference pseudo-code), projection.",
   ref="3/C19"),
 "C20": dict(
   technique="GPS/UTC conversion with the published leap-second list, exact-rational Semtech airtime formula (BigNat) and EIRP table in TLA+; identities model-checked by TLC around every leap second; recorded conversions / full payload sweeps / EIRP results validated by TLC",
   text="TLC checks on the specification (every leap second, seconds -3..+3, sub-second values) that UTC->GPS->UTC is the identity, GPS->UTC->GPS is the identity outside inserted leap seconds, the mapping is strictly increasing and the offset steps at 00:00:00; the real conversions for instants dense around all 18 leap seconds (and non-leap June/December ends) and random in 1980..2100, their inverses and ordered pairs are validated against it; airtime is recorded as whole payload sweeps 0..255 for SF 5..12 x 5 bandwidths x CR x header x LDRO x preamble {0,8,64} (0..64 thorough): symbol counts must be exact, durations within the truncation tolerance of the exact rational formula, and non-decreasing; EIRP index/decoding for all half-integral powers 8..40, random finite float32 >= 8 and all 256 indices.",
   note="Trusted: TLC, Misc.tla/BigNat.tla, harness integer splitting of int64 values.",
   ref="3/C20"),
 "C07": dict(
   technique="TLA+ table-driven MAC-command/registry specification; TLC enumerates values and registration histories (replayed on the real code) and validates recorded traces",
   text="TLC exhaustively explores the MAC-command tables (all values of <=1/2-byte payloads, boundary palettes for longer ones) and all registration histories of the Registry model (self-delimiting, direction-only invariants); every explored value/history is executed on the real library (histories in fresh processes) and, with seeded full-domain values and command streams, validated event by event against the trace specifications.",
   note="Trusted: TLC, the TLA+ transcription of LoRaWAN 1.1 sec.5 (guarded by design invariants), harness projection table. RFU *values* inside a field's width are DON'T-CARE for acceptance.",
   ref="3/C07"),
}
PENDING_REASON = "machinery for this property is not finished yet in this build; it is not claimed rather than claimed with a weaker check (see DESIGN.md sec. 5)"

def main():
    checks = []
    for pid in ALL:
        if pid in CHECKS:
            c = CHECKS[pid]
            checks.append({
                "property_id": pid,
                "quick_cmd": "bin/check %s --tier quick" % pid,
                "thorough_cmd": "bin/check %s --tier thorough" % pid,
                "evidence_file": "/verif/evidence/%s.json" % pid,
                "replay_cmd_template": "bin/check %s --replay {path}" % pid,
                "engine": "tla-trace",
                "level_claimed": {"category": "model_checking", "text": c["text"], "design_ref": c["ref"]},
                "level_note": c["note"],
                "technique": c["technique"],
            })
    m = {
        "version": 1,
        "setup_cmd": "bin/setup",
        "hooks": {
            "guard": "verif",
            "enable": "go build -tags verif (the harness module replaces github.com/brocaar/lorawan with /repo and is built with -tags verif)",
            "baseline_off_cmd": "cd /repo && GOFLAGS=-mod=mod GOPROXY=off GOSUMDB=off go test -json -vet=off -count=1 -timeout 25m ./...",
            "source_commits": json.load(open(os.path.join(V, "lib", "hook_commits.json"))) if os.path.exists(os.path.join(V, "lib", "hook_commits.json")) else [],
            "add_only": True,
        },
        "engines": [{"name": "tla-trace", "path": "/verif/bin/check", "serves_properties": sorted(CHECKS),
                     "kind_free_text": "explicit TLA+ specification (spec/), TLC design checks + TLC-generated cases replayed on the Go code + TLC validation of traces recorded from the Go code (harness/)"}],
        "checks": checks,
        "not_applicable": [{"property_id": p, "reason": PENDING_REASON} for p in ALL if p not in CHECKS],
        "notes": "All verdicts come from the TLA+ specification evaluated by TLC; see DESIGN.md. known_findings.json lists genuine defects (fixed ones suppress nothing).",
    }
    json.dump(m, open(os.path.join(V, "MANIFEST.json"), "w"), indent=1)

if __name__ == "__main__":
    main()
