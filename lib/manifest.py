#!/usr/bin/env python3
"""Regenerates MANIFEST.json from the table below (single source of truth for check registration)."""
import json, os
V = os.path.dirname(os.path.dirname(os.path.abspath(__file__)))
ALL = ["C%02d" % i for i in range(1, 21)]

CHECKS = {
 "C01": dict(
   technique="TLA+ frame-format specification (Frame.tla); TLC enumerates frame shapes (FrameGen), every shape is marshalled/unmarshalled by the real code; TLC validates recorded round-trip traces",
   text="TLC checks on the specification that Decode(Encode(v)) is the wire image of v for every frame shape (4 data MTypes x 16 FCtrl x FOpts length 0..15 x FPort absent/0/1/255 x FRMPayload lengths x join/rejoin/join-accept/CFList/proprietary shapes); each shape and seeded random frame values (valid and deliberately invalid) are run through MarshalBinary/MarshalText/UnmarshalBinary/UnmarshalText/Decode*ToMACCommands/Encrypt+DecryptJoinAccept and every recorded event is validated against the specification's Encode/WireImage/SpecValid.",
   note="Trusted: TLC, Frame.tla/MACCommands.tla transcription of LoRaWAN 1.1 sec. 4-6, projection tables. Invalid values that the encoder accepts are DON'T-CARE.",
   ref="3/C01"),
 "C06": dict(
   technique="independent table-driven TLA+ wire-format model; TLC-enumerated values and bytes (exhaustive for <=2-byte payloads) executed on the real encoders/decoders; TLC trace validation",
   text="The MAC-command layouts (field order, widths, kinds, RFU rows) and the frame/join/CFList formats are TLA+ tables written from the LoRaWAN text. TLC enumerates all values of <=1-byte (quick) / <=2-byte (thorough) payloads and boundary palettes of longer ones; each is encoded by the real library and each byte string is decoded by it; results must equal the specification's Encode/DecodeBits (RFU ignored). Frame headers, join payloads and CFLists are checked through the FrameGen shapes and byte shapes.",
   note="Trusted: TLC, the TLA+ tables (self-consistency invariants: widths sum to size, Decode o Encode = id), projection tables. DutyCycleReq is treated as one byte (legacy 255).",
   ref="3/C06"),
 "C08": dict(
   technique="TLA+ Decode/Encode of Frame.tla; canonicity is a TLC-checked theorem of the specification over guard-boundary byte shapes, each shape and seeded mutated byte strings replayed on the real decoder/encoder",
   text="TLC shows on the specification that every byte shape it decodes re-encodes identically (8 MTypes x MACPayload length 0..40 x FOptsLen nibble x FPort byte x rejoin type); every shape plus seeded uniform strings and structure-aware mutations of valid frames go through UnmarshalBinary -> MarshalBinary -> UnmarshalBinary on the real code and TLC validates: accepted and MHDR-RFU-zero => re-encoding succeeds and is byte-identical, and decodes again to an equal frame.",
   note="Trusted: TLC, Frame.tla, projection. Coverage-guided fuzzing is not used (DESIGN sec. 4).",
   ref="3/C08"),
 "C07": dict(
   technique="TLA+ table-driven MAC-command/registry specification; TLC enumerates values and registration histories (replayed on the real code) and validates recorded traces",
   text="TLC exhaustively explores the MAC-command tables (all values of <=1/2-byte payloads, boundary palettes for longer ones) and all registration histories of the Registry model (self-delimiting, direction-only invariants); every explored value/history is executed on the real library (histories in fresh processes) and, with seeded full-domain values and command streams, validated event by event against the trace specifications.",
   note="Trusted: TLC, the TLA+ transcription of LoRaWAN 1.1 sec.5 (guarded by design invariants), harness projection table. RFU *values* inside a field's width are DON'T-CARE for acceptance.",
   ref="3/C07"),
}
PENDING_REASON = "machinery for this property is not finished yet in this build; it is not claimed rather than claimed with a weaker check (see DESIGN.md sec. 5)"

def main():
    checks = []
    for pid in ALL:
        if pid in CHECKS:
            c = CHECKS[pid]
            checks.append({
                "property_id": pid,
                "quick_cmd": "bin/check %s --tier quick" % pid,
                "thorough_cmd": "bin/check %s --tier thorough" % pid,
                "evidence_file": "/verif/evidence/%s.json" % pid,
                "replay_cmd_template": "bin/check %s --replay {path}" % pid,
                "engine": "tla-trace",
                "level_claimed": {"category": "model_checking", "text": c["text"], "design_ref": c["ref"]},
                "level_note": c["note"],
                "technique": c["technique"],
            })
    m = {
        "version": 1,
        "setup_cmd": "bin/setup",
        "hooks": {
            "guard": "verif",
            "enable": "go build -tags verif (the harness module replaces github.com/brocaar/lorawan with /repo and is built with -tags verif)",
            "baseline_off_cmd": "cd /repo && GOFLAGS=-mod=mod GOPROXY=off GOSUMDB=off go test -json -vet=off -count=1 -timeout 25m ./...",
            "source_commits": json.load(open(os.path.join(V, "lib", "hook_commits.json"))) if os.path.exists(os.path.join(V, "lib", "hook_commits.json")) else [],
            "add_only": True,
        },
        "engines": [{"name": "tla-trace", "path": "/verif/bin/check", "serves_properties": sorted(CHECKS),
                     "kind_free_text": "explicit TLA+ specification (spec/), TLC design checks + TLC-generated cases replayed on the Go code + TLC validation of traces recorded from the Go code (harness/)"}],
        "checks": checks,
        "not_applicable": [{"property_id": p, "reason": PENDING_REASON} for p in ALL if p not in CHECKS],
        "notes": "All verdicts come from the TLA+ specification evaluated by TLC; see DESIGN.md. known_findings.json lists genuine defects (fixed ones suppress nothing).",
    }
    json.dump(m, open(os.path.join(V, "MANIFEST.json"), "w"), indent=1)

if __name__ == "__main__":
    main()
