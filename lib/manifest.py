#!/usr/bin/env python3
"""Regenerates MANIFEST.json from the table below (single source of truth for check registration)."""
import json, os
V = os.path.dirname(os.path.dirname(os.path.abspath(__file__)))
ALL = ["C%02d" % i for i in range(1, 21)]

CHECKS = {
 "C01": dict(
   technique="TLA+ frame-format specification (Frame.tla); TLC enumerates frame shapes (FrameGen), every shape is marshalled/unmarshalled by the real code; TLC validates recorded round-trip traces",
   text="TLC checks on the specification that Decode(Encode(v)) is the wire image of v for every frame shape (4 data MTypes x 16 FCtrl x FOpts length 0..15 x FPort absent/0/1/255 x FRMPayload lengths x join/rejoin/join-accept/CFList/proprietary shapes); each shape and seeded random frame values (valid and deliberately invalid) are run through MarshalBinary/MarshalText/UnmarshalBinary/UnmarshalText/Decode*ToMACCommands/Encrypt+DecryptJoinAccept and every recorded event is validated against the specification's Encode/WireImage/SpecValid.",
   note="Trusted: TLC, Frame.tla/MACCommands.tla transcription of LoRaWAN 1.1 sec. 4-6, projection tables. Invalid values that the encoder accepts are DON'T-CARE.",
   ref="3/C01"),
 "C02": dict(
   technique="LoRaWAN MIC definitions in TLA+ (CryptoGen) instantiated symbolically (TLC: which inputs are authenticated) and with in-TLA+ AES-CMAC (TLC validates every recorded Set*/Validate* call)",
   text="TLC checks on the symbolic instance, for all 8192 parameter records and all single-coordinate variations, that two MIC terms are equal iff exactly the inputs the property lists are equal (ConfFCnt only with ACK on 1.1 and only mod 2^16, full 32-bit FCnt, txDR/txCh/SNwkSIntKey only on 1.1 uplinks). Seeded frames (FOpts/FPort/FRMPayload up to 242 bytes) are MIC'ed by the real code and re-validated under 14 single-parameter perturbations; TLC recomputes every MIC with AES-CMAC written in TLA+ from RFC 4493/FIPS-197 and demands mic = spec value and ok = (carried = spec value).",
   note="Trusted: TLC, in-TLA+ AES/CMAC (published vectors re-checked each run), Frame.tla for the authenticated bytes, projection. Keys/counters are sampled.",
   ref="3/C02"),
 "C03": dict(
   technique="keystream/FOpts-block definitions in TLA+ with in-TLA+ AES; TLC design check of involution/length/variant rule; TLC validation of recorded function and method calls incl. error paths",
   text="TLC checks on the concrete specification (AES in TLA+) length preservation, involution, pairwise-distinct keystream blocks and the AFCntDown variant table; seeded calls of EncryptFRMPayload/EncryptFOpts (functions) and the four PHYPayload methods (also with FOpts > 15 bytes or unmarshalable commands) are recorded with the frame before/after and TLC demands post = Transform(pre) whenever the call reports success.",
   note="Trusted: TLC, in-TLA+ AES, Frame.tla, projection. Keys/addresses/counters sampled; lengths 0..255 incl. every block boundary.",
   ref="3/C03"),
 "C04": dict(
   technique="join MIC / join-accept encryption definitions in TLA+; symbolic TLC check of the OptNeg binding; TLC validation of recorded Set/Validate/Encrypt/Decrypt calls with in-TLA+ AES-CMAC and AES inverse cipher",
   text="TLC checks symbolically which fields enter the 1.0 and OptNeg join-accept MIC (and their byte order) and concretely that decrypt inverts encrypt for 16/32-byte inputs; seeded join-request, rejoin 0/1/2 and join-accept frames (CFList absent/channels/masks, OptNeg both) are MIC'ed, validated under perturbations, encrypted and decrypted by the real code and TLC recomputes MIC, ciphertext (AES inverse cipher in TLA+) and the AES-encrypt relation for every event.",
   note="Trusted: TLC, in-TLA+ AES/AES^-1/CMAC, Frame.tla, projection.",
   ref="3/C04"),
 "C05": dict(
   technique="SecureLink TLA+ state machine (symbolic crypto) explored exhaustively by TLC over all call orders x deviations; maximal behaviours replayed on real PHYPayload values; recorded calls validated with concrete in-TLA+ crypto; all single-bit corruptions",
   text="TLC explores 260k states of the sender|channel|receiver model: every order of the sender calls and of the receiver calls, both directions and versions, ACK, four content layouts, 14 deviations (mismatched key/counter half/MIC parameter, tampered wire component) and proves Recover/Reject/Residue on the model; a seeded sample of the ~93k maximal behaviours is executed call by call on real frames with concrete keys, each call validated by TLC (transform, MIC value, wire format) and the outcome compared with the model's; every single-bit corruption of serialised frames is checked for exact MIC agreement.",
   note="Trusted: TLC, in-TLA+ AES/CMAC, Frame.tla, projection. The symbolic verdict is compared only for receivers that validate before decrypting; known finding: MHDR RFU bits are not authenticated.",
   ref="3/C05"),
 "C06": dict(
   technique="independent table-driven TLA+ wire-format model; TLC-enumerated values and bytes (exhaustive for <=2-byte payloads) executed on the real encoders/decoders; TLC trace validation",
   text="The MAC-command layouts (field order, widths, kinds, RFU rows) and the frame/join/CFList formats are TLA+ tables written from the LoRaWAN text. TLC enumerates all values of <=1-byte (quick) / <=2-byte (thorough) payloads and boundary palettes of longer ones; each is encoded by the real library and each byte string is decoded by it; results must equal the specification's Encode/DecodeBits (RFU ignored). Frame headers, join payloads and CFLists are checked through the FrameGen shapes and byte shapes.",
   note="Trusted: TLC, the TLA+ tables (self-consistency invariants: widths sum to size, Decode o Encode = id), projection tables. DutyCycleReq is treated as one byte (legacy 255).",
   ref="3/C06"),
 "C08": dict(
   technique="TLA+ Decode/Encode of Frame.tla; canonicity is a TLC-checked theorem of the specification over guard-boundary byte shapes, each shape and seeded mutated byte strings replayed on the real decoder/encoder",
   text="TLC shows on the specification that every byte shape it decodes re-encodes identically (8 MTypes x MACPayload length 0..40 x FOptsLen nibble x FPort byte x rejoin type); every shape plus seeded uniform strings and structure-aware mutations of valid frames go through UnmarshalBinary -> MarshalBinary -> UnmarshalBinary on the real code and TLC validates: accepted and MHDR-RFU-zero => re-encoding succeeds and is byte-identical, and decodes again to an equal frame.",
   note="Trusted: TLC, Frame.tla, projection. Coverage-guided fuzzing is not used (DESIGN sec. 4).",
   ref="3/C08"),
 "C07": dict(
   technique="TLA+ table-driven MAC-command/registry specification; TLC enumerates values and registration histories (replayed on the real code) and validates recorded traces",
   text="TLC exhaustively explores the MAC-command tables (all values of <=1/2-byte payloads, boundary palettes for longer ones) and all registration histories of the Registry model (self-delimiting, direction-only invariants); every explored value/history is executed on the real library (histories in fresh processes) and, with seeded full-domain values and command streams, validated event by event against the trace specifications.",
   note="Trusted: TLC, the TLA+ transcription of LoRaWAN 1.1 sec.5 (guarded by design invariants), harness projection table. RFU *values* inside a field's width are DON'T-CARE for acceptance.",
   ref="3/C07"),
}
PENDING_REASON = "machinery for this property is not finished yet in this build; it is not claimed rather than claimed with a weaker check (see DESIGN.md sec. 5)"

def main():
    checks = []
    for pid in ALL:
        if pid in CHECKS:
            c = CHECKS[pid]
            checks.append({
                "property_id": pid,
                "quick_cmd": "bin/check %s --tier quick" % pid,
                "thorough_cmd": "bin/check %s --tier thorough" % pid,
                "evidence_file": "/verif/evidence/%s.json" % pid,
                "replay_cmd_template": "bin/check %s --replay {path}" % pid,
                "engine": "tla-trace",
                "level_claimed": {"category": "model_checking", "text": c["text"], "design_ref": c["ref"]},
                "level_note": c["note"],
                "technique": c["technique"],
            })
    m = {
        "version": 1,
        "setup_cmd": "bin/setup",
        "hooks": {
            "guard": "verif",
            "enable": "go build -tags verif (the harness module replaces github.com/brocaar/lorawan with /repo and is built with -tags verif)",
            "baseline_off_cmd": "cd /repo && GOFLAGS=-mod=mod GOPROXY=off GOSUMDB=off go test -json -vet=off -count=1 -timeout 25m ./...",
            "source_commits": json.load(open(os.path.join(V, "lib", "hook_commits.json"))) if os.path.exists(os.path.join(V, "lib", "hook_commits.json")) else [],
            "add_only": True,
        },
        "engines": [{"name": "tla-trace", "path": "/verif/bin/check", "serves_properties": sorted(CHECKS),
                     "kind_free_text": "explicit TLA+ specification (spec/), TLC design checks + TLC-generated cases replayed on the Go code + TLC validation of traces recorded from the Go code (harness/)"}],
        "checks": checks,
        "not_applicable": [{"property_id": p, "reason": PENDING_REASON} for p in ALL if p not in CHECKS],
        "notes": "All verdicts come from the TLA+ specification evaluated by TLC; see DESIGN.md. known_findings.json lists genuine defects (fixed ones suppress nothing).",
    }
    json.dump(m, open(os.path.join(V, "MANIFEST.json"), "w"), indent=1)

if __name__ == "__main__":
    main()
