#!/usr/bin/env python3
"""Regenerates the table of seeded changes in DESIGN.md (between the SEEDTABLE markers) from seeded/*/meta.json."""
import json, os, re
V = os.path.dirname(os.path.dirname(os.path.abspath(__file__)))
rows = ["| seed | change | needs, to manifest | caught by (property: clauses) |", "|---|---|---|---|"]
for d in sorted(os.listdir(os.path.join(V, "seeded"))):
    m = json.load(open(os.path.join(V, "seeded", d, "meta.json")))
    ck = "; ".join("%s: %s" % (k, v.replace("CAUGHT ", "")) for k, v in m["checks"].items())
    rows.append("| %s | %s | %s | %s |" % (d, m.get("change", ""), m.get("needs_to_manifest", ""), ck))
p = os.path.join(V, "DESIGN.md")
s = open(p).read()
s = re.sub(r"(<!-- SEEDTABLE -->\n).*?(<!-- /SEEDTABLE -->)", lambda mm: mm.group(1) + "\n".join(rows) + "\n" + mm.group(2), s, flags=re.S)
open(p, "w").write(s)
print(len(rows) - 2, "seeds")
