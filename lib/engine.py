"""Orchestrator engine: build harness -> run TLC design checks -> record traces from the real code ->
validate traces with TLC -> known findings -> evidence -> exit code.

Verdict rules (DESIGN 2.4): exit 1 + VIOLATION only for behaviour observed on the real code that the
specification forbids and known_findings.json does not list; any machinery failure is exit 2."""
import json, os, re, shutil, subprocess, sys, tempfile, time, concurrent.futures as cf

VERIF = os.path.dirname(os.path.dirname(os.path.abspath(__file__)))
REPO = os.environ.get("VERIF_REPO", "/repo")
JAR = "/opt/veriftools/tla/tla2tools.jar:/opt/veriftools/tla/CommunityModules-deps.jar"
GOENV = dict(GOFLAGS="-mod=mod", GOPROXY="off", GOSUMDB="off", GOTOOLCHAIN="local", CGO_ENABLED="0")


class MachineryError(Exception):
    pass


def log(*a):
    print("[check]", *a, flush=True)


class Run:
    def __init__(self, prop, tier, seed):
        self.prop, self.tier, self.seed = prop, tier, seed
        self.t0 = time.time()
        self.scratch = tempfile.mkdtemp(prefix="verif-%s-" % prop, dir=os.environ.get("VERIF_SCRATCH", "/var/tmp"))
        self.specdir = os.path.join(self.scratch, "spec")
        self.states = 0
        self.transitions = 0
        self.events = 0
        self.fails = []          # (family, event, clauses)
        self.samples = []
        self.kinds = {}
        self.design = []
        self.exhaustive = []
        self.notes = []
        self.tlc_runs = 0
        self.drv = None
        self.coverage_extra = {}

    # ---- setup --------------------------------------------------------------------------------
    def prepare_specs(self):
        os.makedirs(self.specdir)
        for sub in ("base", "lorawan", "models", "trace"):
            d = os.path.join(VERIF, "spec", sub)
            if os.path.isdir(d):
                for f in os.listdir(d):
                    if f.endswith(".tla") or f.endswith(".cfg"):
                        shutil.copy(os.path.join(d, f), self.specdir)

    def build_harness(self):
        hb = os.path.join(self.scratch, "hb")
        shutil.copytree(os.path.join(VERIF, "harness"), hb)
        tmpl = open(os.path.join(hb, "go.mod.tmpl")).read().replace("@REPO@", REPO)
        open(os.path.join(hb, "go.mod"), "w").write(tmpl)
        shutil.copy(os.path.join(REPO, "go.sum"), hb)
        env = dict(os.environ, **GOENV)
        cover = ["-cover", "-coverpkg=verif/harness,github.com/brocaar/lorawan/..."] if os.environ.get("VERIF_COVER") else []
        p = subprocess.run(["go", "build", "-tags", "verif"] + cover + ["-o", os.path.join(hb, "drv"), "."], cwd=hb, env=env,
                           stdout=subprocess.PIPE, stderr=subprocess.STDOUT, text=True)
        if p.returncode != 0:
            raise MachineryError("harness build failed (does /repo still compile?):\n" + p.stdout[-3000:])
        self.drv = os.path.join(hb, "drv")

    # ---- TLC ----------------------------------------------------------------------------------
    def tlc(self, module, cfg=None, env=None, workers=1, xmx="3g", timeout=3600, extra=()):
        md = tempfile.mkdtemp(prefix="md-", dir=self.scratch)
        cmd = ["java", "-XX:+UseParallelGC", "-XX:ParallelGCThreads=2", "-Xss64m", "-Xmx" + xmx, "-Djava.io.tmpdir=" + md, "-cp", JAR, "tlc2.TLC",
               "-workers", str(workers), "-metadir", md, "-config", cfg or (module + ".cfg")] + list(extra) + [module + ".tla"]
        e = dict(os.environ)
        e.update(env or {})
        try:
            p = subprocess.run(cmd, cwd=self.specdir, env=e, stdout=subprocess.PIPE, stderr=subprocess.STDOUT, text=True,
                               timeout=timeout)
        except subprocess.TimeoutExpired:
            raise MachineryError("TLC timed out on %s" % module)
        finally:
            shutil.rmtree(md, ignore_errors=True)
        self.tlc_runs += 1
        out = p.stdout
        m = re.search(r"(\d+) states generated, (\d+) distinct states found", out)
        gen, dist = (int(m.group(1)), int(m.group(2))) if m else (0, 0)
        return p.returncode, out, gen, dist

    def selftest(self, module="SelfTest", marker="SELFTEST-BASE-OK"):
        rc, out, _, _ = self.tlc(module)
        if rc != 0 or marker not in out:
            raise MachineryError("specification self-test %s failed:\n%s" % (module, tail(out)))

    def design_check(self, module, cfg=None, workers=8, xmx="8g", env=None, expect=None, exhaustive=True, timeout=3600, expect_violation=None):
        """(D): TLC explores the specification alone; any failure here is a machinery error.
        expect_violation=<invariant>: a deliberately broken variant of the design; TLC must FIND the violation."""
        rc, out, gen, dist = self.tlc(module, cfg=cfg, workers=workers, xmx=xmx, env=env, timeout=timeout)
        if expect_violation:
            if "Invariant %s is violated" % expect_violation not in out:
                raise MachineryError("design check %s (%s): expected TLC to find a violation of %s:\n%s" % (module, cfg, expect_violation, tail(out)))
            self.design.append({"module": module, "cfg": cfg, "expected_violation_found": expect_violation, "distinct": dist})
            log("design %s (%s): violation of %s found as expected" % (module, cfg, expect_violation))
            return
        if rc != 0 or "No error has been found" not in out:
            raise MachineryError("design check %s failed (the MODEL violates its own invariant or TLC errored):\n%s" % (module, tail(out)))
        if dist < 1:
            raise MachineryError("design check %s explored no state" % module)
        self.states += dist
        self.transitions += gen
        self.design.append({"module": module, "cfg": cfg or module + ".cfg", "distinct_states": dist, "states_generated": gen})
        if exhaustive:
            self.exhaustive.append("design:" + module)
        log("design %s: %d distinct states, %d generated" % (module, dist, gen))
        return out

    # ---- recording ------------------------------------------------------------------------------
    def record(self, family, mode, n=0, cases=None, seed=None, name=None, timeout=3600, extra_env=None):
        out = os.path.join(self.scratch, "%s-%s-%d.ndjson" % (family, name or mode, len(os.listdir(self.scratch))))
        cmd = [self.drv, "record", family, "--mode", mode, "--seed", str(self.seed if seed is None else seed), "--n", str(n), "--out", out]
        if cases:
            cmd += ["--cases", cases]
        try:
            p = subprocess.run(cmd, stdout=subprocess.PIPE, stderr=subprocess.STDOUT, text=True, timeout=timeout,
                               env=dict(os.environ, VERIF_PROP=self.prop, **dict(extra_env or {}, **({"GOCOVERDIR": os.environ["VERIF_COVER"]} if os.environ.get("VERIF_COVER") else {}))))
        except subprocess.TimeoutExpired:
            raise MachineryError("driver %s/%s timed out" % (family, mode))
        if p.returncode == 3 and "HANG-ABORT" in p.stdout:
            # the watchdog of the harness recorded a `hang` event (a call of the real code never returned) and ended the
            # driver; the partial trace is validated as usual and the trace specification rejects that event
            last = ""
            with open(out) as fh:
                for ln in fh:
                    if ln.strip():
                        last = ln
            if '"ev":"hang"' not in last:
                raise MachineryError("driver %s/%s aborted after a hang but recorded no hang event" % (family, mode))
            log("driver %s/%s ended by its hang watchdog: %s" % (family, mode, p.stdout.strip().splitlines()[-1][:200]))
            self.notes.append("driver %s/%s was ended by the hang watchdog; the rest of its inputs was not examined in this run" % (family, mode))
            return out
        if p.returncode != 0:
            raise MachineryError("driver %s/%s failed rc=%d:\n%s" % (family, mode, p.returncode, p.stdout[-3000:]))
        return out

    # ---- validation of independent-event traces ----------------------------------------------
    def validate(self, family, trace, spec, chunk=20000, xmx="3g", jobs=16, prefix=None, label=None, env=None, timeout=3600, group_on=None):
        """Split `trace` in chunks, run the trace specification on each (parallel JVMs), collect every
        failing event.  Only clauses starting with `prefix` (the property id) count."""
        prefix = self.prop if prefix is None else prefix
        # stream the trace into chunk files (traces can be several GB in the thorough tier)
        chunks, total = [], 0
        marker = ('"ev":"%s"' % group_on) if group_on else None
        evre = re.compile(r'"ev":"([^"]+)"')
        cur, cur_n, base = None, 0, 0
        first, mid_candidates = [], []

        def close():
            nonlocal cur, cur_n, base
            if cur is not None:
                cur.close()
                chunks.append((base, "%s.c%d" % (trace, len(chunks)), cur_n))
                base += cur_n
                cur, cur_n = None, 0

        with open(trace) as fh:
            for ln in fh:
                if not ln.strip():
                    continue
                if cur is not None and cur_n >= chunk and (marker is None or marker in ln):
                    close()
                if cur is None:
                    cur = open("%s.c%d" % (trace, len(chunks)), "w")
                cur.write(ln if ln.endswith("\n") else ln + "\n")
                cur_n += 1
                total += 1
                k = evre.search(ln)
                kk = "%s/%s" % (family, k.group(1) if k else "?")
                self.kinds[kk] = self.kinds.get(kk, 0) + 1
                if len(first) < 2:
                    first.append(ln)
                elif total % 997 == 0 and len(mid_candidates) < 1:
                    mid_candidates.append(ln)
        close()
        if total == 0:
            raise MachineryError("driver %s produced an empty trace" % family)

        def one(c):
            cbase, path, cnt = c
            e = {"VERIF_TRACE": path}
            e.update(env or {})
            rc, out, gen, dist = self.tlc(spec, env=e, xmx=xmx, timeout=timeout)
            done = re.search(r'<<"VDONE", (\d+), (\d+)>>', out)
            if rc != 0 or not done or int(done.group(1)) != cnt:
                raise MachineryError("trace validation %s did not examine every event of %s (rc=%d):\n%s" % (spec, path, rc, tail(out)))
            fl = []
            for m in re.finditer(r'<<\s*"VFAIL",\s*(\d+),\s*<<(.*?)>>\s*>>', out, re.S):
                clauses = re.findall(r'"([^"]+)"', m.group(2))
                if "unknown-event" in clauses:
                    raise MachineryError("trace specification %s does not know the event at line %s of %s" % (spec, m.group(1), path))
                if any(cl.startswith(prefix) or cl.endswith(".hang") for cl in clauses):
                    fl.append((int(m.group(1)), clauses))
            evs = []
            if fl:
                want = {i for i, _ in fl}
                got = {}
                with open(path) as fh:
                    for i, ln in enumerate(fh, 1):
                        if i in want:
                            got[i] = json.loads(ln)
                evs = [(got[i], cl) for i, cl in fl]
            os.unlink(path)
            return gen, dist, evs

        with cf.ThreadPoolExecutor(max_workers=jobs) as ex:
            results = list(ex.map(one, chunks))
        nf = 0
        for gen, dist, evs in results:
            self.states += dist
            self.transitions += gen
            for ev, clauses in evs:
                mine = [c for c in clauses if c.startswith(prefix) or c.endswith(".hang")]
                nf += 1
                if len(self.fails) < 5000:
                    self.fails.append((family, ev, mine))
                else:
                    self.fail_overflow = getattr(self, "fail_overflow", 0) + 1
        self.events += total
        for ln in first + mid_candidates:
            if len(self.samples) < 12:
                self.samples.append(shorten(json.loads(ln)))
        log("validated %s (%s): %d events, %d failing for %s" % (label or os.path.basename(trace), spec, total, nf, prefix))
        return nf

    def require_kinds(self, *kinds):
        if any(c.endswith(".hang") for _, _, cl in self.fails for c in cl):
            return   # a recorded hang of the real code cut a trace short: that is the verdict, not a vacuous run
        for k in kinds:
            if sum(self.kinds.get(a, 0) for a in k.split("|")) == 0:
                raise MachineryError("vacuity guard: no event of kind %s was validated" % k)

    # ---- verdict --------------------------------------------------------------------------------
    def finish(self, level_note=None, assumptions=(), exhaustive=None, rule=None):
        known = load_known(self.prop)
        violations, knowns = [], {}
        for fam, ev, clauses in self.fails:
            kf = match_known(known, fam, ev, clauses)
            if kf is not None:
                knowns.setdefault(kf["id"], [kf, 0])[1] += 1
            else:
                violations.append((fam, ev, clauses))
        for kid, (kf, cnt) in sorted(knowns.items()):
            print("KNOWN-FINDING: property=%s %s (%s; %d matching events this run)" % (self.prop, kf["what"], kid, cnt), flush=True)
        rdir = os.path.join(VERIF, "evidence", "replays")
        os.makedirs(rdir, exist_ok=True)
        shown = 0
        groups = {}
        for fam, ev, clauses in violations:
            gk = (fam, ev.get("ev"), tuple(clauses), ev.get("dir"), ev.get("cid"), ev.get("name"), ev.get("band"))
            groups.setdefault(gk, []).append(ev)
        for gk, evs in groups.items():
            path = os.path.join(rdir, "%s-%d.json" % (self.prop, shown))
            json.dump({"property": self.prop, "family": gk[0], "clauses": list(gk[2]), "count": len(evs), "seed": self.seed,
                       "tier": self.tier, "event": evs[0], "more": evs[1:4]}, open(path, "w"), indent=1)
            print("%s property=%s replay=%s clauses=%s count=%d event=%s" % ("EXT-FAIL" if self.prop == "EXT" else "VIOLATION", self.prop, path, ",".join(gk[2]), len(evs),
                                                                                      json.dumps(shorten(evs[0]))[:600]), flush=True)
            shown += 1
            if shown >= 25:
                break
        cov = {
            "states": max(self.states, 1), "transitions": max(self.transitions, 1),
            "traces_validated_against_impl": self.events,
            "samples": self.samples[:12] or ["(none)"],
            "event_kinds": self.kinds, "design_checks": self.design, "tlc_runs": self.tlc_runs,
            "exhaustive_parts": self.exhaustive, "failing_events": len(self.fails),
            "known_finding_events": sum(c for _, c in knowns.values()),
            "rule": rule or "events recorded from the real code and validated by TLC against the trace specification; "
                            "distinct = distinct recorded events",
            "evaluations": self.events,
        }
        if exhaustive is not None:
            cov["exhaustive"] = exhaustive
        cov.update(self.coverage_extra)
        ev = {"property_id": self.prop, "tier": self.tier, "seed": self.seed, "level": "model_checking", "coverage": cov,
              "assumptions": list(assumptions) + self.notes, "wall_s": round(time.time() - self.t0, 1), "violations": len(violations)}
        edir = os.path.join(VERIF, "evidence", "extended") if self.prop == "EXT" else os.path.join(VERIF, "evidence")
        os.makedirs(edir, exist_ok=True)
        json.dump(ev, open(os.path.join(edir, self.prop + ".json"), "w"), indent=1)
        log("%s %s seed=%d: %d events, %d states, %d violations, %d known, %.0fs" % (
            self.prop, self.tier, self.seed, self.events, self.states, len(violations), len(knowns), time.time() - self.t0))
        return 1 if violations else 0

    def cleanup(self):
        shutil.rmtree(self.scratch, ignore_errors=True)


def tail(s, n=40):
    ls = [x for x in s.splitlines() if not re.match(r"^(Linting|Semantic|Parsing|\d+\. Line|/\\ |State \d+:|$)", x)]
    errs = [i for i, x in enumerate(ls) if x.startswith("Error:")]
    head = []
    for i in errs[:3]:
        head += ls[i:i + 8]
    return "\n".join(head + ["..."] + ls[-12:])


def shorten(v, depth=0):
    if isinstance(v, dict):
        return {k: shorten(x, depth + 1) for k, x in list(v.items())[:40]}
    if isinstance(v, list):
        if len(v) > 48:
            return [shorten(x, depth + 1) for x in v[:40]] + ["...(%d more)" % (len(v) - 40)]
        return [shorten(x, depth + 1) for x in v]
    return v


def load_known(prop):
    p = os.path.join(VERIF, "known_findings.json")
    if not os.path.exists(p):
        return []
    return [k for k in json.load(open(p))["findings"] if k["property"] == prop and k.get("status") == "known"]


def match_known(known, fam, ev, clauses):
    """A finding matches only if family, every failing clause, and the input selector all match."""
    for k in known:
        if k.get("family") not in (None, fam):
            continue
        if not set(clauses) <= set(k["clauses"]):
            continue
        try:
            if eval(k["where"], {"__builtins__": {"len": len, "all": all, "any": any, "int": int, "abs": abs, "set": set, "sum": sum, "min": min, "max": max, "range": range, "sorted": sorted, "str": str, "isinstance": isinstance, "list": list, "dict": dict}}, {"e": ev, "clauses": clauses}):
                return k
        except Exception:
            continue
    return None
