import json,glob,os,sys,subprocess
suffix=sys.argv[1]
focus=open(sys.argv[2]).read().strip()
props={}
for l in open('/verif/properties.jsonl'):
    d=json.loads(l); props[d['id']]=d
tmpl=open('/verif/lib/seed-prompt-template.txt').read()
# split template
head_end=tmpl.index('The semantic property your change must BREAK is:')
req_start=tmpl.index('Requirements for the change:')
for pid,d in props.items():
    wid=pid+suffix
    earlier=[]
    for m in sorted(glob.glob('/verif/seeded/%s*/meta.json'%pid)):
        j=json.load(open(m)); earlier.append(j.get('change','')[:170].replace('\n',' '))
    head=tmpl[:head_end].replace('C10j',wid)
    body='The semantic property your change must BREAK is:\n\n---\nProperty %s — %s\n\nStatement: %s\n\nQuantified over: %s\n\nCode anchors (files): %s\n---\n\n'%(pid,d['title'],d['statement'],d['quantifier']['text'],', '.join(d['anchors']['files']))
    body+=focus+' Earlier seeded changes for this property (abbreviated) - do something clearly different, in a different function AND by a different mechanism: '+' || '.join(earlier)+'\n\n'
    tail=tmpl[req_start:].replace('C10j',wid)
    open('/tmp/prompt-%s.txt'%wid,'w').write(head+body+tail)
    wt='/tmp/wt-'+wid
    if not os.path.exists(wt):
        subprocess.check_call(['git','-C','/repo','worktree','add','--detach',wt,'HEAD'],stdout=subprocess.DEVNULL,stderr=subprocess.DEVNULL)
print('ok')
