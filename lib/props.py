"""Per-property check definitions: which design checks (D), TLC-generated cases (R) and recorded
traces (V) decide each property, with the tier bounds."""
import json, os, re
import engine
from engine import MachineryError, log


def T(run, quick, thorough):
    return quick if run.tier == "quick" else thorough


def dedupe_cases(path):
    """CSVWrite prints TLA+ strings (quoted, escaped) and TLC evaluates CONSTRAINT on init and
    successor states: unquote and drop duplicates, keeping order."""
    seen, out = set(), []
    for ln in open(path):
        ln = ln.strip()
        if ln.startswith('"') and ln.endswith('"'):
            ln = ln[1:-1].replace('\\"', '"').replace('\\\\', '\\')
        if ln and ln not in seen:
            seen.add(ln)
            out.append(ln)
    open(path, "w").write("\n".join(out) + "\n")
    return len(out)


def gen_maccmd_cases(run):
    cases = os.path.join(run.scratch, "maccmd-cases.ndjson")
    run.design_check("MacCmdGen", workers=1, env={"VERIF_MAXEXH": T(run, "1", "2"), "VERIF_CASES": cases})
    n = dedupe_cases(cases)
    if n < 1000:
        raise MachineryError("MacCmdGen emitted only %d cases" % n)
    run.coverage_extra["tlc_generated_cases"] = run.coverage_extra.get("tlc_generated_cases", 0) + n
    return cases


def c07(run):
    run.selftest()
    cases = gen_maccmd_cases(run)
    t = run.record("maccmd", "cases", cases=cases)
    run.validate("maccmd", t, "Trace_maccmd", label="(R) spec-enumerated values")
    t = run.record("maccmd", "values", n=T(run, 30000, 1500000))
    run.validate("maccmd", t, "Trace_maccmd", label="(V) full-domain values", chunk=100000)
    t = run.record("maccmd", "streams", n=T(run, 3000, 60000))
    run.validate("maccmd", t, "Trace_maccmd", label="(V) command streams", chunk=5000)
    t = run.record("maccmd", "lookup")
    run.validate("maccmd", t, "Trace_maccmd", label="(V) registry sizes")
    # registry: (D) all registration histories x streams; (R) every history in a fresh process; (V) random histories
    rcases = os.path.join(run.scratch, "registry-cases.ndjson")
    run.design_check("Registry", workers=1, env={"VERIF_REGHIST": T(run, "2", "3"), "VERIF_CASES": rcases})
    dedupe_cases(rcases)
    t = run.record("registry", "cases", cases=rcases)
    run.validate("registry", t, "Trace_registry", label="(R) registry histories", group_on="reset", chunk=8000)
    t = run.record("registry", "random", n=T(run, 200, 3000))
    run.validate("registry", t, "Trace_registry", label="(V) random registry histories", group_on="reset", chunk=8000)
    run.require_kinds("maccmd/enc", "maccmd/stream", "maccmd/lookup", "registry/register", "registry/pstream", "registry/lookup")
    run.rc = run.finish(assumptions=["projection table harness/proj_maccmd.go", "TLC + CommunityModules",
                                     "DON'T-CARE: RFU values inside a field's width (Version.Minor 2..15, ForceRejoinReq.RejoinType 1,3..7, DutyCycleReq 16..255, DeviceMode class 1,3..255)"])


PROPS = {"C07": c07}


def replay(run, path):
    print("replay: re-run `bin/check %s` with VERIF_SEED=%s; stored event:" % (run.prop, json.load(open(path)).get("seed")))
    print(json.dumps(json.load(open(path))["event"])[:2000])
    return 0
