"""Per-property check definitions: which design checks (D), TLC-generated cases (R) and recorded
traces (V) decide each property, with the tier bounds."""
import json, os, re
import engine
from engine import MachineryError, log


def T(run, quick, thorough):
    return quick if run.tier == "quick" else thorough


def dedupe_cases(path):
    """CSVWrite prints TLA+ strings (quoted, escaped) and TLC evaluates CONSTRAINT on init and
    successor states: unquote and drop duplicates, keeping order."""
    seen, out = set(), []
    for ln in open(path):
        ln = ln.strip()
        if ln.startswith('"') and ln.endswith('"'):
            ln = ln[1:-1].replace('\\"', '"').replace('\\\\', '\\')
        if ln and ln not in seen:
            seen.add(ln)
            out.append(ln)
    open(path, "w").write("\n".join(out) + "\n")
    return len(out)


def gen_maccmd_cases(run):
    cases = os.path.join(run.scratch, "maccmd-cases.ndjson")
    run.design_check("MacCmdGen", workers=1, env={"VERIF_MAXEXH": T(run, "1", "2"), "VERIF_CASES": cases})
    n = dedupe_cases(cases)
    if n < 1000:
        raise MachineryError("MacCmdGen emitted only %d cases" % n)
    run.coverage_extra["tlc_generated_cases"] = run.coverage_extra.get("tlc_generated_cases", 0) + n
    return cases


def c07(run):
    run.selftest()
    cases = gen_maccmd_cases(run)
    t = run.record("maccmd", "cases", cases=cases)
    run.validate("maccmd", t, "Trace_maccmd", label="(R) spec-enumerated values")
    t = run.record("maccmd", "values", n=T(run, 30000, 1500000))
    run.validate("maccmd", t, "Trace_maccmd", label="(V) full-domain values", chunk=100000)
    t = run.record("maccmd", "streams", n=T(run, 3000, 60000))
    run.validate("maccmd", t, "Trace_maccmd", label="(V) command streams", chunk=5000)
    t = run.record("maccmd", "decodeN", n=T(run, 600, 30000))
    run.validate("maccmd", t, "Trace_maccmd", label="(V) single commands decoded into long-lived payload / MACCommand values that served the CID before, in either direction", chunk=50000)
    t = run.record("maccmd", "lookup")
    run.validate("maccmd", t, "Trace_maccmd", label="(V) registry sizes")
    # registry: (D) all registration histories x streams; (R) every history in a fresh process; (V) random histories
    rcases = os.path.join(run.scratch, "registry-cases.ndjson")
    run.design_check("Registry", workers=1, env={"VERIF_REGHIST": T(run, "2", "3"), "VERIF_CASES": rcases})
    dedupe_cases(rcases)
    t = run.record("registry", "cases", cases=rcases)
    run.validate("registry", t, "Trace_registry", label="(R) registry histories", group_on="reset", chunk=8000)
    t = run.record("registry", "random", n=T(run, 200, 3000))
    run.validate("registry", t, "Trace_registry", label="(V) random registry histories", group_on="reset", chunk=8000)
    run.require_kinds("maccmd/enc", "maccmd/stream", "maccmd/lookup", "registry/register", "registry/pstream", "registry/lookup")
    run.rc = run.finish(assumptions=["projection table harness/proj_maccmd.go", "TLC + CommunityModules",
                                     "DON'T-CARE: RFU values inside a field's width (Version.Minor 2..15, ForceRejoinReq.RejoinType 1,3..7, DutyCycleReq 16..255, DeviceMode class 1,3..255)"])


def gen_frame_cases(run, mode):
    cases = os.path.join(run.scratch, "frame-%s-cases.ndjson" % mode)
    run.design_check("FrameGen", workers=1, env={"VERIF_GEN": run.tier, "VERIF_GENMODE": mode, "VERIF_CASES": cases})
    n = dedupe_cases(cases)
    if n < 1000:
        raise MachineryError("FrameGen(%s) emitted only %d cases" % (mode, n))
    run.coverage_extra["tlc_generated_cases"] = run.coverage_extra.get("tlc_generated_cases", 0) + n
    return cases


FRAME_ASSUME = ["projection tables harness/proj_frame.go, proj_maccmd.go", "TLC + CommunityModules",
                "DON'T-CARE: invalid frame values that the encoder accepts; Major values 1..3; CFList types other than 0/1"]


def c01(run):
    run.selftest()
    cases = gen_frame_cases(run, "val")
    t = run.record("frame", "cases", cases=cases)
    run.validate("frame", t, "Trace_frame", label="(R) shape-exhaustive frame values", chunk=4000)
    t = run.record("frame", "roundtrip", n=T(run, 4000, 120000))
    run.validate("frame", t, "Trace_frame", label="(V) random frame values", chunk=4000)
    t = run.record("frame", "bytes", n=T(run, 4000, 50000))
    run.validate("frame", t, "Trace_frame", label="(V) base64 path on byte strings", chunk=4000)
    run.require_kinds("frame/rt", "frame/bytes")
    run.rc = run.finish(assumptions=FRAME_ASSUME)


def c08(run):
    run.selftest()
    cases = gen_frame_cases(run, "bytes")
    t = run.record("frame", "bytecases", cases=cases)
    run.validate("frame", t, "Trace_frame", label="(R) guard-boundary byte shapes", chunk=8000)
    t = run.record("frame", "bytes", n=T(run, 40000, 3000000))
    run.validate("frame", t, "Trace_frame", label="(V) uniform + mutated byte strings", chunk=10000)
    run.require_kinds("frame/bytes")
    run.rc = run.finish(assumptions=FRAME_ASSUME + ["C08 does not assert WHICH strings are accepted, only that accepted ones are canonical"])


def c06(run):
    run.selftest()
    cases = gen_maccmd_cases(run)
    t = run.record("maccmd", "cases", cases=cases)
    run.validate("maccmd", t, "Trace_maccmd", label="(R) spec-enumerated command values -> encoder")
    t = run.record("maccmd", "decode1")
    run.validate("maccmd", t, "Trace_maccmd", label="(R) all 256 bytes of every 1-byte payload -> decoder")
    run.exhaustive.append("all byte values of every 1-byte MAC payload, both roles")
    t = run.record("maccmd", "decode2", n=T(run, 4000, 0))
    run.validate("maccmd", t, "Trace_maccmd", label="(R) 2-byte payloads -> decoder", chunk=50000)
    if run.tier == "thorough":
        run.exhaustive.append("all 65536 byte pairs of every 2-byte MAC payload")
    t = run.record("maccmd", "decodeN", n=T(run, 2000, 100000))
    run.validate("maccmd", t, "Trace_maccmd", label="(V) 3-5 byte payloads -> decoder", chunk=50000)
    t = run.record("maccmd", "values", n=T(run, 20000, 1000000))
    run.validate("maccmd", t, "Trace_maccmd", label="(V) random values -> encoder", chunk=100000)
    t = run.record("registry", "random", n=T(run, 120, 2000))
    run.validate("registry", t, "Trace_registry", label="(V) command streams decoded along registry histories (registrations, refused registrations, removals), each history in a fresh process", group_on="reset", chunk=8000)
    t = run.record("maccmd", "streams", n=T(run, 1500, 60000))
    run.validate("maccmd", t, "Trace_maccmd", label="(V) several commands (incl. repeated CIDs) in one FOpts / port-0 payload -> decoder", chunk=50000)
    fcases = gen_frame_cases(run, "val")
    t = run.record("frame", "cases", cases=fcases)
    run.validate("frame", t, "Trace_frame", label="(R) frame headers / join payloads / CFList", chunk=4000)
    t = run.record("frame", "roundtrip", n=T(run, 3000, 60000))
    run.validate("frame", t, "Trace_frame", label="(V) random frames -> bytes", chunk=4000)
    bcases = gen_frame_cases(run, "bytes")
    t = run.record("frame", "bytecases", cases=bcases)
    run.validate("frame", t, "Trace_frame", label="(R) byte shapes -> field values", chunk=8000)
    t = run.record("frame", "japayload", n=T(run, 3000, 100000))
    run.validate("frame", t, "Trace_frame", label="(V) decrypted join-accept payloads with reserved bits / bytes set -> field values", chunk=8000)
    t = run.record("crypto", "method", n=T(run, 120, 3000))
    run.validate("crypto", t, "Trace_crypto", prefix="C03.method", label="(V) the frame a sender holds after the Encrypt* / Decrypt* methods: FOptsLen, FOpts and payload bytes as specified", chunk=T(run, 130, 220))
    run.require_kinds("maccmd/enc", "maccmd/dec", "frame/rt", "frame/bytes", "frame/japl")
    run.rc = run.finish(assumptions=FRAME_ASSUME + ["DutyCycleReq is modelled as a whole byte (4-bit field + legacy 255): values 16..255 are DON'T-CARE"])


CRYPTO_ASSUME = ["AES (FIPS-197), AES-CMAC (RFC 4493) are written in TLA+ (spec/base) and checked against the published vectors on every run",
                 "projection tables harness/proj_frame.go", "keys/counters/payloads are seeded samples of their domains"]


def c02(run):
    run.selftest()
    run.design_check("MicSym", workers=8)
    t = run.record("crypto", "mic", n=T(run, 110, 3000))
    run.validate("crypto", t, "Trace_crypto", label="(V) set/validate under single-parameter perturbations", chunk=T(run, 130, 220))
    run.require_kinds("crypto/setmic", "crypto/validate")
    run.rc = run.finish(assumptions=CRYPTO_ASSUME)


def c03(run):
    run.selftest()
    run.design_check("CipherModel", workers=8, env={"VERIF_GEN": run.tier})
    t = run.record("crypto", "cipher", n=T(run, 400, 12000))
    run.validate("crypto", t, "Trace_crypto", label="(V) exported functions", chunk=T(run, 60, 200))
    t = run.record("crypto", "method", n=T(run, 250, 6000))
    run.validate("crypto", t, "Trace_crypto", label="(V) PHYPayload methods incl. error paths", chunk=T(run, 80, 250))
    run.require_kinds("crypto/encfrm", "crypto/encfopts", "crypto/method")
    run.rc = run.finish(assumptions=CRYPTO_ASSUME)


def c04(run):
    run.selftest()
    run.design_check("MicSym", workers=8)
    run.design_check("CipherModel", workers=8, env={"VERIF_GEN": run.tier})
    t = run.record("crypto", "join", n=T(run, 300, 12000))
    run.validate("crypto", t, "Trace_crypto", label="(V) join/rejoin/join-accept MIC + encryption", chunk=T(run, 150, 400))
    run.require_kinds("crypto/joinmic", "crypto/encja", "crypto/decja")
    run.rc = run.finish(assumptions=CRYPTO_ASSUME)


def c05(run):
    run.selftest()
    cases = os.path.join(run.scratch, "securelink-cases.ndjson")
    run.design_check("SecureLink", workers=1, env={"VERIF_GEN": run.tier, "VERIF_CASES": cases}, xmx="8g")
    n = dedupe_cases(cases)
    verdicts = {}
    for ln in open(cases):
        d = json.loads(ln)
        k = (d["exp"]["verdict"], d["exp"]["equal"])
        verdicts[k] = verdicts.get(k, 0) + 1
    if not all(verdicts.get(k, 0) > 0 for k in [("T", True), ("F", True), ("F", False), ("T", False)]):
        raise MachineryError("SecureLink vacuity guard: outcome classes %s" % verdicts)
    run.coverage_extra["securelink_maximal_behaviours"] = n
    run.coverage_extra["securelink_outcomes"] = {"%s/%s" % k: v for k, v in verdicts.items()}
    t = run.record("link", "cases", cases=cases, n=T(run, 700, 24000))
    run.validate("link", t, "Trace_link", label="(R) SecureLink behaviours on real PHYPayload values", chunk=T(run, 360, 800))
    t = run.record("link", "flips", n=T(run, 8, 160))
    run.validate("link", t, "Trace_link", label="(V) every single-bit corruption of serialised frames", chunk=T(run, 160, 300))
    run.require_kinds("link/linkend", "link/flip", "link/method", "link/validate", "link/wire", "link/unwire", "link/setmic")
    run.rc = run.finish(assumptions=CRYPTO_ASSUME + ["behaviours replayed are a seeded sample of the model's maximal behaviours (all of them are checked on the model)"])


BAND_ASSUME = ["Regional Parameters tables in spec/lorawan/RegionalParameters.tla are transcribed offline; cells that cannot be vouched for are Unknown and constrain nothing (LR-FHSS data-rates, per-revision payload sizes, TX-power step counts of US915/AU915)",
               "read-only snapshot hook band/verif_snapshot.go (build tag verif)"]


def band_tables(run):
    run.design_check("BandRulesModel", workers=4)
    t = run.record("band", "tables")
    run.validate("band", t, "Trace_band", label="(V) all 24 names x repeater x dwell-time, full argument ranges", chunk=7)
    run.exhaustive.append("every band configuration x every accessor argument in range (DR -2..16 x offset -2..9, all channels, 8 versions x 9 revisions x DR -1..15)")


def c12(run):
    band_tables(run)
    t = run.record("band", "pingslot", n=T(run, 300, 60000))
    run.validate("band", t, "Trace_band", label="(V) ping-slot frequency for seeded DevAddr / beacon times", chunk=20000)
    t = run.record("chplan", "history", n=T(run, 56, 7000))
    run.validate("chplan", t, "Trace_chplan", label="(V) RX1 channel / frequency consistency along channel-plan histories (added, duplicate-frequency, disabled channels)", chunk=T(run, 150, 1500), group_on="reset")
    run.require_kinds("band/bandcfg", "band/pingslot", "chplan/op")
    run.rc = run.finish(assumptions=BAND_ASSUME, exhaustive=False)


def c13(run):
    band_tables(run)
    t = run.record("chplan", "history", n=T(run, 56, 7000))
    run.validate("chplan", t, "Trace_chplan", label="(V) enabled data-rates stay defined along channel-plan histories, all 14 bands", chunk=T(run, 150, 1500), group_on="reset")
    t = run.record("chplan", "drranges")
    run.validate("chplan", t, "Trace_chplan", label="(V) every band x every data-rate range a..b added as a custom channel", chunk=300, group_on="reset")
    run.exhaustive.append("all data-rate ranges 0 <= a <= b <= 15 as one added channel, per band")
    run.require_kinds("band/bandcfg", "chplan/op")
    run.rc = run.finish(assumptions=BAND_ASSUME + ["channel-plan histories are seeded samples; the tables themselves are fully enumerated"], exhaustive=True)


def c14(run):
    run.design_check("ChannelPlanModel", workers=8, env={"VERIF_GEN": run.tier, "VERIF_GENMODE": "plan"})
    t = run.record("chplan", "plan", n=T(run, 70, 7000))
    run.validate("chplan", t, "Trace_chplan", label="(V) histories x structured/random device sets, all 14 bands", chunk=T(run, 400, 4000))
    t = run.record("chplan", "plan72", n=T(run, 30, 1500))
    run.validate("chplan", t, "Trace_chplan", label="(V) nearly complete 72- / 96-channel plans (single channels off at block edges) x device sets", chunk=T(run, 400, 4000))
    t = run.record("chplan", T(run, "planexh10", "planexh"), n=T(run, 4, 24))
    run.validate("chplan", t, "Trace_chplan", label="(V) ALL device subsets of <=%s-channel plans" % T(run, 10, 16), chunk=T(run, 800, 8000))
    run.exhaustive.append("all 2^n device subsets of the generated <=%s-channel plans" % T(run, 10, 16))
    run.require_kinds("chplan/plan")
    run.rc = run.finish(assumptions=BAND_ASSUME + ["device sets are subsets of the plan's indices", "LinkADRReq semantics (ChMaskCntl blocks; 6/7 for US915/AU915) in spec/lorawan/ChannelPlan.tla"])


def c15(run):
    run.design_check("ChannelPlanModel", workers=8, env={"VERIF_GEN": run.tier, "VERIF_GENMODE": "history"})
    t = run.record("chplan", "history", n=T(run, 56, 14000))
    run.validate("chplan", t, "Trace_chplan", label="(V) operation histories with arbitrary int arguments, all 14 bands", chunk=T(run, 150, 1500), group_on="reset")
    t = run.record("chplan", "drranges")
    run.validate("chplan", t, "Trace_chplan", label="(V) every band x every data-rate range a..b added as a custom channel", chunk=300, group_on="reset")
    t = run.record("chplan", "plan", n=T(run, 28, 1400))
    run.validate("chplan", t, "Trace_chplan", label="(V) planner / applier called with device channel lists incl. indices the plan does not have: they return", chunk=T(run, 400, 4000))
    t = run.record("chplan", "xlayer")
    run.validate("chplan", t, "Trace_chplan", label="(V) MAC-layer encodability of band outputs")
    t = run.record("band", "tables")
    run.validate("band", t, "Trace_band", label="(V) channel accessors over index ranges incl. negatives", chunk=7)
    run.require_kinds("chplan/op", "chplan/reset", "chplan/cflist", "chplan/xlayer", "band/bandcfg")
    run.rc = run.finish(assumptions=BAND_ASSUME + ["AddChannel frequencies are multiples of 100 Hz inside the band's range (an arbitrary user frequency that no LoRaWAN field can carry is DON'T-CARE)",
                                                  "CFList expectation is not asserted while a zero-frequency custom slot exists"])


def c11(run):
    run.design_check("NetIDModel", workers=8, env={"VERIF_GEN": run.tier})
    if run.tier == "thorough":
        t = run.record("ident", "allnetids", n=1, timeout=7200)
        run.validate("ident", t, "Trace_ident", label="(V) ALL 2^24 NetIDs x address patterns", chunk=120000, xmx="4g", timeout=7200)
        run.exhaustive.append("all 2^24 NetIDs")
    else:
        t = run.record("ident", "netids", n=50000)
        run.validate("ident", t, "Trace_ident", label="(V) structured + random NetIDs x address patterns", chunk=8000)
    t = run.record("ident", "repr", n=T(run, 1500, 60000))
    run.validate("ident", t, "Trace_ident", label="(V) text/binary/database representations", chunk=4000)
    t = run.record("ident", "concurrent", n=T(run, 6, 100))
    run.validate("ident", t, "Trace_ident", label="(V) eight goroutines, one NetID each (all types), SetAddrPrefix / IsNetID in tight loops: every distinct result", chunk=8000)
    run.require_kinds("ident/prefix", "ident/repr")
    run.rc = run.finish(assumptions=["addressing rules of LoRaWAN 1.1 sec. 6.1.1 / Backend Interfaces in spec/lorawan/NetID.tla", "DevAddr/identifier values are seeded samples (NetIDs exhaustive in the thorough tier)"],
                        exhaustive=False)


def c20(run):
    run.design_check("MiscModel", workers=4)
    t = run.record("misc", "gps", n=T(run, 6000, 300000))
    run.validate("misc", t, "Trace_misc", label="(V) UTC<->GPS around all leap seconds + 1980..2100", chunk=20000)
    t = run.record("misc", "gpsfirst", n=T(run, 300, 20000))
    run.validate("misc", t, "Trace_misc", label="(V) GPS->UTC as the first calls of a fresh process", chunk=20000)
    t = run.record("misc", "airtime", n=T(run, 0, 1))
    run.validate("misc", t, "Trace_misc", label="(V) airtime sweeps payload 0..255 per parameter point", chunk=T(run, 125, 400))
    if run.tier == "thorough":
        run.exhaustive.append("SF 5..12 x BW {125,250,500,812,1625} x CR 1..4 x header x LDRO x preamble 0..64 x payload 0..255")
    t = run.record("misc", "eirp", n=T(run, 3000, 300000))
    run.validate("misc", t, "Trace_misc", label="(V) EIRP index for integral/half-integral/random float32 powers, all 256 indices", chunk=50000)
    run.exhaustive.append("all 256 TXParamSetup EIRP index bytes")
    run.require_kinds("misc/gps", "misc/gpsback", "misc/gpspair", "misc/airtime", "misc/eirp", "misc/eirpdec")
    run.rc = run.finish(assumptions=["published leap-second list (IERS) transcribed in spec/lorawan/Misc.tla", "airtime tolerance: the library truncates the symbol time to whole ns, |lib - exact| <= #payload symbols + preamble + 6 ns is accepted; the symbol COUNT must be exact",
                                     "the harness splits Go durations/instants into (days, seconds, ns) and base-10^4 limbs by plain integer division", "sensitivity package is not in the statement and not modelled"])


def c18(run):
    run.selftest()
    cases = os.path.join(run.scratch, "applayer-cases.ndjson")
    run.design_check("AppLayerGen", workers=1, env={"VERIF_GEN": run.tier, "VERIF_CASES": cases})
    n = dedupe_cases(cases)
    run.coverage_extra["tlc_generated_cases"] = n
    t = run.record("applayer", "cases", cases=cases)
    run.validate("applayer", t, "Trace_applayer", label="(R) spec-enumerated command values and sequences", chunk=3000)
    run.exhaustive.append("every byte value of every single-byte application-layer payload")
    t = run.record("applayer", "commands", n=T(run, 60, 3000))
    run.validate("applayer", t, "Trace_applayer", label="(V) random in-range values of every payload type", chunk=4000)
    t = run.record("applayer", "streams", n=T(run, 2500, 120000))
    run.validate("applayer", t, "Trace_applayer", label="(V) command sequences of 1..6 commands", chunk=4000)
    t = run.record("own", "reuse", n=T(run, 20, 600))
    run.validate("own", t, "Trace_own", label="(V) commands decoded into used values (same CID again, the other direction first, cut-short inputs)", chunk=2000)
    t = run.record("applayer", "mckeys", n=T(run, 60, 3000))
    run.validate("applayer", t, "Trace_applayer", label="(V) multicast key derivations (in-TLA+ AES)", chunk=100)
    run.require_kinds("applayer/alstream", "applayer/mckey")
    run.rc = run.finish(assumptions=["TS003/TS004/TS005/TS006 command tables in spec/lorawan/AppLayer.tla (field names = the library's leaf field names)", "generic reflection projection harness/proj_applayer.go",
                                     "a DataFragment (implicit length) is only generated as the last command of a sequence", "DevUpgradeImageAns with status FirmwareValid cannot be constructed through the exported API (only no-panic is asserted for it)"])


def c19(run):
    cases = os.path.join(run.scratch, "frag-cases.ndjson")
    run.design_check("FragModel", workers=1, env={"VERIF_GEN": run.tier, "VERIF_CASES": cases}, xmx="6g")
    dedupe_cases(cases)
    t = run.record("fec", "cases", cases=cases)
    run.validate("fec", t, "Trace_fec", label="(R) every erasure pattern of small blocks -> real encoder -> spec decoder", chunk=T(run, 1000, 4000))
    run.exhaustive.append("all erasure patterns for M<=%s, redundancy<=%s" % (T(run, 7, 10), T(run, 4, 6)))
    t = run.record("fec", "encode", n=T(run, 150, 6000))
    run.validate("fec", t, "Trace_fec", label="(V) sizes 1..64 x counts 1..300 x redundancy 0..100, invalid sizes", chunk=T(run, 12, 60))
    t = run.record("fec", "concurrent", n=T(run, 6, 150))
    run.validate("fec", t, "Trace_fec", label="(V) eight encoders running at the same time, each result against the specification", chunk=T(run, 12, 60))
    run.require_kinds("fec/fec", "fec/feclin")
    run.rc = run.finish(assumptions=["TS004 reference matrix_line / prbs23 in spec/lorawan/FragFEC.tla", "negative redundancy is DON'T-CARE"])


def c17(run):
    run.selftest()
    run.design_check("BackendModel", workers=4, env={"VERIF_GEN": run.tier})
    t = run.record("bjson", "percent")
    run.validate("bjson", t, "Trace_bjson", label="(V) Percentage 0..1000 exhaustively")
    run.exhaustive.append("Percentage 0..1000")
    t = run.record("bjson", "freq", n=T(run, 4000, 3000000))
    run.validate("bjson", t, "Trace_bjson", label="(V) Frequency: all multiples of 100 kHz, neighbours, random 0..2^32", chunk=T(run, 5000, 50000))
    t = run.record("bjson", "text", n=T(run, 1500, 100000))
    run.validate("bjson", t, "Trace_bjson", label="(V) hex byte strings and ISO 8601 timestamps", chunk=5000)
    t = run.record("bjson", "structs", n=T(run, 100, 2500))
    run.validate("bjson", t, "Trace_bjson", label="(V) the 20 payload structs with random optional-field combinations", chunk=500)
    t = run.record("client", "sync", n=T(run, 300, 10000))
    run.validate("client", t, "Trace_client", label="(V) request payloads through the synchronous backend client to a scripted peer (loopback HTTP)", chunk=2000)
    t = run.record("bjson", "envelope", n=T(run, 300, 10000))
    run.validate("bjson", t, "Trace_bjson", label="(V) key envelopes: 16/24/32-byte KEKs, tampered, wrong KEK (RFC 3394 in TLA+)", chunk=T(run, 20, 100))
    run.require_kinds("bjson/num", "bjson/hex", "bjson/time", "bjson/struct", "bjson/envelope")
    run.rc = run.finish(assumptions=["the marshalled JSON document is embedded in the trace after a purely lexical rewrite of its leaves (numbers/strings as character codes)",
                                     "float64-typed optional fields are compared as their JSON text (identity oracle)", "RFC 3394 / AES written in TLA+ (published vectors re-checked each run)"])


def c16(run):
    run.selftest()
    run.design_check("JoinProcModel", workers=8)
    t = run.record("join", "requests", n=T(run, 240, 30000))
    run.validate("join", t, "Trace_join", label="(V) join/rejoin requests through the real http.Handler, sequential and concurrent batches", chunk=T(run, 15, 100))
    t = run.record("join", "misc", n=T(run, 200, 20000))
    run.validate("join", t, "Trace_join", label="(V) HomeNSReq flow and malformed requests", chunk=5000)
    run.require_kinds("join/joinsrv", "join/homens", "join/joinbad")
    run.rc = run.finish(assumptions=["independent device / NS / AS model spec/lorawan/JoinProc.tla with AES, AES-CMAC and RFC 3394 in TLA+",
                                     "CFLists in requests are spec-valid (mask type: RFU bytes zero); rejoin-requests with OptNeg clear and rejoin-requests with a wrong MIC are DON'T-CARE beyond the result code",
                                     "the KEK label of the NS is the request's SenderID"])


def c09(run):
    cases = os.path.join(run.scratch, "total-cases.ndjson")
    run.design_check("TotalShapes", workers=1, env={"VERIF_CASES": cases})
    n = dedupe_cases(cases)
    run.coverage_extra["tlc_generated_cases"] = n
    t = run.record("total", "cases", cases=cases)
    run.validate("total", t, "Trace_total", label="(R) guard-boundary shapes of application-layer / MAC-command / payload decoders", chunk=20000)
    bcases = gen_frame_cases(run, "bytes")
    t = run.record("frame", "bytecases", cases=bcases)
    run.validate("frame", t, "Trace_frame", label="(R) frame byte shapes through decode + decrypt-then-decode + validate", chunk=8000)
    t = run.record("total", "small")
    run.validate("total", t, "Trace_total", label="(V) 44 entry points x EVERY input of length 0..2 over a 28-symbol punctuation/hex alphabet (+ quoted and 3-symbol hex-like forms)", chunk=20000)
    run.exhaustive.append("all inputs of length <= 2 over the 28-symbol alphabet, per decoder entry point")
    t = run.record("total", "random", n=T(run, 60000, 6000000))
    run.validate("total", t, "Trace_total", label="(V) %d entry points x random / textual / mutated inputs of 0..512 bytes" % 44, chunk=100000)
    t = run.record("frame", "bytes", n=T(run, 15000, 800000))
    run.validate("frame", t, "Trace_frame", label="(V) uniform + mutated frames: every follow-up decoder with random keys", chunk=10000)
    t = run.record("maccmd", "decodeN", n=T(run, 500, 20000))
    run.validate("maccmd", t, "Trace_maccmd", label="(V) MAC payload decoders incl. wrong lengths", chunk=50000)
    t = run.record("own", "reuse", n=T(run, 20, 600))
    run.validate("own", t, "Trace_own", label="(V) decoders given used values (what an earlier decode left behind) and cut-short exact-capacity inputs", chunk=2000)
    t = run.record("regconc", "mix", n=T(run, 6, 80))
    run.validate("crypto", t, "Trace_crypto", label="(V) decoders running while proprietary commands are registered and removed: every call returns (hang watchdog)", chunk=T(run, 60, 200), prefix="C09")
    run.require_kinds("total/total", "frame/bytes", "maccmd/dec")
    run.rc = run.finish(assumptions=["C09 asserts totality only (value or error, input untouched); which inputs are accepted is decided by C01/C06/C08",
                                     "'time linear in the input' is enforced only as a 5 s per-call deadline; coverage-guided fuzzing is not used (DESIGN sec. 4)"])


def c10(run):
    run.selftest()
    # ownership / aliasing
    ocases = os.path.join(run.scratch, "own-cases.ndjson")
    run.design_check("OwnershipModel", workers=1, env={"VERIF_GEN": run.tier, "VERIF_CASES": ocases})
    dedupe_cases(ocases)
    t = run.record("own", "cases", cases=ocases, n=T(run, 500, 0))
    run.validate("own", t, "Trace_own", label="(R) OwnershipModel operation sequences on real buffers", chunk=T(run, 300, 1200), group_on="reset")
    t = run.record("own", "sequences", n=T(run, 120, 6000))
    run.validate("own", t, "Trace_own", label="(V) seeded decode/overwrite/encode/encrypt-in-place/inspect histories", chunk=T(run, 200, 1200), group_on="reset")
    t = run.record("own", "reuse", n=T(run, 20, 1500))
    run.validate("own", t, "Trace_own", label="(V) decode into used vs fresh value: 29 MAC payloads, CFList, frames, application layer", chunk=2000)
    t = run.record("own", "bands", n=T(run, 56, 5600))
    run.validate("own", t, "Trace_own", label="(V) band instances share no mutable state", chunk=20)
    # concurrency
    ccases = os.path.join(run.scratch, "regconc-cases.ndjson")
    run.design_check("RegistryConc", workers=1, env={"VERIF_GEN": run.tier, "VERIF_CASES": ccases})
    dedupe_cases(ccases)
    t = run.record("regconc", "cases", cases=ccases, n=T(run, 150, 2500))
    run.validate("regconc", t, "Trace_regconc", label="(R) RegistryConc interleavings replayed with the blocking hook as scheduler gate", chunk=2000, group_on="reset")
    t = run.record("regconc", "free", n=T(run, 12, 200))
    run.validate("regconc", t, "Trace_regconc", label="(V) free-running lookups / registrations, hook events in sequence order", chunk=3000, group_on="reset")
    t = run.record("regconc", "mix", n=T(run, 9, 150))
    run.validate("crypto", t, "Trace_crypto", label="(V) concurrent MIC / encryption / decrypt-then-decode on distinct values vs the sequential specification", chunk=T(run, 60, 200), prefix="C0")
    t = run.record("maccmd", "shared", n=T(run, 3, 40))
    run.validate("maccmd", t, "Trace_maccmd", label="(V) six goroutines decoding the SAME source bytes: every result against the specification, source untouched", chunk=50000, prefix="C0")
    run.require_kinds("own/own", "own/reuse", "own/bandiso", "regconc/hook", "crypto/setmic|crypto/crash", "crypto/method|crypto/crash")
    run.rc = run.finish(assumptions=["registry hooks (build tag verif) observe the lock state with TryLock/TryRLock probes: exact under gated replay, one-sided in free-running recordings",
                                     "data races on memory that no hook observes and that change no result are not decidable by trace validation (DESIGN sec. 4); the Go race detector is not on the verdict path",
                                     "tracked buffers are observed over their full capacity"])


def ext(run):
    """Extended coverage: behaviour of brocaar/lorawan outside the 20 listed properties (clause prefix "X.").
    Not registered in MANIFEST.json; failures print EXT-FAIL and never enter a property verdict."""
    run.design_check("BackendClientModel", cfg="BackendClientModel.cfg", workers=4)
    run.design_check("BackendClientModel", cfg="BackendClientModel_sync.cfg", workers=2)
    run.design_check("BackendClientModel", cfg="BackendClientModel_postfirst.cfg", workers=2, expect_violation="NoLostAnswer")
    run.design_check("BackendClientModel", cfg="BackendClientModel_sametx.cfg", workers=2, expect_violation="ExactAnswer")
    t = run.record("client", "sync", n=T(run, 400, 20000))
    run.validate("client", t, "Trace_client", prefix="X.", label="(V) synchronous backend client against a scripted peer (loopback HTTP)", chunk=2000)
    t = run.record("band", "misc")
    run.validate("band", t, "Trace_band", prefix="X.", label="(V) max EIRP, TxParamSetup support, downlink TX power per band")
    t = run.record("misc", "sens", n=T(run, 2000, 200000))
    run.validate("misc", t, "Trace_misc", prefix="X.", label="(V) receiver sensitivity / link budget relations", chunk=20000)
    t = run.record("frame", "japayload", n=T(run, 3000, 100000))
    run.validate("frame", t, "Trace_frame", prefix="X.", label="(V) a decoded join-accept payload is one the encoder accepts and decodes to itself", chunk=8000)
    t = run.record("jsonview", "frames", n=T(run, 1500, 60000))
    run.validate("jsonview", t, "Trace_jsonview", prefix="X.", label="(V) the JSON document of a frame has exactly the leaves of the specification's view", chunk=4000)
    t = run.record("misc", "zerovalue")
    run.validate("misc", t, "Trace_misc", prefix="X.", label="(V) methods on zero values / nil members return")
    run.require_kinds("client/client", "band/bandmisc", "misc/sens", "frame/japl", "misc/zerovalue", "jsonview/jsonview")
    run.rc = run.finish(assumptions=["extended coverage, outside the listed properties", "the asynchronous (Redis) client mode is covered by the design model only: no Redis server can run here",
                                     "max EIRP values and TxParamSetup support from RP002-1.0.x as transcribed in spec/trace/Trace_band.tla"])


PROPS = {"EXT": ext, "C01": c01, "C10": c10, "C09": c09, "C16": c16, "C17": c17, "C18": c18, "C19": c19, "C20": c20, "C11": c11, "C14": c14, "C15": c15, "C12": c12, "C13": c13, "C05": c05, "C02": c02, "C03": c03, "C04": c04, "C06": c06, "C07": c07, "C08": c08}


def replay(run, path):
    """Re-executes the check deterministically with the seed and tier stored in the replay file (all
    generators are seeded, TLC exhaustive runs are deterministic) and reports whether the stored
    violation (same family, same clauses) shows again on the current tree."""
    d = json.load(open(path))
    run.seed, run.tier = int(d.get("seed", 1)), d.get("tier", "quick")
    print("replay: property=%s seed=%d tier=%s stored clauses=%s stored event:" % (run.prop, run.seed, run.tier, ",".join(d.get("clauses", []))))
    print(json.dumps(d["event"])[:1500])
    PROPS[run.prop](run)
    again = [f for f in run.fails if f[0] == d.get("family") and set(d.get("clauses", [])) <= set(f[2])]
    print("replay: %s (%d matching failing events in this run)" % ("REPRODUCED" if again else "not reproduced on the current tree", len(again)))
    return run.rc
