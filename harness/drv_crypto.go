package main

import (
	"fmt"
	"github.com/brocaar/lorawan/backend"
	"hash/crc32"

	"github.com/brocaar/lorawan"
)

func init() { families["crypto"] = drvCrypto }

var keyHist []lorawan.AES128Key

func minInt(a, b int) int {
	if a < b {
		return a
	}
	return b
}

func (c *ctx) key() lorawan.AES128Key {
	var k lorawan.AES128Key
	copy(k[:], c.bytesN(16))
	switch c.rnd.Intn(24) { // special keys: the Go zero value (all zero), all ones, a single set bit
	case 0:
		k = lorawan.AES128Key{}
	case 1:
		for i := range k {
			k[i] = 0xff
		}
	case 2:
		k = lorawan.AES128Key{}
		k[c.rnd.Intn(16)] = 1 << uint(c.rnd.Intn(8))
	case 3, 4, 5:
		// a key that was used earlier in this process - any number of other keys ago (a device that comes back)
		if len(keyHist) > 0 {
			k = keyHist[c.rnd.Intn(len(keyHist))]
		}
	case 6:
		// a key that equals an earlier key under a weak digest (CRC-32, Adler-32, FNV, byte sum / xor, leading or trailing
		// bytes): whatever is remembered per key under less than the key itself gives the wrong answer here
		if n := len(keyHist); n > 0 {
			i := c.rnd.Intn(n)
			if c.rnd.Intn(2) == 0 { // ... of one of the last keys: small tables forget quickly
				i = n - 1 - c.rnd.Intn(minInt(3, n))
			}
			k = weakTwin(c, keyHist[i])
		}
	}
	if len(keyHist) < 4096 {
		keyHist = append(keyHist, k)
	}
	return k
}

// crc32Twin returns a key with the same CRC-32 (polynomial tab) as k that differs from it in bytes 8..15: four bytes are
// chosen freely, the last four are solved for (the CRC register after 12 bytes determines them: CRC is run backwards from
// the wanted final register).
func crc32Twin(c *ctx, k lorawan.AES128Key, tab *crc32.Table) lorawan.AES128Key {
	t := k
	copy(t[8:12], c.bytesN(4))
	// register (pre-inversion form) after the first 12 bytes of t, and wanted final register = that of k
	reg := func(b []byte) uint32 {
		r := uint32(0xffffffff)
		for _, x := range b {
			r = tab[byte(r)^x] ^ r>>8
		}
		return r
	}
	want := reg(k[:])
	cur := reg(t[:12])
	// run the table backwards: find the 4 table indices that produce `want` from any register, then the bytes
	var idx [4]byte
	w := want
	for i := 3; i >= 0; i-- {
		for j := 0; j < 256; j++ {
			if byte(tab[j]>>24) == byte(w>>24) {
				idx[i] = byte(j)
				w = (w ^ tab[j]) << 8
				break
			}
		}
	}
	r := cur
	for i := 0; i < 4; i++ {
		t[12+i] = byte(r) ^ idx[i]
		r = tab[idx[i]] ^ r>>8
	}
	return t
}

func weakTwin(c *ctx, k lorawan.AES128Key) lorawan.AES128Key {
	t := k
	switch c.rnd.Intn(8) {
	case 0:
		t = crc32Twin(c, k, crc32.IEEETable)
	case 1:
		t = crc32Twin(c, k, crc32.MakeTable(crc32.Castagnoli))
	case 2: // same byte sum and same xor-fold is too much to ask; same byte sum (also Adler's low half): move one unit
		i, j := c.rnd.Intn(16), c.rnd.Intn(16)
		if i != j && t[i] < 255 && t[j] > 0 {
			t[i]++
			t[j]--
		}
	case 3: // same xor of all bytes: flip the same bit in two bytes
		i, j, b := c.rnd.Intn(16), c.rnd.Intn(16), byte(1)<<uint(c.rnd.Intn(8))
		if i != j {
			t[i] ^= b
			t[j] ^= b
		}
	case 4: // same leading 8 bytes
		copy(t[8:], c.bytesN(8))
	case 5: // same trailing 8 bytes
		copy(t[:8], c.bytesN(8))
	case 6: // same leading 4 and trailing 4 bytes
		copy(t[4:12], c.bytesN(8))
	default: // the same bytes in another order (equal as a multiset, equal under any symmetric digest)
		i, j := c.rnd.Intn(16), c.rnd.Intn(16)
		t[i], t[j] = t[j], t[i]
	}
	return t
}

func cloneM(v interface{}) interface{} {
	switch t := v.(type) {
	case M:
		o := M{}
		for k, x := range t {
			o[k] = cloneM(x)
		}
		return o
	case []interface{}:
		o := make([]interface{}, len(t))
		for i := range t {
			o[i] = cloneM(t[i])
		}
		return o
	case []int:
		return append([]int{}, t...)
	default:
		return v
	}
}

type micParams struct {
	ver        int
	conf       uint32
	txdr, txch uint8
	fkey, skey lorawan.AES128Key
}

func (p micParams) fields(ev M) {
	ev["ver"] = p.ver
	ev["conf"] = le32(p.conf)
	ev["txdr"] = int(p.txdr)
	ev["txch"] = int(p.txch)
	ev["fkey"] = bs(p.fkey[:])
	ev["skey"] = bs(p.skey[:])
}

func validateEvent(which string, phy *lorawan.PHYPayload, p micParams, label string) M {
	ev := M{"ev": "validate", "which": which, "label": label}
	p.fields(ev)
	ev["frame"] = phyToVal(phy)
	var ok bool
	res, _ := observeFast(func() error {
		var err error
		switch which {
		case "up":
			ok, err = phy.ValidateUplinkDataMIC(lorawan.MACVersion(p.ver), p.conf, p.txdr, p.txch, p.fkey, p.skey)
		case "upF":
			ok, err = phy.ValidateUplinkDataMICF(p.fkey)
		case "down":
			ok, err = phy.ValidateDownlinkDataMIC(lorawan.MACVersion(p.ver), p.conf, p.skey)
		}
		return err
	})
	ev["err"] = res
	ev["ok"] = ok
	return ev
}

func flipKey(k lorawan.AES128Key, bit int) lorawan.AES128Key {
	k[bit/8%16] ^= 1 << uint(bit%8)
	return k
}

// provoke: one time in four, calls that FAIL (invalid frame values, garbage input) are made right before a recorded case;
// their own results are not recorded - the point is that a failing call must leave nothing behind that changes the next one.
func (c *ctx) provoke() {
	if c.rnd.Intn(4) != 0 {
		return
	}
	k := c.key()
	observeFast(func() error {
		phy := valToPhy(c.genJoinFrame(true), false)
		phy.SetUplinkJoinMIC(k)
		phy.SetDownlinkJoinMIC(lorawan.JoinType(c.pick(0xff, 0, 1, 2)), lorawan.EUI64{1}, 7, k)
		phy.EncryptJoinAcceptPayload(k)
		phy.MarshalBinary()
		return nil
	})
	observeFast(func() error {
		phy := valToPhy(c.genDataFrame(true), false)
		phy.SetUplinkDataMIC(lorawan.LoRaWAN1_1, 1, 2, 3, k, k)
		phy.SetDownlinkDataMIC(lorawan.LoRaWAN1_1, 1, k)
		phy.EncryptFOpts(k)
		phy.EncryptFRMPayload(k)
		phy.MarshalBinary()
		return nil
	})
	observeFast(func() error {
		var p lorawan.PHYPayload
		p.UnmarshalBinary(c.bytesN(c.rnd.Intn(30)))
		lorawan.EncryptFOpts(k, true, true, lorawan.DevAddr{}, 1, c.bytesN(16+c.rnd.Intn(4)))
		return nil
	})
}

// disturb: one time in three, OTHER values are encoded between obtaining an encoding result and reading it: a result that
// was handed out must not change when the library is used again (no result lives in a buffer the library re-uses).
var curCtx *ctx

func disturb() {
	c := curCtx
	if c == nil || c.rnd.Intn(3) != 0 {
		return
	}
	observeFast(func() error {
		phy := valToPhy(c.genDataFrame(false), false)
		phy.MarshalBinary()
		phy.MarshalText()
		k := cmdKeys[c.rnd.Intn(len(cmdKeys))]
		valToPayload(k, c.genCmdVal(k, true)).MarshalBinary()
		var e lorawan.EUI64
		var a lorawan.AES128Key
		var d lorawan.DevAddr
		var n lorawan.NetID
		copy(e[:], c.bytesN(8))
		copy(a[:], c.bytesN(16))
		copy(d[:], c.bytesN(4))
		copy(n[:], c.bytesN(3))
		e.MarshalText()
		a.MarshalText()
		d.MarshalText()
		n.MarshalText()
		d.MarshalBinary()
		n.MarshalBinary()
		backend.HEXBytes(c.bytesN(9)).MarshalText()
		return nil
	})
}

// zeroMicCase: a LoRaWAN 1.1 uplink whose specified MIC is 00000000 (a value code may take for "not set").  The two
// halves of that MIC depend on different inputs, so two searches of 2^16 steps find one: the frame counter for the cmacF
// half, then TxCh and one key byte for the cmacS half.  The library's own functions drive the search; whatever stops it -
// the wanted MIC or an error - is recorded and judged by the specification.
func (c *ctx) zeroMicCase() {
	p := micParams{ver: 1, conf: c.rnd.Uint32(), txdr: uint8(c.rnd.Intn(16)), txch: 0}
	copy(p.fkey[:], c.bytesN(16))
	copy(p.skey[:], c.bytesN(16))
	fp := uint8(1 + c.rnd.Intn(200))
	mp := &lorawan.MACPayload{FHDR: lorawan.FHDR{FCtrl: lorawan.FCtrl{ACK: true}}, FPort: &fp, FRMPayload: []lorawan.Payload{&lorawan.DataPayload{Bytes: c.bytesN(5)}}}
	copy(mp.FHDR.DevAddr[:], c.bytesN(4))
	phy := &lorawan.PHYPayload{MHDR: lorawan.MHDR{MType: lorawan.ConfirmedDataUp, Major: lorawan.LoRaWANR1}, MACPayload: mp}
	set := func() string {
		res, _ := observeFast(func() error { return phy.SetUplinkDataMIC(lorawan.LoRaWAN1_1, p.conf, p.txdr, p.txch, p.fkey, p.skey) })
		return res
	}
	emit := func(res string) {
		ev := M{"ev": "setmic", "dir": "up", "err": res, "frame": phyToVal(phy), "label": "zero-mic"}
		p.fields(ev)
		c.emit(ev)
		if res == "" {
			c.emit(validateEvent("up", phy, p, "zero-mic"))
		}
	}
	found := false
	for round := 0; round < 16 && !found; round++ {
		mp.FHDR.DevAddr[3]++
		for i := 0; i < 65536 && !found; i++ {
			mp.FHDR.FCnt = uint32(i)
			if res := set(); res != "" {
				emit(res)
				return
			}
			found = phy.MIC[2] == 0 && phy.MIC[3] == 0
		}
	}
	if !found {
		return
	}
	for j := 0; j < 1<<20; j++ {
		p.txch, p.skey[15], p.skey[14] = uint8(j), uint8(j>>8), uint8(j>>16)
		if res := set(); res != "" {
			emit(res)
			return
		}
		if phy.MIC == (lorawan.MIC{}) {
			emit("")
			return
		}
	}
}

func (c *ctx) micCase(maxFrm int) {
	c.provoke()
	v := c.genDataFrame(false)
	// application payloads up to 255 bytes exercise multi-block CMAC lengths and the len byte
	if fp := anyList(v["fport"]); len(fp) == 1 && num(fp[0]) != 0 && c.rnd.Intn(3) == 0 {
		v["frm"] = c.genRawItem(c.pick(0, 1, 15, 16, 17, 200, 230, 231, 232, 240, 242, maxFrm))
	}
	mt := num(v["mtype"])
	up := mtypeUp(mt)
	p := micParams{ver: c.rnd.Intn(2), conf: c.rnd.Uint32(), txdr: uint8(c.rnd.Intn(256)), txch: uint8(c.rnd.Intn(256)), fkey: c.key(), skey: c.key()}
	if c.rnd.Intn(3) == 0 {
		p.conf = uint32(c.pick(0, 1, 65535, 65536, 65537))
	}
	if c.rnd.Intn(5) == 0 {
		p.skey = p.fkey // byte-identical FNwkSIntKey and SNwkSIntKey (a 1.0 session on a 1.1 stack): the B1 half still binds ConfFCnt / TxDr / TxCh
	}
	phy := valToPhy(v, false)
	if c.rnd.Intn(5) == 0 {
		// the frame is not built from scratch but derived from a RECEIVED one through the exported fields (an answer or a
		// forwarded frame re-using the decoded value): decode, then change what a caller may change
		if b, err := phy.MarshalBinary(); err == nil {
			var rx lorawan.PHYPayload
			if rx.UnmarshalBinary(b) == nil {
				if m, ok := rx.MACPayload.(*lorawan.MACPayload); ok {
					switch c.rnd.Intn(4) {
					case 0:
						m.FHDR.FOpts = nil
					case 1:
						m.FPort, m.FRMPayload = nil, nil
					case 2:
						m.FHDR.FOpts = nil
						m.FHDR.FCnt++
						m.FHDR.FCtrl.ACK = !m.FHDR.FCtrl.ACK
					default:
						if len(m.FHDR.FOpts) > 0 {
							m.FHDR.FOpts = m.FHDR.FOpts[:len(m.FHDR.FOpts)-1]
						}
						if m.FPort != nil && *m.FPort != 0 {
							m.FRMPayload = []lorawan.Payload{&lorawan.DataPayload{Bytes: c.bytesN(c.rnd.Intn(20))}}
						}
					}
					phy = &rx
				}
			}
		}
	}
	ev := M{"ev": "setmic", "dir": dirOf(mt)}
	p.fields(ev)
	res, _ := observeFast(func() error {
		if up {
			return phy.SetUplinkDataMIC(lorawan.MACVersion(p.ver), p.conf, p.txdr, p.txch, p.fkey, p.skey)
		}
		return phy.SetDownlinkDataMIC(lorawan.MACVersion(p.ver), p.conf, p.skey)
	})
	ev["err"] = res
	ev["frame"] = phyToVal(phy)
	c.emit(ev)
	if res != "" {
		return
	}
	which := "down"
	if up {
		which = "up"
	}
	mp := phy.MACPayload.(*lorawan.MACPayload)
	c.emit(validateEvent(which, phy, p, "same"))
	if up {
		c.emit(validateEvent("upF", phy, p, "same"))
	}
	// single-parameter perturbations; the specification decides each outcome
	type pert struct {
		label string
		f     func(q *micParams, ph *lorawan.PHYPayload)
	}
	perts := []pert{
		{"fkey", func(q *micParams, ph *lorawan.PHYPayload) { q.fkey = flipKey(q.fkey, c.rnd.Intn(128)) }},
		{"skey", func(q *micParams, ph *lorawan.PHYPayload) { q.skey = flipKey(q.skey, c.rnd.Intn(128)) }},
		{"fkey-twin", func(q *micParams, ph *lorawan.PHYPayload) { q.fkey = weakTwin(c, q.fkey) }},
		{"skey-twin", func(q *micParams, ph *lorawan.PHYPayload) { q.skey = weakTwin(c, q.skey) }},
		{"fcnt-low", func(q *micParams, ph *lorawan.PHYPayload) {
			ph.MACPayload.(*lorawan.MACPayload).FHDR.FCnt ^= 1 << uint(c.rnd.Intn(16))
		}},
		{"fcnt-high", func(q *micParams, ph *lorawan.PHYPayload) {
			ph.MACPayload.(*lorawan.MACPayload).FHDR.FCnt ^= 1 << uint(16+c.rnd.Intn(16))
		}},
		{"conf-low", func(q *micParams, ph *lorawan.PHYPayload) { q.conf ^= 1 << uint(c.rnd.Intn(16)) }},
		{"conf-high", func(q *micParams, ph *lorawan.PHYPayload) { q.conf ^= 1 << uint(16+c.rnd.Intn(16)) }},
		{"txdr", func(q *micParams, ph *lorawan.PHYPayload) { q.txdr ^= 1 << uint(c.rnd.Intn(8)) }},
		{"txch", func(q *micParams, ph *lorawan.PHYPayload) { q.txch ^= 1 << uint(c.rnd.Intn(8)) }},
		{"version", func(q *micParams, ph *lorawan.PHYPayload) { q.ver = 1 - q.ver }},
		{"devaddr", func(q *micParams, ph *lorawan.PHYPayload) {
			ph.MACPayload.(*lorawan.MACPayload).FHDR.DevAddr[c.rnd.Intn(4)] ^= 1 << uint(c.rnd.Intn(8))
		}},
		{"mic", func(q *micParams, ph *lorawan.PHYPayload) { ph.MIC[c.rnd.Intn(4)] ^= 1 << uint(c.rnd.Intn(8)) }},
		{"ack", func(q *micParams, ph *lorawan.PHYPayload) {
			m := ph.MACPayload.(*lorawan.MACPayload)
			m.FHDR.FCtrl.ACK = !m.FHDR.FCtrl.ACK
		}},
		{"mtype", func(q *micParams, ph *lorawan.PHYPayload) { ph.MHDR.MType ^= 6 }}, // confirmed <-> unconfirmed, same direction
	}
	_ = mp
	for _, pt := range perts {
		q := p
		// deep copy of the frame through the projection
		ph := valToPhy(cloneM(phyToVal(phy)).(M), false)
		pt.f(&q, ph)
		c.emit(validateEvent(which, ph, q, pt.label))
		if up && (pt.label == "fkey" || pt.label == "fcnt-high" || pt.label == "mic" || pt.label == "skey") {
			c.emit(validateEvent("upF", ph, q, pt.label))
		}
	}
	// the receiver validates in the OTHER direction (same frame, same key material): the direction is bound into the MIC
	{
		q := p
		other := "up"
		if up {
			other = "down"
			q.skey = p.fkey
		} else {
			q.fkey = p.skey
		}
		ph := valToPhy(cloneM(phyToVal(phy)).(M), false)
		c.emit(validateEvent(other, ph, q, "crossdir"))
	}
	// a RECEIVED frame whose reserved MHDR bits are set: the MIC is defined over the bytes that were received
	if wb, err := phy.MarshalBinary(); err == nil {
		bb := append([]byte{}, wb...)
		bb[0] |= byte(c.pick(0x04, 0x08, 0x10, 0x1c))
		ph := &lorawan.PHYPayload{}
		if err := ph.UnmarshalBinary(bb); err == nil {
			if m, ok := ph.MACPayload.(*lorawan.MACPayload); ok {
				m.FHDR.FCnt |= mp.FHDR.FCnt & 0xffff0000
				ev := validateEvent(which, ph, p, "wire-mhdr-rfu")
				ev["raw"] = bs(bb)
				c.emit(ev)
				// ... and the MIC the library sets on that received frame value
				sres, _ := observeFast(func() error {
					if up {
						return ph.SetUplinkDataMIC(lorawan.MACVersion(p.ver), p.conf, p.txdr, p.txch, p.fkey, p.skey)
					}
					return ph.SetDownlinkDataMIC(lorawan.MACVersion(p.ver), p.conf, p.skey)
				})
				sev := M{"ev": "setmic", "dir": dirOf(mt), "err": sres, "frame": phyToVal(ph), "raw": bs(bb)}
				p.fields(sev)
				c.emit(sev)
			}
		}
	}
	// payload bit
	b, _ := phy.MarshalBinary()
	if len(b) > 13 {
		ph := &lorawan.PHYPayload{}
		bb := append([]byte{}, b...)
		bb[1+c.rnd.Intn(len(bb)-5)] ^= 1 << uint(c.rnd.Intn(8))
		if err := ph.UnmarshalBinary(bb); err == nil {
			if m, ok := ph.MACPayload.(*lorawan.MACPayload); ok {
				m.FHDR.FCnt |= mp.FHDR.FCnt & 0xffff0000
				w := "down"
				if mtypeUp(int(ph.MHDR.MType)) {
					w = "up"
				}
				c.emit(validateEvent(w, ph, p, "wire-bit"))
			}
		}
	}
}

func (c *ctx) cipherCase() {
	c.provoke()
	key := c.key()
	var da lorawan.DevAddr
	copy(da[:], c.bytesN(4))
	fcnt := unle32(toIfaceInts(c.genFCnt()))
	up := c.rnd.Intn(2) == 0
	n := c.pick(0, 1, 15, 16, 17, 31, 32, 33, 48, 49, 63, 64, 65, 240, 241, 255, c.rnd.Intn(256), c.rnd.Intn(50))
	in := c.bytesN(n)
	frmEvent := func(key lorawan.AES128Key, up bool, da lorawan.DevAddr, fcnt uint32, in []byte) M {
		ev := M{"ev": "encfrm", "key": bs(key[:]), "up": up, "devaddr": bs(da[:]), "fcnt": le32(fcnt), "in": bs(in)}
		var out []byte
		res, _ := observeFast(func() error {
			var err error
			out, err = lorawan.EncryptFRMPayload(key, up, da, fcnt, append([]byte{}, in...))
			return err
		})
		ev["err"] = res
		if res == "" {
			ev["out"] = bs(out)
			var out2 []byte
			r2, _ := observeFast(func() error {
				var err error
				out2, err = lorawan.EncryptFRMPayload(key, up, da, fcnt, append([]byte{}, out...))
				return err
			})
			ev["err2"] = r2
			ev["out2"] = bs(out2)
		}
		return ev
	}
	foptsEvent := func(key lorawan.AES128Key, afc, up bool, da lorawan.DevAddr, fcnt uint32, fin []byte) M {
		ev := M{"ev": "encfopts", "key": bs(key[:]), "afcntdown": afc, "up": up, "devaddr": bs(da[:]), "fcnt": le32(fcnt), "in": bs(fin)}
		var out []byte
		res, _ := observeFast(func() error {
			var err error
			out, err = lorawan.EncryptFOpts(key, afc, up, da, fcnt, append([]byte{}, fin...))
			return err
		})
		ev["err"] = res
		if res == "" {
			ev["out"] = bs(out)
		}
		return ev
	}
	c.emit(frmEvent(key, up, da, fcnt, in))
	m := c.pick(0, 1, 7, 14, 15, 16, 17, 30, c.rnd.Intn(16))
	fin := c.bytesN(m)
	afc := c.rnd.Intn(2) == 0
	c.emit(foptsEvent(key, afc, up, da, fcnt, fin))
	// neighbours: the same call with exactly ONE parameter changed, back to back, then the first call again - anything the
	// library remembers between calls under less than all parameters shows here
	if c.rnd.Intn(3) == 0 {
		k2, up2, da2, fc2, afc2 := key, up, da, fcnt, afc
		switch c.rnd.Intn(5) {
		case 0:
			k2 = flipKey(key, c.rnd.Intn(128))
			if c.rnd.Intn(2) == 0 {
				k2 = weakTwin(c, key)
			}
		case 1:
			up2 = !up
		case 2:
			da2[c.rnd.Intn(4)] ^= 1 << uint(c.rnd.Intn(8))
		case 3:
			fc2 = fcnt ^ 1<<uint(c.rnd.Intn(32))
		default:
			afc2 = !afc
			k2 = c.key()
		}
		c.emit(frmEvent(k2, up2, da2, fc2, in))
		c.emit(frmEvent(key, up, da, fcnt, in))
		c.emit(foptsEvent(k2, afc2, up2, da2, fc2, fin))
		c.emit(foptsEvent(key, afc, up, da, fcnt, fin))
	}
}

func toIfaceInts(x []int) []interface{} {
	out := make([]interface{}, len(x))
	for i := range x {
		out[i] = x[i]
	}
	return out
}

// methodCase: the four PHYPayload methods on spec-valid frames and on frames whose FOpts cannot be
// marshalled / are too long (error paths).
func (c *ctx) methodCase() {
	c.provoke()
	key := c.key()
	v := c.genDataFrame(false)
	// port 0 carries MAC commands: arbitrary bytes there would decode to arbitrary "commands"
	if fp := anyList(v["fport"]); len(fp) == 1 && num(fp[0]) == 0 && !allCmds(v["frm"]) {
		v["frm"] = toIface(c.genStream(dirOf(num(v["mtype"])), 242))
	}
	if c.cleanOnly && !allCmds(v["fopts"]) && len(anyList(v["fopts"])) > 0 {
		v["fopts"] = toIface(c.genStream(dirOf(num(v["mtype"])), 15))
	}
	switch c.rnd.Intn(8) {
	case 0: // FOpts too long for the single block
		v["fopts"] = c.genRawItem(16 + c.rnd.Intn(6))
		if fp := anyList(v["fport"]); len(fp) == 1 && num(fp[0]) == 0 {
			v["fport"] = []interface{}{1}
		}
	case 1: // FOpts with a command that cannot be marshalled
		if mtypeUp(num(v["mtype"])) {
			v["fopts"] = []interface{}{M{"t": "cmd", "cid": 16, "p": []interface{}{M{"Periodicity": 8 + c.rnd.Intn(200)}}}}
		} else {
			v["fopts"] = []interface{}{M{"t": "cmd", "cid": 8, "p": []interface{}{M{"Delay": 16 + c.rnd.Intn(200)}}}}
		}
		if fp := anyList(v["fport"]); len(fp) == 1 && num(fp[0]) == 0 {
			v["fport"] = []interface{}{1}
			v["frm"] = []interface{}{}
		}
	}
	if c.rnd.Intn(12) == 0 { // FPort 0 and nothing else (legal: a frame that carries no MAC command at all)
		v["fport"] = []interface{}{0}
		v["frm"] = []interface{}{}
		v["fopts"] = []interface{}{}
	} else if c.rnd.Intn(8) == 0 { // FPort > 0 without any FRMPayload byte (legal): FOpts of a 1.1 downlink still use the AFCntDown variant
		v["fport"] = []interface{}{c.pick(1, 10, 223, 224, 255)}
		v["frm"] = []interface{}{}
		if len(anyList(v["fopts"])) == 0 {
			v["fopts"] = toIface(c.genStream(dirOf(num(v["mtype"])), 15))
		}
	} else if fp := anyList(v["fport"]); len(fp) == 1 && num(fp[0]) > 0 && c.rnd.Intn(8) == 0 {
		// an application payload handed over in several pieces (FRMPayload is a list of payload items)
		v["frm"] = []interface{}{M{"t": "raw", "b": c.ints(1 + c.rnd.Intn(20))}, M{"t": "raw", "b": c.ints(1 + c.rnd.Intn(20))}}
		if c.rnd.Intn(2) == 0 {
			v["frm"] = append(v["frm"].([]interface{}), M{"t": "raw", "b": c.ints(1 + c.rnd.Intn(5))})
		}
	}
	if c.rnd.Intn(10) == 0 { // a frame value the specification excludes: FRMPayload bytes without an FPort
		v["fport"] = []interface{}{}
		v["frm"] = c.genRawItem(1 + c.rnd.Intn(40))
	}
	for _, name := range []string{"EncryptFRMPayload", "DecryptFRMPayload", "EncryptFOpts", "DecryptFOpts"} {
		phy := valToPhy(cloneM(v).(M), false)
		ev := M{"ev": "method", "name": name, "key": bs(key[:]), "pre": phyToVal(phy)}
		// Decrypt*: start from the encrypted frame so that decoding commands is meaningful
		if name == "DecryptFRMPayload" {
			if err := phy.EncryptFRMPayload(key); err != nil {
				continue
			}
			// a received ciphertext may be held in several pieces (FRMPayload is a list): same bytes, two items
			if mp, ok := phy.MACPayload.(*lorawan.MACPayload); ok && len(mp.FRMPayload) == 1 && c.rnd.Intn(4) == 0 {
				if dp, ok := mp.FRMPayload[0].(*lorawan.DataPayload); ok && len(dp.Bytes) >= 2 {
					k := 1 + c.rnd.Intn(len(dp.Bytes)-1)
					mp.FRMPayload = []lorawan.Payload{&lorawan.DataPayload{Bytes: append([]byte{}, dp.Bytes[:k]...)}, &lorawan.DataPayload{Bytes: append([]byte{}, dp.Bytes[k:]...)}}
				}
			}
			ev["pre"] = phyToVal(phy)
		}
		if name == "DecryptFOpts" {
			if err := phy.EncryptFOpts(key); err == nil {
				ev["pre"] = phyToVal(phy)
			}
		}
		res, _ := observeFast(func() error {
			switch name {
			case "EncryptFRMPayload":
				return phy.EncryptFRMPayload(key)
			case "DecryptFRMPayload":
				return phy.DecryptFRMPayload(key)
			case "EncryptFOpts":
				return phy.EncryptFOpts(key)
			default:
				return phy.DecryptFOpts(key)
			}
		})
		ev["err"] = res
		ev["post"] = phyToVal(phy)
		c.emit(ev)
		// the same item LISTS (the caller's own slices) go into a second frame - the same commands for another device, the
		// same message with the next counter - and the same method is applied to it.  `pre` is what the caller put in.
		if (name == "EncryptFOpts" || name == "EncryptFRMPayload") && res == "" && c.rnd.Intn(3) == 0 {
			first := valToPhy(cloneM(v).(M), false)
			fmp, ok := first.MACPayload.(*lorawan.MACPayload)
			if !ok {
				continue
			}
			v2 := cloneM(v).(M)
			v2["devaddr"] = c.ints(4)
			second := valToPhy(cloneM(v2).(M), false)
			smp := second.MACPayload.(*lorawan.MACPayload)
			smp.FHDR.FOpts, smp.FRMPayload = fmp.FHDR.FOpts, fmp.FRMPayload // shared slices
			ev2 := M{"ev": "method", "name": name, "key": bs(key[:]), "pre": phyToVal(second), "label": "shared-lists"}
			res2, _ := observeFast(func() error {
				if name == "EncryptFOpts" {
					if err := first.EncryptFOpts(key); err != nil {
						return err
					}
					return second.EncryptFOpts(key)
				}
				if err := first.EncryptFRMPayload(key); err != nil {
					return err
				}
				return second.EncryptFRMPayload(key)
			})
			ev2["err"] = res2
			ev2["post"] = phyToVal(second)
			c.emit(ev2)
		}
	}
}

var jaStream lorawan.PHYPayload

func (c *ctx) joinCase() {
	c.provoke()
	key := c.key()
	var v M
	for {
		v = c.genJoinFrame(false)
		if v["kind"] != "raw" {
			break
		}
	}
	phy := valToPhy(v, false)
	ev := M{"ev": "joinmic", "op": "set", "key": bs(key[:])}
	var jeui lorawan.EUI64
	copy(jeui[:], c.bytesN(8))
	dn := lorawan.DevNonce(c.edgeN(65536))
	jt := lorawan.JoinType(c.pick(0xff, 0, 1, 2))
	isJA := v["kind"] == "joinacc"
	if isJA {
		ev["jrtype"] = int(jt)
		ev["joineui"] = bs(jeui[:])
		ev["devnonce"] = int(dn)
	}
	// the channel masks of a join-accept are a window of the network's six-mask table; another device's join-accept is composed
	// from the whole table (what the caller composed is recorded BEFORE the first frame is processed)
	var sib *lorawan.PHYPayload
	var sibVal M
	if ja, ok := phy.MACPayload.(*lorawan.JoinAcceptPayload); ok && isJA && ja.CFList != nil {
		if mp, ok := ja.CFList.Payload.(*lorawan.CFListChannelMaskPayload); ok && len(mp.ChannelMasks) < 6 {
			tbl := new([6]lorawan.ChMask)
			k := copy(tbl[:], mp.ChannelMasks)
			for i := k; i < 6; i++ {
				for j := range tbl[i] {
					tbl[i][j] = c.rnd.Intn(2) == 0
				}
				tbl[i][i] = true
			}
			mp.ChannelMasks = tbl[:k]
			sja := *ja
			sja.CFList = &lorawan.CFList{CFListType: ja.CFList.CFListType, Payload: &lorawan.CFListChannelMaskPayload{ChannelMasks: tbl[:6]}}
			sib = &lorawan.PHYPayload{MHDR: phy.MHDR, MACPayload: &sja}
			sibVal = phyToVal(sib)
		}
	}
	res, _ := observeFast(func() error {
		if isJA {
			return phy.SetDownlinkJoinMIC(jt, jeui, dn, key)
		}
		return phy.SetUplinkJoinMIC(key)
	})
	ev["err"] = res
	ev["frame"] = phyToVal(phy)
	c.emit(ev)
	if sib != nil && res == "" {
		e2 := M{"ev": "joinmic", "op": "set", "key": bs(key[:]), "jrtype": int(jt), "joineui": bs(jeui[:]), "devnonce": int(dn)}
		r2, _ := observeFast(func() error { return sib.SetDownlinkJoinMIC(jt, jeui, dn, key) })
		e2["err"] = r2
		sibVal["mic"] = bs(sib.MIC[:])
		e2["frame"] = sibVal
		c.emit(e2)
	}
	if res != "" {
		return
	}
	// validate: same, and perturbed
	val := func(label string, ph *lorawan.PHYPayload, k lorawan.AES128Key, jt2 lorawan.JoinType, je lorawan.EUI64, dn2 lorawan.DevNonce) {
		e := M{"ev": "joinmic", "op": "validate", "label": label, "key": bs(k[:])}
		if isJA {
			e["jrtype"] = int(jt2)
			e["joineui"] = bs(je[:])
			e["devnonce"] = int(dn2)
		}
		var ok bool
		r, _ := observeFast(func() error {
			var err error
			if isJA {
				ok, err = ph.ValidateDownlinkJoinMIC(jt2, je, dn2, k)
			} else {
				ok, err = ph.ValidateUplinkJoinMIC(k)
			}
			return err
		})
		e["err"] = r
		e["ok"] = ok
		e["frame"] = phyToVal(ph)
		c.emit(e)
	}
	cp := func() *lorawan.PHYPayload { return valToPhy(cloneM(phyToVal(phy)).(M), false) }
	val("same", cp(), key, jt, jeui, dn)
	val("key", cp(), flipKey(key, c.rnd.Intn(128)), jt, jeui, dn)
	val("key-twin", cp(), weakTwin(c, key), jt, jeui, dn) // another key that equals this one under a weak digest
	if !isJA {
		// the request as a RECEIVED frame whose reserved MHDR bits are set (a sender of a later revision): the MIC covers
		// the byte as received, for validation and for a MIC the library sets on that frame value
		if bb, err := phy.MarshalBinary(); err == nil && len(bb) > 5 {
			bb[0] |= byte(1+c.rnd.Intn(7)) << 2
			rx := &lorawan.PHYPayload{}
			if rx.UnmarshalBinary(bb) == nil {
				e := M{"ev": "joinmic", "op": "validate", "label": "wire-mhdr-rfu", "key": bs(key[:]), "raw": bs(bb)}
				var ok bool
				r, _ := observeFast(func() error {
					var err error
					ok, err = rx.ValidateUplinkJoinMIC(key)
					return err
				})
				e["err"], e["ok"], e["frame"] = r, ok, phyToVal(rx)
				c.emit(e)
				r2, _ := observeFast(func() error { return rx.SetUplinkJoinMIC(key) })
				c.emit(M{"ev": "joinmic", "op": "set", "key": bs(key[:]), "err": r2, "frame": phyToVal(rx), "raw": bs(bb)})
			}
		}
	}
	ph := cp()
	ph.MIC[c.rnd.Intn(4)] ^= 1 << uint(c.rnd.Intn(8))
	val("mic", ph, key, jt, jeui, dn)
	if isJA {
		je2 := jeui
		je2[c.rnd.Intn(8)] ^= 1 << uint(c.rnd.Intn(8))
		val("joineui", cp(), key, jt, je2, dn)
		val("devnonce", cp(), key, jt, jeui, dn^lorawan.DevNonce(1<<uint(c.rnd.Intn(16))))
		val("jrtype", cp(), key, jt^1, jeui, dn)
		ph = cp()
		ja := ph.MACPayload.(*lorawan.JoinAcceptPayload)
		ja.DevAddr[c.rnd.Intn(4)] ^= 1
		val("devaddr", ph, key, jt, jeui, dn)
		// encryption
		enc := cp()
		e := M{"ev": "encja", "key": bs(key[:]), "pre": phyToVal(enc)}
		r, _ := observeFast(func() error { return enc.EncryptJoinAcceptPayload(key) })
		e["err"] = r
		e["post"] = phyToVal(enc)
		c.emit(e)
		if r == "" {
			// a COPY of the encrypted frame value is decrypted first (a server keeps the encrypted frame for the downlink
			// and inspects a copy): the encrypted frame must stay the specification's ciphertext
			cpy := *enc
			observeFast(func() error { return cpy.DecryptJoinAcceptPayload(key) })
			e2 := M{"ev": "encja", "key": bs(key[:]), "pre": e["pre"], "err": "", "post": phyToVal(enc), "label": "after-decrypting-a-copy"}
			c.emit(e2)
			d := M{"ev": "decja", "key": bs(key[:]), "pre": phyToVal(enc)}
			r2, _ := observeFast(func() error { return enc.DecryptJoinAcceptPayload(key) })
			d["err"] = r2
			d["post"] = phyToVal(enc)
			c.emit(d)
		}
		// a received join-accept is whatever 16 / 32 bytes arrive: ciphertexts chosen by shape (every one of them is the
		// encryption of some payload | MIC), in particular zero / all-ones runs where a MIC or a field "cannot be"
		if c.rnd.Intn(2) == 0 {
			n := c.pick(16, 32)
			ct := c.bytesN(n)
			fillv := byte(c.pick(0, 0, 0xff))
			switch c.rnd.Intn(5) {
			case 0:
				for i := range ct {
					ct[i] = fillv
				}
			case 1:
				for i := n - 4; i < n; i++ {
					ct[i] = fillv
				}
			case 2:
				for i := 0; i < 4+c.rnd.Intn(n-4); i++ {
					ct[i] = fillv
				}
			case 3:
				for i := n - 16; i < n; i++ {
					ct[i] = fillv
				}
			}
			rx := &lorawan.PHYPayload{MHDR: lorawan.MHDR{MType: lorawan.JoinAccept, Major: lorawan.Major(c.pick(0, 0, 0, 1))}, MACPayload: &lorawan.DataPayload{Bytes: append([]byte{}, ct[:n-4]...)}}
			copy(rx.MIC[:], ct[n-4:])
			d := M{"ev": "decja", "key": bs(key[:]), "pre": phyToVal(rx), "label": "chosen-ciphertext"}
			if c.rnd.Intn(2) == 0 {
				// the frame arrives as bytes in a receive loop that re-uses ONE frame variable; the caller keeps the decoded
				// value, the next join-accept is decoded into the variable, THEN the kept value is decrypted
				if wb, err := rx.MarshalBinary(); err == nil && jaStream.UnmarshalBinary(wb) == nil {
					kept := jaStream
					next := append([]byte{0x20}, c.bytesN(n)...)
					jaStream.UnmarshalBinary(next)
					rx = &kept
					d["label"] = "chosen-ciphertext-kept"
				}
			}
			r2, _ := observeFast(func() error { return rx.DecryptJoinAcceptPayload(key) })
			d["err"] = r2
			d["post"] = phyToVal(rx)
			c.emit(d)
		}
	} else {
		ph = cp()
		switch t := ph.MACPayload.(type) {
		case *lorawan.JoinRequestPayload:
			t.DevEUI[c.rnd.Intn(8)] ^= 1 << uint(c.rnd.Intn(8))
		case *lorawan.RejoinRequestType02Payload:
			t.RJCount0 ^= 1 << uint(c.rnd.Intn(16))
		case *lorawan.RejoinRequestType1Payload:
			t.JoinEUI[c.rnd.Intn(8)] ^= 1 << uint(c.rnd.Intn(8))
		}
		val("payload", ph, key, jt, jeui, dn)
	}
}

func drvCrypto(c *ctx) error {
	switch c.mode {
	case "mic":
		c.zeroMicCase()
		for i := 0; i < c.n; i++ {
			c.micCase(242)
		}
	case "cipher":
		for i := 0; i < c.n; i++ {
			c.cipherCase()
		}
	case "method":
		for i := 0; i < c.n; i++ {
			c.methodCase()
		}
	case "join":
		for i := 0; i < c.n; i++ {
			c.joinCase()
		}
	default:
		return fmt.Errorf("crypto: unknown mode %q", c.mode)
	}
	return nil
}
