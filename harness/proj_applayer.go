package main

// Generic (reflection) projection of the four application-layer packages' command payloads to
// specification values: nested structs are flattened to their leaf field names, which are the
// names the specification's tables (spec/lorawan/AppLayer.tla) use.

import (
	"fmt"
	"reflect"

	"github.com/brocaar/lorawan/applayer/clocksync"
	"github.com/brocaar/lorawan/applayer/firmwaremanagement"
	"github.com/brocaar/lorawan/applayer/fragmentation"
	"github.com/brocaar/lorawan/applayer/multicastsetup"
)

type alPayload interface {
	MarshalBinary() ([]byte, error)
	UnmarshalBinary([]byte) error
	Size() int
}

// one Command VALUE of each package (decoded into repeatedly by the reuse events)
var alCommandMakers = map[string]func() interface{}{
	"clocksync":          func() interface{} { return &clocksync.Command{} },
	"multicastsetup":     func() interface{} { return &multicastsetup.Command{} },
	"fragmentation":      func() interface{} { return &fragmentation.Command{} },
	"firmwaremanagement": func() interface{} { return &firmwaremanagement.Command{} },
}

// marOf: what the value marshals to right now ("error" / "panic" instead of bytes when it cannot be marshalled)
func marOf(p interface{ MarshalBinary() ([]byte, error) }) interface{} {
	var b []byte
	res, _ := observeFast(func() error {
		var err error
		b, err = p.MarshalBinary()
		return err
	})
	if res != "" {
		return M{"err": res, "b": []int{}}
	}
	return M{"err": "", "b": bs(b)}
}

type alCmd struct {
	cid int
	p   alPayload // nil = no payload
}

type alPkg struct {
	name       string
	cids       map[bool][]int
	newPayload func(up bool, cid int) alPayload
	marshal    func(cmds []alCmd) ([]byte, error)
	unmarshal  func(up bool, data []byte) ([]alCmd, error)
	cmdSize    func(c alCmd) int
	// unmarshalTwice decodes b1 and then b2 into the SAME Commands variable
	unmarshalTwice func(up bool, b1, b2 []byte) ([]alCmd, error)
	// unmarshalKeep decodes b1 into a Commands variable, keeps the value (as a caller holding the result would), decodes b2
	// into the same variable and then reads the KEPT value
	unmarshalKeep func(up bool, b1, b2 []byte) ([]alCmd, error)
}

func nilIface(p alPayload) bool { return p == nil || reflect.ValueOf(p).IsNil() }

var alPkgs = map[string]*alPkg{
	"clocksync": {
		name: "clocksync", cids: map[bool][]int{true: {0, 1, 2}, false: {1, 2, 3}},
		newPayload: func(up bool, cid int) alPayload {
			p, err := clocksync.GetCommandPayload(up, clocksync.CID(cid))
			if err != nil {
				return nil
			}
			return p
		},
		marshal: func(cmds []alCmd) ([]byte, error) {
			var cs clocksync.Commands
			for _, c := range cmds {
				x := clocksync.Command{CID: clocksync.CID(c.cid)}
				if !nilIface(c.p) {
					x.Payload = c.p
				}
				cs = append(cs, x)
			}
			return cs.MarshalBinary()
		},
		unmarshal: func(up bool, data []byte) ([]alCmd, error) {
			var cs clocksync.Commands
			err := cs.UnmarshalBinary(up, data)
			var out []alCmd
			for _, c := range cs {
				out = append(out, alCmd{int(c.CID), c.Payload})
			}
			return out, err
		},
		unmarshalKeep: func(up bool, b1, b2 []byte) ([]alCmd, error) {
			var cs clocksync.Commands
			err := cs.UnmarshalBinary(up, b1)
			kept := cs
			cs.UnmarshalBinary(up, b2)
			var out []alCmd
			for _, c := range kept {
				out = append(out, alCmd{int(c.CID), c.Payload})
			}
			return out, err
		},
		unmarshalTwice: func(up bool, b1, b2 []byte) ([]alCmd, error) {
			var cs clocksync.Commands
			cs.UnmarshalBinary(up, b1)
			err := cs.UnmarshalBinary(up, b2)
			var out []alCmd
			for _, c := range cs {
				out = append(out, alCmd{int(c.CID), c.Payload})
			}
			return out, err
		},
		cmdSize: func(c alCmd) int {
			x := clocksync.Command{CID: clocksync.CID(c.cid)}
			if !nilIface(c.p) {
				x.Payload = c.p
			}
			return x.Size()
		},
	},
	"multicastsetup": {
		name: "multicastsetup", cids: map[bool][]int{true: {0, 1, 2, 3, 4, 5}, false: {1, 2, 3, 4, 5}},
		newPayload: func(up bool, cid int) alPayload {
			p, err := multicastsetup.GetCommandPayload(up, multicastsetup.CID(cid))
			if err != nil {
				return nil
			}
			return p
		},
		marshal: func(cmds []alCmd) ([]byte, error) {
			var cs multicastsetup.Commands
			for _, c := range cmds {
				x := multicastsetup.Command{CID: multicastsetup.CID(c.cid)}
				if !nilIface(c.p) {
					x.Payload = c.p
				}
				cs = append(cs, x)
			}
			return cs.MarshalBinary()
		},
		unmarshal: func(up bool, data []byte) ([]alCmd, error) {
			var cs multicastsetup.Commands
			err := cs.UnmarshalBinary(up, data)
			var out []alCmd
			for _, c := range cs {
				out = append(out, alCmd{int(c.CID), c.Payload})
			}
			return out, err
		},
		unmarshalKeep: func(up bool, b1, b2 []byte) ([]alCmd, error) {
			var cs multicastsetup.Commands
			err := cs.UnmarshalBinary(up, b1)
			kept := cs
			cs.UnmarshalBinary(up, b2)
			var out []alCmd
			for _, c := range kept {
				out = append(out, alCmd{int(c.CID), c.Payload})
			}
			return out, err
		},
		unmarshalTwice: func(up bool, b1, b2 []byte) ([]alCmd, error) {
			var cs multicastsetup.Commands
			cs.UnmarshalBinary(up, b1)
			err := cs.UnmarshalBinary(up, b2)
			var out []alCmd
			for _, c := range cs {
				out = append(out, alCmd{int(c.CID), c.Payload})
			}
			return out, err
		},
		cmdSize: func(c alCmd) int {
			x := multicastsetup.Command{CID: multicastsetup.CID(c.cid)}
			if !nilIface(c.p) {
				x.Payload = c.p
			}
			return x.Size()
		},
	},
	"fragmentation": {
		name: "fragmentation", cids: map[bool][]int{true: {0, 1, 2, 3}, false: {1, 2, 3, 8}},
		newPayload: func(up bool, cid int) alPayload {
			p, err := fragmentation.GetCommandPayload(up, fragmentation.CID(cid))
			if err != nil {
				return nil
			}
			return p
		},
		marshal: func(cmds []alCmd) ([]byte, error) {
			var cs fragmentation.Commands
			for _, c := range cmds {
				x := fragmentation.Command{CID: fragmentation.CID(c.cid)}
				if !nilIface(c.p) {
					x.Payload = c.p
				}
				cs = append(cs, x)
			}
			return cs.MarshalBinary()
		},
		unmarshal: func(up bool, data []byte) ([]alCmd, error) {
			var cs fragmentation.Commands
			err := cs.UnmarshalBinary(up, data)
			var out []alCmd
			for _, c := range cs {
				out = append(out, alCmd{int(c.CID), c.Payload})
			}
			return out, err
		},
		unmarshalKeep: func(up bool, b1, b2 []byte) ([]alCmd, error) {
			var cs fragmentation.Commands
			err := cs.UnmarshalBinary(up, b1)
			kept := cs
			cs.UnmarshalBinary(up, b2)
			var out []alCmd
			for _, c := range kept {
				out = append(out, alCmd{int(c.CID), c.Payload})
			}
			return out, err
		},
		unmarshalTwice: func(up bool, b1, b2 []byte) ([]alCmd, error) {
			var cs fragmentation.Commands
			cs.UnmarshalBinary(up, b1)
			err := cs.UnmarshalBinary(up, b2)
			var out []alCmd
			for _, c := range cs {
				out = append(out, alCmd{int(c.CID), c.Payload})
			}
			return out, err
		},
		cmdSize: func(c alCmd) int {
			x := fragmentation.Command{CID: fragmentation.CID(c.cid)}
			if !nilIface(c.p) {
				x.Payload = c.p
			}
			return x.Size()
		},
	},
	"firmwaremanagement": {
		name: "firmwaremanagement", cids: map[bool][]int{true: {0, 1, 2, 3, 4, 5}, false: {1, 2, 3, 4, 5}},
		newPayload: func(up bool, cid int) alPayload {
			p, err := firmwaremanagement.GetCommandPayload(up, firmwaremanagement.CID(cid))
			if err != nil {
				return nil
			}
			return p
		},
		marshal: func(cmds []alCmd) ([]byte, error) {
			var cs firmwaremanagement.Commands
			for _, c := range cmds {
				x := firmwaremanagement.Command{CID: firmwaremanagement.CID(c.cid)}
				if !nilIface(c.p) {
					x.Payload = c.p
				}
				cs = append(cs, x)
			}
			return cs.MarshalBinary()
		},
		unmarshal: func(up bool, data []byte) ([]alCmd, error) {
			var cs firmwaremanagement.Commands
			err := cs.UnmarshalBinary(up, data)
			var out []alCmd
			for _, c := range cs {
				out = append(out, alCmd{int(c.CID), c.Payload})
			}
			return out, err
		},
		unmarshalKeep: func(up bool, b1, b2 []byte) ([]alCmd, error) {
			var cs firmwaremanagement.Commands
			err := cs.UnmarshalBinary(up, b1)
			kept := cs
			cs.UnmarshalBinary(up, b2)
			var out []alCmd
			for _, c := range kept {
				out = append(out, alCmd{int(c.CID), c.Payload})
			}
			return out, err
		},
		unmarshalTwice: func(up bool, b1, b2 []byte) ([]alCmd, error) {
			var cs firmwaremanagement.Commands
			cs.UnmarshalBinary(up, b1)
			err := cs.UnmarshalBinary(up, b2)
			var out []alCmd
			for _, c := range cs {
				out = append(out, alCmd{int(c.CID), c.Payload})
			}
			return out, err
		},
		cmdSize: func(c alCmd) int {
			x := firmwaremanagement.Command{CID: firmwaremanagement.CID(c.cid)}
			if !nilIface(c.p) {
				x.Payload = c.p
			}
			return x.Size()
		},
	},
}

var alPkgNames = []string{"clocksync", "multicastsetup", "fragmentation", "firmwaremanagement"}

// alToVal flattens a payload struct into leaf-name -> value.
func alToVal(p alPayload) M {
	out := M{}
	if nilIface(p) {
		return out
	}
	flatten(reflect.ValueOf(p).Elem(), out)
	return out
}

func leafVal(v reflect.Value) interface{} {
	switch v.Kind() {
	case reflect.Bool:
		return v.Bool()
	case reflect.Uint8, reflect.Uint16:
		return int(v.Uint())
	case reflect.Uint32:
		return le32(uint32(v.Uint()))
	case reflect.Int32:
		return le32(uint32(int32(v.Int())))
	case reflect.Ptr:
		if v.IsNil() {
			return []interface{}{}
		}
		return []interface{}{leafVal(v.Elem())}
	case reflect.Array:
		if v.Type().Elem().Kind() == reflect.Bool {
			bits := make([]int, v.Len())
			for i := range bits {
				if v.Index(i).Bool() {
					bits[i] = 1
				}
			}
			return bits
		}
		b := make([]int, v.Len())
		for i := range b {
			b[i] = int(v.Index(i).Uint())
		}
		return b
	case reflect.Slice:
		if v.Type().Elem().Kind() == reflect.Uint8 {
			b := make([]int, v.Len())
			for i := range b {
				b[i] = int(v.Index(i).Uint())
			}
			return b
		}
		items := []interface{}{}
		for i := 0; i < v.Len(); i++ {
			m := M{}
			flatten(v.Index(i), m)
			items = append(items, m)
		}
		return items
	}
	return fmt.Sprintf("?%s", v.Kind())
}

func flatten(v reflect.Value, out M) {
	t := v.Type()
	for i := 0; i < v.NumField(); i++ {
		f := v.Field(i)
		if f.Kind() == reflect.Struct {
			flatten(f, out)
			continue
		}
		if t.Field(i).Name == "DLFrequency" { // Hz -> (100 Hz units, remainder), as for the MAC commands
			out["DLFrequency"] = freqVal(uint32(f.Uint()))
			continue
		}
		out[t.Field(i).Name] = leafVal(f)
	}
}

// alFromVal sets the exported leaf fields of a fresh payload from a specification value.
func alFromVal(p alPayload, val M) {
	if nilIface(p) {
		return
	}
	unflatten(reflect.ValueOf(p).Elem(), val)
}

func setLeaf(f reflect.Value, x interface{}) {
	switch f.Kind() {
	case reflect.Bool:
		f.SetBool(x.(bool))
	case reflect.Uint8, reflect.Uint16:
		f.SetUint(uint64(num(x)))
	case reflect.Uint32:
		f.SetUint(uint64(unle32(anyList(x))))
	case reflect.Int32:
		f.SetInt(int64(int32(unle32(anyList(x)))))
	case reflect.Ptr:
		l := anyList(x)
		if len(l) == 1 {
			nv := reflect.New(f.Type().Elem())
			setLeaf(nv.Elem(), l[0])
			f.Set(nv)
		}
	case reflect.Array:
		l := anyList(x)
		for i := 0; i < f.Len() && i < len(l); i++ {
			if f.Type().Elem().Kind() == reflect.Bool {
				f.Index(i).SetBool(num(l[i]) != 0)
			} else {
				f.Index(i).SetUint(uint64(num(l[i])))
			}
		}
	case reflect.Slice:
		l := anyList(x)
		if f.Type().Elem().Kind() == reflect.Uint8 {
			f.SetBytes(unbsAny(toInts(l)))
			return
		}
		s := reflect.MakeSlice(f.Type(), len(l), len(l))
		for i := range l {
			unflatten(s.Index(i), l[i].(M))
		}
		f.Set(s)
	}
}

func toInts(l []interface{}) []int {
	out := make([]int, len(l))
	for i := range l {
		out[i] = num(l[i])
	}
	return out
}

func unflatten(v reflect.Value, val M) {
	t := v.Type()
	for i := 0; i < v.NumField(); i++ {
		f := v.Field(i)
		if f.Kind() == reflect.Struct {
			unflatten(f, val)
			continue
		}
		if !f.CanSet() {
			continue
		}
		if x, ok := val[t.Field(i).Name]; ok {
			if t.Field(i).Name == "DLFrequency" {
				f.SetUint(uint64(unfreq(x)))
				continue
			}
			setLeaf(f, x)
		}
	}
}
