package main

import (
	"bufio"
	"bytes"
	"encoding/json"
	"fmt"
	"io/ioutil"
	"log"
	"math/rand"
	"os"
	"runtime/metrics"
	"strconv"
	"strings"
	"sync"
	"sync/atomic"
	"time"
)

// M is one JSON object (event or value).
type M = map[string]interface{}

type ctx struct {
	seed  int64
	n     int
	mode  string
	cases []M
	rnd   *rand.Rand
	w     *bufio.Writer
	f     *os.File
	count int
	// cleanOnly: generators avoid raw (garbage) FOpts whose decoding depends on the process-global registry
	cleanOnly bool
}

func newCtx(seed int64, n int, mode, cases, out string) (*ctx, error) {
	log.SetOutput(ioutil.Discard) // the library logs warnings while decoding garbage
	c := &ctx{seed: seed, n: n, mode: mode, rnd: rand.New(rand.NewSource(seed))}
	if cases != "" {
		f, err := os.Open(cases)
		if err != nil {
			return nil, err
		}
		defer f.Close()
		sc := bufio.NewScanner(f)
		sc.Buffer(make([]byte, 1<<20), 1<<26)
		for sc.Scan() {
			line := strings.TrimSpace(sc.Text())
			if line == "" {
				continue
			}
			var m M
			d := json.NewDecoder(strings.NewReader(line))
			d.UseNumber()
			if err := d.Decode(&m); err != nil {
				return nil, fmt.Errorf("case file: %v", err)
			}
			c.cases = append(c.cases, m)
		}
	}
	if out == "" {
		return nil, fmt.Errorf("--out required")
	}
	f, err := os.Create(out)
	if err != nil {
		return nil, err
	}
	c.f = f
	c.w = bufio.NewWriterSize(f, 1<<20)
	return c, nil
}

func (c *ctx) close() error {
	if err := c.w.Flush(); err != nil {
		return err
	}
	return c.f.Close()
}

// emit writes one event, enforcing the trace encoding rules (DESIGN 2.2): every number is an
// integer with |x| < 2^31, no floats, no nulls.
func (c *ctx) emit(ev M) {
	if err := checkVal(ev, "$"); err != nil {
		fmt.Fprintln(os.Stderr, "harness error: trace encoding:", err)
		os.Exit(2)
	}
	b, err := json.Marshal(ev)
	if err != nil {
		fmt.Fprintln(os.Stderr, "harness error:", err)
		os.Exit(2)
	}
	if bytes.Contains(b, []byte("null")) && bytes.Contains(b, []byte(":null")) {
		fmt.Fprintln(os.Stderr, "harness error: trace encoding: null in event", string(b[:200]))
		os.Exit(2)
	}
	wd.mu.Lock()
	c.w.Write(b)
	c.w.WriteByte('\n')
	c.count++
	wd.mu.Unlock()
	atomic.StoreInt64(&wd.lastEmit, time.Now().UnixNano())
}

// ---- hang watchdog ---------------------------------------------------------------------------------
// A call of the library that never returns cannot be observed from inside the call.  A watchdog goroutine
// therefore watches (a) the live heap - a decoder that loops while appending grows it without bound - and
// (b) the time since the last recorded event.  When either limit is hit it records ONE `hang` event (with the
// note the driver left about the call in flight), flushes the trace and ends the process with exit code 3;
// the orchestrator validates the partial trace, and the trace specification rejects the `hang` event.
var wd struct {
	mu       sync.Mutex
	c        *ctx
	family   string
	lastEmit int64
	note     atomic.Value
}

// inflight leaves a note about the call that is about to be made (shown in the hang event)
func inflight(what string, b []byte) {
	if len(b) > 48 {
		b = b[:48]
	}
	wd.note.Store(M{"what": what, "head": bs(b)})
}

func startWatchdog(c *ctx, family string) {
	wd.c, wd.family = c, family
	atomic.StoreInt64(&wd.lastEmit, time.Now().UnixNano())
	capMB := uint64(6144)
	if v, err := strconv.Atoi(os.Getenv("VERIF_MEMCAP_MB")); err == nil && v > 0 {
		capMB = uint64(v)
	}
	stall := 300 * time.Second
	go func() {
		s := []metrics.Sample{{Name: "/memory/classes/heap/objects:bytes"}}
		for {
			time.Sleep(20 * time.Millisecond)
			metrics.Read(s)
			if s[0].Value.Kind() == metrics.KindUint64 && s[0].Value.Uint64() > capMB<<20 {
				hangAbort(fmt.Sprintf("the live heap grew beyond %d MB during one call: a loop that never ends", capMB))
			}
			if time.Duration(time.Now().UnixNano()-atomic.LoadInt64(&wd.lastEmit)) > stall {
				hangAbort("no call returned for 300 s")
			}
		}
	}()
}

func hangAbort(what string) {
	wd.mu.Lock() // never released: nothing may be written after the hang event
	note, _ := wd.note.Load().(M)
	if note == nil {
		note = M{"what": "(no note)", "head": []int{}}
	}
	ev := M{"ev": "hang", "prop": os.Getenv("VERIF_PROP"), "what": what, "family": wd.family, "mode": wd.c.mode, "call": note}
	b, _ := json.Marshal(ev)
	wd.c.w.Write(b)
	wd.c.w.WriteByte('\n')
	wd.c.w.Flush()
	wd.c.f.Close()
	fmt.Fprintln(os.Stderr, "HANG-ABORT:", what)
	os.Exit(3)
}

func checkVal(v interface{}, path string) error {
	switch t := v.(type) {
	case nil:
		return fmt.Errorf("%s: null", path)
	case bool, string:
		return nil
	case int:
		if t >= 1<<31 || t <= -(1<<31) {
			return fmt.Errorf("%s: %d out of TLC range", path, t)
		}
		return nil
	case []int:
		for _, x := range t {
			if x >= 1<<31 || x <= -(1<<31) {
				return fmt.Errorf("%s: %d out of TLC range", path, x)
			}
		}
		return nil
	case json.Number:
		return nil
	case []interface{}:
		for i, x := range t {
			if err := checkVal(x, fmt.Sprintf("%s[%d]", path, i)); err != nil {
				return err
			}
		}
		return nil
	case []M:
		for i, x := range t {
			if err := checkVal(x, fmt.Sprintf("%s[%d]", path, i)); err != nil {
				return err
			}
		}
		return nil
	case M:
		for k, x := range t {
			if err := checkVal(x, path+"."+k); err != nil {
				return err
			}
		}
		return nil
	case [][]int:
		return nil
	default:
		return fmt.Errorf("%s: unsupported type %T", path, v)
	}
}

// bs converts bytes to the trace representation (sequence of 0..255).
func bs(b []byte) []int {
	out := make([]int, len(b))
	for i, x := range b {
		out[i] = int(x)
	}
	return out
}

func unbs(v interface{}) []byte {
	arr, _ := v.([]interface{})
	out := make([]byte, len(arr))
	for i, x := range arr {
		out[i] = byte(num(x))
	}
	return out
}

func num(v interface{}) int {
	switch t := v.(type) {
	case json.Number:
		i, _ := t.Int64()
		return int(i)
	case float64:
		return int(t)
	case int:
		return t
	}
	return 0
}

func le32(x uint32) []int {
	return []int{int(x & 0xff), int(x >> 8 & 0xff), int(x >> 16 & 0xff), int(x >> 24)}
}
func le64(x uint64) []int {
	out := make([]int, 8)
	for i := 0; i < 8; i++ {
		out[i] = int(x >> (8 * uint(i)) & 0xff)
	}
	return out
}
func unle32(v interface{}) uint32 {
	b := unbs(v)
	var x uint32
	for i := 0; i < len(b) && i < 4; i++ {
		x |= uint32(b[i]) << (8 * uint(i))
	}
	return x
}

// observe runs f, recovering panics and detecting hangs.  Result: "" | "error" | "panic" | "timeout".
func observe(f func() error) (res string, msg string) {
	done := make(chan struct{})
	go func() {
		defer func() {
			if r := recover(); r != nil {
				res, msg = "panic", fmt.Sprint(r)
			}
			close(done)
		}()
		if err := f(); err != nil {
			res, msg = "error", err.Error()
		}
	}()
	select {
	case <-done:
		return
	case <-time.After(5 * time.Second):
		// the goroutine cannot be stopped; if it also allocates, the watchdog ends the run with a hang event
		return "timeout", "call did not return within 5s"
	}
}

// observeFast is observe without the watchdog goroutine (for bulk pure calls).
func observeFast(f func() error) (res string, msg string) {
	defer func() {
		if r := recover(); r != nil {
			res, msg = "panic", fmt.Sprint(r)
		}
	}()
	if err := f(); err != nil {
		return "error", err.Error()
	}
	return "", ""
}

func (c *ctx) bytesN(n int) []byte {
	b := make([]byte, n)
	c.rnd.Read(b)
	return b
}

func newRand(seed int64) *rand.Rand { return rand.New(rand.NewSource(seed)) }

func (c *ctx) pick(xs ...int) int { return xs[c.rnd.Intn(len(xs))] }

// edgeN: a value in 0..n-1, one time in four from the ends and the byte / half-range boundaries of the range
func (c *ctx) edgeN(n int) int {
	if c.rnd.Intn(4) != 0 {
		return c.rnd.Intn(n)
	}
	cand := []int{0, 1, 2, n - 1, n - 2, n / 2, n/2 - 1, 255, 256, 257, 65535, 65536}
	for {
		x := cand[c.rnd.Intn(len(cand))]
		if x >= 0 && x < n {
			return x
		}
	}
}

// edge32: a uint32, one time in four from its boundaries
func (c *ctx) edge32() uint32 {
	if c.rnd.Intn(4) != 0 {
		return c.rnd.Uint32()
	}
	return []uint32{0, 1, 0xff, 0x100, 0xffff, 0x10000, 0xffffff, 0x1000000, 0x7fffffff, 0x80000000, 0xfffffffe, 0xffffffff}[c.rnd.Intn(12)]
}

func (c *ctx) pickS(xs ...string) string { return xs[c.rnd.Intn(len(xs))] }

// withSpare returns b as a sub-slice of a larger backing array (guard bytes before, spare capacity
// with non-zero guard bytes after) together with the backing array, so that a callee that writes
// outside the slice it was given is observed.
func withSpare(b []byte) (in []byte, backing []byte) {
	backing = make([]byte, 3+len(b)+13)
	for i := range backing {
		backing[i] = byte(0xa5 ^ i)
	}
	copy(backing[3:], b)
	return backing[3 : 3+len(b)], backing
}
