package main

import (
	"encoding/base64"
	"encoding/json"
	"fmt"

	"github.com/brocaar/lorawan"
)

func init() { families["frame"] = drvFrame }

func (c *ctx) ints(n int) []int { return bs(c.bytesN(n)) }

func (c *ctx) genFCnt() []int {
	switch c.rnd.Intn(4) {
	case 0:
		return le32(uint32(c.pick(0, 1, 65535, 65536, 65537)))
	case 1:
		return le32(0xffffffff - uint32(c.rnd.Intn(3)))
	default:
		return le32(c.rnd.Uint32())
	}
}

func (c *ctx) genRawItem(n int) []interface{} {
	if n == 0 {
		return []interface{}{}
	}
	return []interface{}{M{"t": "raw", "b": c.ints(n)}}
}

func toIface(ms []M) []interface{} {
	out := make([]interface{}, len(ms))
	for i := range ms {
		out[i] = ms[i]
	}
	return out
}

func (c *ctx) genFRMLen() int {
	switch c.rnd.Intn(5) {
	case 0:
		return c.pick(0, 1, 2, 15, 16, 17, 31, 32, 33, 241, 242)
	case 1:
		return c.rnd.Intn(243)
	default:
		return c.rnd.Intn(40)
	}
}

// genDataFrame: spec-valid unless invalid is set (then one rule is broken on purpose).
func (c *ctx) genDataFrame(invalid bool) M {
	mt := c.pick(2, 3, 4, 5)
	dir := dirOf(mt)
	v := M{"kind": "data", "mtype": mt, "major": 0, "mic": c.ints(4), "devaddr": c.ints(4), "fcnt": c.genFCnt(),
		"fctrl": M{"adr": c.rnd.Intn(2) == 1, "adrackreq": c.rnd.Intn(2) == 1, "ack": c.rnd.Intn(2) == 1, "b4": c.rnd.Intn(2) == 1}}
	if c.rnd.Intn(8) == 0 {
		v["major"] = c.rnd.Intn(4)
	}
	// fport
	var fport []interface{}
	switch c.rnd.Intn(4) {
	case 0:
		fport = []interface{}{}
	case 1:
		fport = []interface{}{0}
	default:
		fport = []interface{}{c.pick(1, 2, 10, 223, 224, 255, 1+c.rnd.Intn(255))}
	}
	v["fport"] = fport
	// fopts
	fopts := []interface{}{}
	if !(len(fport) == 1 && fport[0].(int) == 0) {
		switch c.rnd.Intn(3) {
		case 0:
			fopts = toIface(c.genStream(dir, 15))
		case 1:
			fopts = c.genRawItem(c.rnd.Intn(16))
		}
	}
	v["fopts"] = fopts
	// frm
	frm := []interface{}{}
	if len(fport) == 1 {
		if fport[0].(int) == 0 && c.rnd.Intn(3) > 0 {
			frm = toIface(c.genStream(dir, 242))
		} else {
			frm = c.genRawItem(c.genFRMLen())
		}
	}
	v["frm"] = frm
	if invalid {
		switch c.rnd.Intn(5) {
		case 0: // FOpts longer than 15 bytes
			v["fopts"] = c.genRawItem(16 + c.rnd.Intn(10))
			if len(fport) == 1 && fport[0].(int) == 0 {
				v["fport"] = []interface{}{1}
			}
		case 1: // FRMPayload without FPort
			v["fport"] = []interface{}{}
			v["frm"] = c.genRawItem(1 + c.rnd.Intn(20))
		case 2: // FOpts together with port 0
			v["fport"] = []interface{}{0}
			v["fopts"] = c.genRawItem(1 + c.rnd.Intn(15))
		case 3: // MAC command on an application port
			v["fport"] = []interface{}{1 + c.rnd.Intn(255)}
			v["frm"] = []interface{}{M{"t": "cmd", "cid": c.pick(2, 6), "p": []interface{}{}}}
		case 4: // a command whose field does not fit
			if dir == "down" {
				v["fopts"] = []interface{}{M{"t": "cmd", "cid": 8, "p": []interface{}{M{"Delay": 16 + c.rnd.Intn(200)}}}}
			} else {
				v["fopts"] = []interface{}{M{"t": "cmd", "cid": 16, "p": []interface{}{M{"Periodicity": 8 + c.rnd.Intn(200)}}}}
			}
			if len(fport) == 1 && fport[0].(int) == 0 {
				v["fport"] = []interface{}{1}
				v["frm"] = []interface{}{}
			}
		}
	}
	return v
}

func (c *ctx) genCFList(invalid bool) []interface{} {
	switch c.rnd.Intn(3) {
	case 0:
		return []interface{}{}
	case 1:
		ch := []interface{}{}
		for i := 0; i < 5; i++ {
			f := uint32(c.rnd.Intn(1<<24)) * 100
			if c.rnd.Intn(3) == 0 {
				f = 0
			}
			if invalid && i == 2 {
				f = c.genFreq()
			}
			ch = append(ch, freqVal(f))
		}
		return []interface{}{M{"type": 0, "chans": ch}}
	default:
		n := c.rnd.Intn(7)
		if invalid {
			n = 7 + c.rnd.Intn(2)
		}
		ms := []interface{}{}
		for i := 0; i < n; i++ {
			bits := make([]int, 16)
			x := c.rnd.Intn(65536)
			if c.rnd.Intn(3) == 0 {
				x = 0
			}
			for j := range bits {
				bits[j] = (x >> uint(j)) & 1
			}
			ms = append(ms, bits)
		}
		return []interface{}{M{"type": 1, "masks": ms}}
	}
}

func (c *ctx) genJoinFrame(invalid bool) M {
	switch c.rnd.Intn(5) {
	case 0:
		return M{"kind": "joinreq", "mtype": 0, "major": 0, "mic": c.ints(4), "joineui": c.ints(8), "deveui": c.ints(8), "devnonce": c.edgeN(65536)}
	case 1:
		t := c.pick(0, 2)
		if invalid {
			t = c.pick(1, 3, 255)
		}
		return M{"kind": "rejoin02", "mtype": 6, "major": 0, "mic": c.ints(4), "rjtype": t, "netid": c.ints(3), "deveui": c.ints(8), "rjcount": c.edgeN(65536)}
	case 2:
		t := 1
		if invalid {
			t = c.pick(0, 2, 3)
		}
		return M{"kind": "rejoin1", "mtype": 6, "major": 0, "mic": c.ints(4), "rjtype": t, "joineui": c.ints(8), "deveui": c.ints(8), "rjcount": c.edgeN(65536)}
	case 3:
		return M{"kind": "raw", "mtype": 7, "major": 0, "mic": c.ints(4), "bytes": c.ints(c.rnd.Intn(20))}
	default:
		jn := le32(uint32(c.edgeN(1 << 24)))
		rxd := c.rnd.Intn(16)
		rx2, rx1 := c.rnd.Intn(16), c.rnd.Intn(8)
		if invalid {
			switch c.rnd.Intn(4) {
			case 0:
				jn = le32(uint32(1<<24) + uint32(c.rnd.Intn(1<<20)))
			case 1:
				rxd = 16 + c.rnd.Intn(200)
			case 2:
				rx2 = 16 + c.rnd.Intn(200)
			case 3:
				rx1 = 8 + c.rnd.Intn(200)
			}
		}
		return M{"kind": "joinacc", "mtype": 1, "major": 0, "mic": c.ints(4), "joinnonce": jn, "netid": c.ints(3), "devaddr": c.ints(4),
			"dl": M{"optneg": c.rnd.Intn(2) == 1, "rx2dr": rx2, "rx1off": rx1}, "rxdelay": rxd, "cflist": c.genCFList(invalid && c.rnd.Intn(2) == 0)}
	}
}

func allCmds(v interface{}) bool {
	l := anyList(v)
	if len(l) == 0 {
		return false
	}
	for _, it := range l {
		if it.(M)["t"] != "cmd" {
			return false
		}
	}
	return true
}

func rtEvent(c *ctx, val M, bothB4 bool) M {
	return rtEventPhy(c, val, valToPhy(val, bothB4))
}

// rtDerived: the frame value is not built from scratch but derived from a RECEIVED frame through the exported API
// (an answer or a forwarded frame that re-uses the received header): decode, drop the FOpts, flip the direction-neutral
// fields - then the usual round trip of that value.
func rtDerived(c *ctx, val M) M {
	phy := valToPhy(val, false)
	b, err := phy.MarshalBinary()
	if err != nil {
		return rtEvent(c, val, false)
	}
	var rx lorawan.PHYPayload
	if err := rx.UnmarshalBinary(b); err != nil {
		return rtEvent(c, val, false)
	}
	mp, ok := rx.MACPayload.(*lorawan.MACPayload)
	if !ok {
		return rtEvent(c, val, false)
	}
	mp.FHDR.FOpts = nil
	mp.FHDR.FCnt++
	ev := rtEventPhy(c, phyToVal(&rx), &rx)
	ev["derived"] = true
	return ev
}

func rtEventPhy(c *ctx, val M, phy *lorawan.PHYPayload) M {
	ev := M{"ev": "rt", "val": val}
	var b []byte
	res, _ := observeFast(func() error {
		var err error
		b, err = phy.MarshalBinary()
		return err
	})
	ev["merr"] = res
	if res != "" {
		return ev
	}
	var txt []byte
	tres, _ := observeFast(func() error {
		var err error
		txt, err = phy.MarshalText()
		return err
	})
	disturb() // both results are read after the library may have been used for other values
	ev["bytes"] = bs(b)
	ev["terr"] = tres
	ev["text"] = bs(txt)
	var un lorawan.PHYPayload
	ures, _ := observeFast(func() error { return un.UnmarshalBinary(append([]byte{}, b...)) })
	ev["uerr"] = ures
	if ures != "" {
		return ev
	}
	ev["un"] = phyToVal(&un)
	var ut lorawan.PHYPayload
	utres, _ := observeFast(func() error { return ut.UnmarshalText(txt) })
	ev["uterr"] = utres
	if utres == "" {
		ev["untext"] = phyToVal(&ut)
	}
	if val["kind"] == "data" {
		dres := ""
		doF := allCmds(val["fopts"])
		fp := anyList(val["fport"])
		doP := len(fp) == 1 && num(fp[0]) == 0 && allCmds(val["frm"])
		if doF || doP {
			dres, _ = observeFast(func() error {
				if doF {
					if err := un.DecodeFOptsToMACCommands(); err != nil {
						return err
					}
				}
				if doP {
					return un.DecodeFRMPayloadToMACCommands()
				}
				return nil
			})
			ev["derr"] = dres
			if dres == "" {
				ev["dec"] = phyToVal(&un)
			}
		}
	}
	if val["kind"] == "joinacc" {
		var key lorawan.AES128Key
		copy(key[:], c.bytesN(16))
		ja := valToPhy(val, false)
		var back lorawan.PHYPayload
		jres, _ := observeFast(func() error {
			if err := ja.EncryptJoinAcceptPayload(key); err != nil {
				return err
			}
			eb, err := ja.MarshalBinary()
			if err != nil {
				return err
			}
			if err := back.UnmarshalBinary(eb); err != nil {
				return err
			}
			return back.DecryptJoinAcceptPayload(key)
		})
		ev["jerr"] = jres
		if jres == "" {
			ev["jaback"] = phyToVal(&back)
		}
	}
	return ev
}

// streamPHY is ONE PHYPayload variable that every byte string of a run is also decoded into, the way a receive loop
// re-uses its frame variable: what it re-encodes to must be the string just received, whatever it held before.
var streamPHY lorawan.PHYPayload
var streamKept lorawan.PHYPayload
var streamKeptBytes []byte
var streamKeptOK bool

func bytesEvent(c *ctx, b []byte) M {
	ev := M{"ev": "bytes", "bytes": bs(b)}
	in := append([]byte{}, b...)
	var p lorawan.PHYPayload
	res, _ := observe(func() error { return p.UnmarshalBinary(in) })
	ev["derr"] = res
	{
		var sre []byte
		sres, _ := observeFast(func() error {
			if err := streamPHY.UnmarshalBinary(append([]byte{}, b...)); err != nil {
				return err
			}
			var err error
			sre, err = streamPHY.MarshalBinary()
			return err
		})
		ev["serr"] = sres
		ev["sre"] = bs(sre)
		// what a caller KEPT of the previous frame decoded into that variable (a copy of the value, e.g. appended to a
		// list) must still be that frame after the variable was decoded into again
		if streamKeptOK {
			var kre []byte
			kres, _ := observeFast(func() error {
				var err error
				kre, err = streamKept.MarshalBinary()
				return err
			})
			ev["kerr"], ev["kre"], ev["kbytes"] = kres, bs(kre), bs(streamKeptBytes)
		}
		streamKeptOK = sres == ""
		if streamKeptOK {
			streamKept, streamKeptBytes = streamPHY, append([]byte{}, b...)
		}
	}
	ev["intact"] = string(in) == string(b)
	// base64 path
	var pt lorawan.PHYPayload
	tres, _ := observeFast(func() error { return pt.UnmarshalText([]byte(base64.StdEncoding.EncodeToString(b))) })
	ev["terr"] = tres
	if res != "" {
		return ev
	}
	ev["val"] = phyToVal(&p)
	if tres == "" {
		ev["tval"] = phyToVal(&pt)
	}
	// a receiver that logs the frame and looks at its MIC before it forwards it: inspecting is not changing
	if len(b)%2 == 0 {
		observeFast(func() error {
			p.MarshalJSON()
			json.Marshal(&p)
			p.MarshalText()
			var k lorawan.AES128Key
			if mp, ok := p.MACPayload.(*lorawan.MACPayload); ok && mp != nil {
				p.ValidateUplinkDataMIC(lorawan.LoRaWAN1_1, 0, 0, 0, k, k)
				p.ValidateDownlinkDataMIC(lorawan.LoRaWAN1_1, 0, k)
			}
			return nil
		})
	}
	var re []byte
	rres, _ := observeFast(func() error {
		var err error
		re, err = p.MarshalBinary()
		return err
	})
	ev["rerr"] = rres
	// when the receiver is done with the frame it re-targets it in place (its own value: the port and the counter are
	// written through the decoded fields); no later frame may be affected by that
	defer func() {
		if mp, ok := p.MACPayload.(*lorawan.MACPayload); ok && mp != nil {
			if mp.FPort != nil {
				*mp.FPort ^= 0x5a
			}
			mp.FHDR.FCnt ^= 0xffff
			for i := range mp.FHDR.DevAddr {
				mp.FHDR.DevAddr[i] ^= 0xa5
			}
		}
	}()
	if rres == "" {
		ev["re"] = bs(re)
		var p2 lorawan.PHYPayload
		ares, _ := observeFast(func() error { return p2.UnmarshalBinary(append([]byte{}, re...)) })
		ev["aerr"] = ares
		if ares == "" {
			ev["again"] = phyToVal(&p2)
		}
	}
	// totality of the follow-up decoders on whatever was accepted (C09): record outcomes only
	ops := M{}
	var key lorawan.AES128Key
	copy(key[:], c.bytesN(16))
	try := func(name string, f func(q *lorawan.PHYPayload) error) {
		var q lorawan.PHYPayload
		buf := append([]byte{}, b...)
		if err := q.UnmarshalBinary(buf); err != nil {
			return
		}
		r, _ := observe(func() error { return f(&q) })
		if string(buf) != string(b) {
			r = "wrote-input"
		}
		ops[name] = r
	}
	try("decodefopts", func(q *lorawan.PHYPayload) error { return q.DecodeFOptsToMACCommands() })
	try("decodefrm", func(q *lorawan.PHYPayload) error { return q.DecodeFRMPayloadToMACCommands() })
	try("decryptfopts", func(q *lorawan.PHYPayload) error { return q.DecryptFOpts(key) })
	try("decryptfrm", func(q *lorawan.PHYPayload) error { return q.DecryptFRMPayload(key) })
	try("decryptja", func(q *lorawan.PHYPayload) error { return q.DecryptJoinAcceptPayload(key) })
	try("validateup", func(q *lorawan.PHYPayload) error {
		_, err := q.ValidateUplinkDataMIC(lorawan.LoRaWAN1_1, 0, 0, 0, key, key)
		return err
	})
	try("validatedown", func(q *lorawan.PHYPayload) error {
		_, err := q.ValidateDownlinkDataMIC(lorawan.LoRaWAN1_1, 0, key)
		return err
	})
	try("validatejoin", func(q *lorawan.PHYPayload) error { _, err := q.ValidateUplinkJoinMIC(key); return err })
	try("json", func(q *lorawan.PHYPayload) error { _, err := q.MarshalJSON(); return err })
	ev["ops"] = ops
	return ev
}

// genBytes: uniform strings, valid frames, and structure-aware mutations of valid frames.
func (c *ctx) genBytes() []byte {
	mode := c.rnd.Intn(10)
	if mode == 0 {
		return c.bytesN(c.rnd.Intn(40))
	}
	if mode == 1 {
		return c.bytesN(c.rnd.Intn(257))
	}
	if mode == 2 && c.rnd.Intn(2) == 0 {
		// frames whose base64 text also reads as something else (hex digits only, decimal digits only, one repeated
		// character): a text decoder that guesses the alphabet is wrong exactly here
		alpha := []string{"0123456789abcdefABCDEF", "0123456789abcdef", "0123456789", "A", "4", "f"}[c.rnd.Intn(6)]
		n := 4 * (2 + c.rnd.Intn(10))
		t := make([]byte, n)
		for i := range t {
			t[i] = alpha[c.rnd.Intn(len(alpha))]
		}
		if c.rnd.Intn(2) == 0 {
			t[0] = "4AIQYgow"[c.rnd.Intn(8)] // MType with the RFU bits clear
		}
		if b, err := base64.StdEncoding.DecodeString(string(t)); err == nil {
			return b
		}
	}
	var v M
	if c.rnd.Intn(3) == 0 {
		v = c.genJoinFrame(false)
	} else {
		v = c.genDataFrame(false)
	}
	b, err := valToPhy(v, false).MarshalBinary()
	if err != nil || len(b) == 0 {
		return c.bytesN(12 + c.rnd.Intn(10))
	}
	switch c.rnd.Intn(11) {
	case 9: // the 16-bit field in front of the MIC (DevNonce, RJCount) := a boundary value, written here and not by the encoder
		if len(b) >= 7 {
			x := c.pick(0x7fff, 0x8000, 0xffff, 0, 0x00ff, 0x0100, 0x7ffe, 0xfffe)
			b[len(b)-6], b[len(b)-5] = byte(x), byte(x>>8)
		}
	case 10: // any 16-bit window := a boundary value
		if len(b) >= 3 {
			i := 1 + c.rnd.Intn(len(b)-2)
			x := c.pick(0x7fff, 0x8000, 0xffff, 0, 0x00ff, 0x0100)
			b[i], b[i+1] = byte(x), byte(x>>8)
		}
	case 0: // as is
	case 1: // truncate
		b = b[:c.rnd.Intn(len(b)+1)]
	case 2: // extend
		b = append(b, c.bytesN(1+c.rnd.Intn(8))...)
	case 3: // flip a bit
		b[c.rnd.Intn(len(b))] ^= 1 << uint(c.rnd.Intn(8))
	case 4: // rewrite the FOptsLen nibble
		if len(b) > 5 {
			b[5] = b[5]&0xf0 | byte(c.rnd.Intn(16))
		}
	case 5: // FPort := 0
		if len(b) > 5 {
			i := 8 + int(b[5]&0x0f)
			if i < len(b)-4 {
				b[i] = 0
			}
		}
	case 6: // change MType, keep the rest
		b[0] = b[0]&0x1f | byte(c.rnd.Intn(8))<<5
	case 7: // MHDR RFU / major bits
		b[0] = b[0]&0xe0 | byte(c.rnd.Intn(32))
	case 8: // FOptsLen nibble + truncate to the boundary
		if len(b) > 5 {
			n := c.rnd.Intn(16)
			b[5] = b[5]&0xf0 | byte(n)
			cut := 8 + n + 4 + c.pick(-1, 0, 1, 2)
			if cut >= 0 && cut <= len(b) {
				b = b[:cut]
			}
		}
	}
	return b
}

// genJAPayload: what a device finds after decrypting a join-accept: JoinNonce(3) NetID(3) DevAddr(4) DLSettings(1)
// RxDelay(1) [CFList(16)].  The reserved parts (upper nibble of RxDelay, bytes 13..15 of a mask CFList, the unused
// CFList types) are filled as a sender of a later specification revision might fill them.
func (c *ctx) genJAPayload() []byte {
	n := 12
	if c.rnd.Intn(3) != 0 {
		n = 28
	}
	b := c.bytesN(n)
	if c.rnd.Intn(2) == 0 {
		b[11] &= 0x0f
	}
	if n == 28 {
		switch c.rnd.Intn(6) {
		case 0, 1:
			b[27] = 0
		case 2, 3:
			b[27] = 1
			if c.rnd.Intn(2) == 0 { // only the reserved bytes differ from what the library's own encoder writes
				b[24], b[25], b[26] = 0, 0, 0
				b[24+c.rnd.Intn(3)] = byte(1 + c.rnd.Intn(255))
			}
			if c.rnd.Intn(3) == 0 { // trailing all-zero masks
				for k := 12 + 2*c.rnd.Intn(6); k < 24; k++ {
					b[k] = 0
				}
			}
		case 4:
			b[27] = byte(2 + c.rnd.Intn(3))
		}
	}
	switch c.rnd.Intn(12) {
	case 0:
		b = b[:c.rnd.Intn(len(b))]
	case 1:
		b = append(b, c.bytesN(1+c.rnd.Intn(4))...)
	}
	return b
}

func jaPayloadEvent(c *ctx, b []byte) M {
	ev := M{"ev": "japl", "bytes": bs(b)}
	in := append([]byte{}, b...)
	var p lorawan.JoinAcceptPayload
	res, _ := observe(func() error { return p.UnmarshalBinary(false, in) })
	ev["derr"] = res
	ev["intact"] = string(in) == string(b)
	if res != "" {
		return ev
	}
	val := M{}
	jaToVal(val, &p)
	ev["val"] = val
	var re []byte
	rres, _ := observe(func() error {
		var err error
		re, err = p.MarshalBinary()
		return err
	})
	ev["rerr"] = rres
	if rres == "" {
		ev["re"] = bs(re)
		var q lorawan.JoinAcceptPayload
		ares, _ := observe(func() error { return q.UnmarshalBinary(false, re) })
		ev["aerr"] = ares
		if ares == "" {
			again := M{}
			jaToVal(again, &q)
			ev["again"] = again
		}
	}
	return ev
}

func drvFrame(c *ctx) error {
	switch c.mode {
	case "roundtrip":
		for i := 0; i < c.n; i++ {
			invalid := c.rnd.Intn(5) == 0
			var v M
			if c.rnd.Intn(4) == 0 {
				v = c.genJoinFrame(invalid)
			} else {
				v = c.genDataFrame(invalid)
			}
			c.provoke()
			c.emit(rtEvent(c, v, c.rnd.Intn(4) == 0))
			if !invalid && v["kind"] == "data" && c.rnd.Intn(6) == 0 {
				c.emit(rtDerived(c, v))
			}
		}
	case "cases":
		for _, cs := range c.cases {
			c.emit(rtEvent(c, cs["val"].(M), false))
		}
	case "bytes":
		for i := 0; i < c.n; i++ {
			if i%16 == 0 {
				c.provoke()
			}
			c.emit(bytesEvent(c, c.genBytes()))
		}
	case "bytecases":
		for _, cs := range c.cases {
			c.emit(bytesEvent(c, unbs(cs["bytes"])))
		}
	case "japayload": // decrypted join-accept payloads as byte strings (12 / 28 bytes), reserved bits and bytes set at will
		for i := 0; i < c.n; i++ {
			c.emit(jaPayloadEvent(c, c.genJAPayload()))
		}
	default:
		return fmt.Errorf("frame: unknown mode %q", c.mode)
	}
	return nil
}
