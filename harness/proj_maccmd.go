package main

// Projection between the specification's MAC-command values (field name -> value) and the Go
// payload structs.  This table (with observe()) is the trusted part of the harness: it names
// fields, it does not compute anything about the wire format.

import (
	"fmt"
	"reflect"
	"strings"
	"time"

	"github.com/brocaar/lorawan"
)

type fld struct{ name, path, kind string }

type cmdInfo struct {
	mk     func() lorawan.MACCommandPayload
	fields []fld
	size   int // only used to pick byte lengths for decode inputs; never compared
}

func u8(n string) fld                { return fld{n, n, "u8"} }
func u8p(n, p string) fld            { return fld{n, p, "u8"} }
func bl(n string) fld                { return fld{n, n, "bool"} }
func fq(n string) fld                { return fld{n, n, "freq"} }
func key(dir string, cid int) string { return fmt.Sprintf("%s/%d", dir, cid) }

var cmdTab = map[string]cmdInfo{
	key("down", 1):  {func() lorawan.MACCommandPayload { return &lorawan.ResetConfPayload{} }, []fld{u8p("Minor", "ServLoRaWANVersion.Minor")}, 1},
	key("down", 2):  {func() lorawan.MACCommandPayload { return &lorawan.LinkCheckAnsPayload{} }, []fld{u8("Margin"), u8("GwCnt")}, 2},
	key("down", 3):  {func() lorawan.MACCommandPayload { return &lorawan.LinkADRReqPayload{} }, []fld{u8("DataRate"), u8("TXPower"), {"ChMask", "ChMask", "chmask"}, u8p("ChMaskCntl", "Redundancy.ChMaskCntl"), u8p("NbRep", "Redundancy.NbRep")}, 4},
	key("down", 4):  {func() lorawan.MACCommandPayload { return &lorawan.DutyCycleReqPayload{} }, []fld{u8("MaxDCycle")}, 1},
	key("down", 5):  {func() lorawan.MACCommandPayload { return &lorawan.RXParamSetupReqPayload{} }, []fld{fq("Frequency"), u8p("RX2DataRate", "DLSettings.RX2DataRate"), u8p("RX1DROffset", "DLSettings.RX1DROffset"), {"Bit7", "DLSettings.OptNeg", "bool"}}, 4},
	key("down", 7):  {func() lorawan.MACCommandPayload { return &lorawan.NewChannelReqPayload{} }, []fld{u8("ChIndex"), fq("Freq"), u8("MaxDR"), u8("MinDR")}, 5},
	key("down", 8):  {func() lorawan.MACCommandPayload { return &lorawan.RXTimingSetupReqPayload{} }, []fld{u8("Delay")}, 1},
	key("down", 9):  {func() lorawan.MACCommandPayload { return &lorawan.TXParamSetupReqPayload{} }, []fld{{"DownlinkDwellTime", "DownlinkDwelltime", "int"}, {"UplinkDwellTime", "UplinkDwellTime", "int"}, u8("MaxEIRP")}, 1},
	key("down", 10): {func() lorawan.MACCommandPayload { return &lorawan.DLChannelReqPayload{} }, []fld{u8("ChIndex"), fq("Freq")}, 4},
	key("down", 11): {func() lorawan.MACCommandPayload { return &lorawan.RekeyConfPayload{} }, []fld{u8p("Minor", "ServLoRaWANVersion.Minor")}, 1},
	key("down", 12): {func() lorawan.MACCommandPayload { return &lorawan.ADRParamSetupReqPayload{} }, []fld{u8p("LimitExp", "ADRParam.LimitExp"), u8p("DelayExp", "ADRParam.DelayExp")}, 1},
	key("down", 13): {func() lorawan.MACCommandPayload { return &lorawan.DeviceTimeAnsPayload{} }, []fld{{"Time", "TimeSinceGPSEpoch", "dur"}}, 5},
	key("down", 14): {func() lorawan.MACCommandPayload { return &lorawan.ForceRejoinReqPayload{} }, []fld{u8("Period"), u8("MaxRetries"), u8("RejoinType"), u8("DR")}, 2},
	key("down", 15): {func() lorawan.MACCommandPayload { return &lorawan.RejoinParamSetupReqPayload{} }, []fld{u8("MaxTimeN"), u8("MaxCountN")}, 1},
	key("down", 17): {func() lorawan.MACCommandPayload { return &lorawan.PingSlotChannelReqPayload{} }, []fld{fq("Frequency"), u8("DR")}, 4},
	key("down", 19): {func() lorawan.MACCommandPayload { return &lorawan.BeaconFreqReqPayload{} }, []fld{fq("Frequency")}, 3},
	key("down", 32): {func() lorawan.MACCommandPayload { return &lorawan.DeviceModeConfPayload{} }, []fld{u8("Class")}, 1},

	key("up", 1):  {func() lorawan.MACCommandPayload { return &lorawan.ResetIndPayload{} }, []fld{u8p("Minor", "DevLoRaWANVersion.Minor")}, 1},
	key("up", 3):  {func() lorawan.MACCommandPayload { return &lorawan.LinkADRAnsPayload{} }, []fld{bl("ChannelMaskACK"), bl("DataRateACK"), bl("PowerACK")}, 1},
	key("up", 5):  {func() lorawan.MACCommandPayload { return &lorawan.RXParamSetupAnsPayload{} }, []fld{bl("ChannelACK"), bl("RX2DataRateACK"), bl("RX1DROffsetACK")}, 1},
	key("up", 6):  {func() lorawan.MACCommandPayload { return &lorawan.DevStatusAnsPayload{} }, []fld{u8("Battery"), {"Margin", "Margin", "i8"}}, 2},
	key("up", 7):  {func() lorawan.MACCommandPayload { return &lorawan.NewChannelAnsPayload{} }, []fld{bl("ChannelFrequencyOK"), bl("DataRateRangeOK")}, 1},
	key("up", 10): {func() lorawan.MACCommandPayload { return &lorawan.DLChannelAnsPayload{} }, []fld{bl("UplinkFrequencyExists"), bl("ChannelFrequencyOK")}, 1},
	key("up", 11): {func() lorawan.MACCommandPayload { return &lorawan.RekeyIndPayload{} }, []fld{u8p("Minor", "DevLoRaWANVersion.Minor")}, 1},
	key("up", 15): {func() lorawan.MACCommandPayload { return &lorawan.RejoinParamSetupAnsPayload{} }, []fld{bl("TimeOK")}, 1},
	key("up", 16): {func() lorawan.MACCommandPayload { return &lorawan.PingSlotInfoReqPayload{} }, []fld{u8("Periodicity")}, 1},
	key("up", 17): {func() lorawan.MACCommandPayload { return &lorawan.PingSlotChannelAnsPayload{} }, []fld{bl("DataRateOK"), bl("ChannelFrequencyOK")}, 1},
	key("up", 19): {func() lorawan.MACCommandPayload { return &lorawan.BeaconFreqAnsPayload{} }, []fld{bl("BeaconFrequencyOK")}, 1},
	key("up", 32): {func() lorawan.MACCommandPayload { return &lorawan.DeviceModeIndPayload{} }, []fld{u8("Class")}, 1},
}

var cmdKeys []string // sorted, for deterministic generation

func init() {
	for d, dir := range []string{"down", "up"} {
		_ = d
		for cid := 0; cid < 256; cid++ {
			if _, ok := cmdTab[key(dir, cid)]; ok {
				cmdKeys = append(cmdKeys, key(dir, cid))
			}
		}
	}
}

func splitKey(k string) (string, int) {
	var cid int
	parts := strings.SplitN(k, "/", 2)
	fmt.Sscanf(parts[1], "%d", &cid)
	return parts[0], cid
}

func fieldByPath(v reflect.Value, path string) reflect.Value {
	for _, p := range strings.Split(path, ".") {
		v = v.FieldByName(p)
	}
	return v
}

func freqVal(f uint32) M { return M{"q": int(f / 100), "r": int(f % 100)} }
func unfreq(v interface{}) uint32 {
	m := v.(M)
	return uint32(num(m["q"]))*100 + uint32(num(m["r"]))
}

func durVal(d time.Duration) M {
	neg := d < 0
	var a uint64
	if neg {
		a = uint64(-(d + 1)) + 1
	} else {
		a = uint64(d)
	}
	return M{"neg": neg, "secs": le64(a / 1000000000), "ns": int(a % 1000000000)}
}

// payloadToVal dumps a Go payload struct as a specification value.
func payloadToVal(k string, p lorawan.MACCommandPayload) M {
	info := cmdTab[k]
	rv := reflect.ValueOf(p).Elem()
	out := M{}
	// a payload whose Go type is not the one this command carries (the library handed out a wrong or stale payload) has no
	// such fields: project it as the zero value of the expected shape plus a marker, so that the trace specification sees a
	// value that differs from every specified one instead of the harness failing
	if want := reflect.TypeOf(info.mk()); reflect.TypeOf(p) != want {
		out["wrongtype"] = reflect.TypeOf(p).String()
		rv = reflect.ValueOf(info.mk()).Elem()
	}
	for _, f := range info.fields {
		fv := fieldByPath(rv, f.path)
		switch f.kind {
		case "u8":
			out[f.name] = int(fv.Uint())
		case "int", "i8":
			out[f.name] = int(fv.Int())
		case "bool":
			out[f.name] = fv.Bool()
		case "freq":
			out[f.name] = freqVal(uint32(fv.Uint()))
		case "chmask":
			bits := make([]int, 16)
			for i := 0; i < 16; i++ {
				if fv.Index(i).Bool() {
					bits[i] = 1
				}
			}
			out[f.name] = bits
		case "dur":
			out[f.name] = durVal(time.Duration(fv.Int()))
		}
	}
	return out
}

// valToPayload builds a Go payload struct from a specification value (as read from JSON or
// produced by a generator through payloadToVal's inverse).
func valToPayload(k string, val M) lorawan.MACCommandPayload {
	info := cmdTab[k]
	p := info.mk()
	rv := reflect.ValueOf(p).Elem()
	for _, f := range info.fields {
		fv := fieldByPath(rv, f.path)
		x, ok := val[f.name]
		if !ok {
			continue
		}
		switch f.kind {
		case "u8":
			fv.SetUint(uint64(num(x)))
		case "int", "i8":
			fv.SetInt(int64(num(x)))
		case "bool":
			fv.SetBool(x.(bool))
		case "freq":
			fv.SetUint(uint64(unfreq(x)))
		case "chmask":
			var arr []int
			switch t := x.(type) {
			case []int:
				arr = t
			case []interface{}:
				for _, e := range t {
					arr = append(arr, num(e))
				}
			}
			for i := 0; i < 16 && i < len(arr); i++ {
				fv.Index(i).SetBool(arr[i] != 0)
			}
		case "dur":
			m := x.(M)
			var secs uint64
			switch t := m["secs"].(type) {
			case []int:
				for i, b := range t {
					secs |= uint64(b) << (8 * uint(i))
				}
			case []interface{}:
				for i, b := range t {
					secs |= uint64(num(b)) << (8 * uint(i))
				}
			}
			d := int64(secs)*1000000000 + int64(num(m["ns"]))
			if m["neg"].(bool) {
				d = -d
			}
			fv.SetInt(d)
		}
	}
	return p
}

// cmdToVal projects a lorawan.Payload found in FOpts/FRMPayload.
func itemToVal(dir string, pl lorawan.Payload) M {
	switch t := pl.(type) {
	case *lorawan.MACCommand:
		out := M{"t": "cmd", "cid": int(t.CID)}
		if t.Payload == nil {
			out["p"] = []interface{}{}
			return out
		}
		if pp, ok := t.Payload.(*lorawan.ProprietaryMACCommandPayload); ok {
			out["raw"] = bs(pp.Bytes)
			return out
		}
		k := key(dir, int(t.CID))
		if _, ok := cmdTab[k]; !ok {
			out["t"] = "unknown"
			return out
		}
		out["p"] = []interface{}{payloadToVal(k, t.Payload)}
		return out
	case *lorawan.DataPayload:
		return M{"t": "raw", "b": bs(t.Bytes)}
	default:
		return M{"t": "other", "type": fmt.Sprintf("%T", pl)}
	}
}

func valToItem(dir string, it M) lorawan.Payload {
	switch it["t"] {
	case "raw":
		return &lorawan.DataPayload{Bytes: unbsAny(it["b"])}
	default:
		cid := num(it["cid"])
		mc := &lorawan.MACCommand{CID: lorawan.CID(cid)}
		if raw, ok := it["raw"]; ok {
			mc.Payload = &lorawan.ProprietaryMACCommandPayload{Bytes: unbsAny(raw)}
			return mc
		}
		switch p := it["p"].(type) {
		case []interface{}:
			if len(p) == 1 {
				mc.Payload = valToPayload(key(dir, cid), p[0].(M))
			}
		case []M:
			if len(p) == 1 {
				mc.Payload = valToPayload(key(dir, cid), p[0])
			}
		}
		return mc
	}
}

func unbsAny(v interface{}) []byte {
	switch t := v.(type) {
	case []byte:
		return t
	case []int:
		out := make([]byte, len(t))
		for i, x := range t {
			out[i] = byte(x)
		}
		return out
	default:
		return unbs(v)
	}
}
