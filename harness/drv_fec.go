package main

import (
	"fmt"
	"sync"

	"github.com/brocaar/lorawan/applayer/fragmentation"
)

func init() { families["fec"] = drvFec }

func rowsVal(rows [][]byte) []interface{} {
	out := []interface{}{}
	for _, r := range rows {
		out = append(out, bs(r))
	}
	return out
}

func fecEvent(data []byte, size, red int) M {
	ev := M{"ev": "fec", "size": size, "red": red, "data": bs(data)}
	in := append([]byte{}, data...)
	if curCtx != nil && curCtx.rnd.Intn(2) == 0 && size > 0 && red >= 0 && red*size <= 1<<16 {
		// the block is the leading part of a larger buffer (a firmware image, a receive buffer): spare capacity behind it,
		// enough for the parity rows, holding other data
		backing := make([]byte, len(data)+red*size+curCtx.rnd.Intn(40))
		curCtx.rnd.Read(backing)
		for i := len(data); i < len(backing); i++ {
			backing[i] |= 1
		}
		copy(backing, data)
		in = backing[:len(data)]
	}
	var rows [][]byte
	res, _ := observe(func() error {
		var err error
		rows, err = fragmentation.Encode(in, size, red)
		return err
	})
	ev["err"] = res
	ev["intact"] = string(in) == string(data)
	if res == "" {
		ev["rows"] = rowsVal(rows)
	}
	return ev
}

func (c *ctx) fecCase(maxSize, maxCount, maxRed int) {
	size := 1 + c.rnd.Intn(maxSize)
	count := 1 + c.rnd.Intn(maxCount)
	switch c.rnd.Intn(4) {
	case 0: // powers of two and neighbours take different branches
		p := 1 << uint(c.rnd.Intn(9))
		count = p + c.pick(-1, 0, 1)
		if count < 1 {
			count = 1
		}
		if count > maxCount {
			count = maxCount
		}
	}
	red := c.rnd.Intn(maxRed + 1)
	data := c.bytesN(size * count)
	// data shapes an optimisation could treat specially: zero runs (also at the end), repeated fragments, text-like tails
	// (ASCII, valid multi-byte UTF-8 sequences, possibly straddling a fragment boundary), constant blocks
	switch c.rnd.Intn(6) {
	case 0:
		z := c.rnd.Intn(len(data) + 1)
		for i := len(data) - z; i < len(data); i++ {
			data[i] = 0
		}
	case 1:
		seqs := [][]byte{{0xc3, 0xa9}, {0xe2, 0x82, 0xac}, {0xf0, 0x9f, 0x98, 0x80}, {'a', 'b'}, {0xd0, 0x96}}
		pos := len(data)
		for k := 0; k < 1+c.rnd.Intn(4) && pos > 0; k++ {
			q := seqs[c.rnd.Intn(len(seqs))]
			if len(q) > pos {
				break
			}
			pos -= len(q)
			copy(data[pos:], q)
		}
		if c.rnd.Intn(2) == 0 { // zero padding after the text
			z := c.rnd.Intn(size + 1)
			if z < len(data) {
				copy(data, data[z:])
				for i := len(data) - z; i < len(data); i++ {
					data[i] = 0
				}
			}
		}
	case 2:
		for i := range data {
			data[i] = data[i%size] // every fragment identical
		}
	}
	ev := fecEvent(data, size, red)
	// random erasure pattern for the specification's decoder (small blocks only)
	if count <= 24 && ev["err"] == "" {
		n := count + red
		keep := []int{}
		for j := 1; j <= n; j++ {
			if c.rnd.Intn(4) != 0 {
				keep = append(keep, j)
			}
		}
		ev["keep"] = keep
	}
	c.emit(ev)
	// linearity: Encode(a xor b) = Encode(a) xor Encode(b)
	if c.rnd.Intn(3) == 0 && size*count <= 600 {
		b := c.bytesN(len(data))
		x := make([]byte, len(data))
		for i := range x {
			x[i] = data[i] ^ b[i]
		}
		var ra, rb, rx [][]byte
		res, _ := observeFast(func() error {
			var err error
			if ra, err = fragmentation.Encode(append([]byte{}, data...), size, red); err != nil {
				return err
			}
			if rb, err = fragmentation.Encode(b, size, red); err != nil {
				return err
			}
			rx, err = fragmentation.Encode(x, size, red)
			return err
		})
		if res == "" {
			c.emit(M{"ev": "feclin", "size": size, "red": red, "ra": rowsVal(ra), "rb": rowsVal(rb), "rx": rowsVal(rx)})
		} else if res != "error" { // a panic / hang of the encoder is an observation too
			c.emit(M{"ev": "fec", "size": size, "red": red, "data": bs(data), "err": res, "intact": true, "rows": []interface{}{}})
		}
	}
}

func drvFec(c *ctx) error {
	switch c.mode {
	case "encode":
		for i := 0; i < c.n; i++ {
			switch i % 10 {
			case 0:
				c.fecCase(64, 300, 100)
				if i%50 == 0 { // as many fragments as the 14-bit NbFrag field allows, tiny fragments
					size, count, red := 1+c.rnd.Intn(2), c.pick(511, 512, 513, 1023, 1024, 1025, 2048, 4095, 4096, 4097, 8191, 8192, 16383), 1+c.rnd.Intn(2)
					c.emit(fecEvent(c.bytesN(size*count), size, red))
				}
			case 1, 2:
				c.fecCase(8, 24, 12)
			case 3, 4: // very small fragments: every byte boundary is a fragment boundary
				c.fecCase(3, 40, 12)
			default:
				c.fecCase(16, 64, 20)
			}
		}
		// invalid size arguments
		for _, sz := range []int{0, -1, -16, 7, 1 << 30} {
			c.emit(fecEvent(c.bytesN(20), sz, 2))
		}
		// a redundancy count beyond 8379: the PRBS seed 1 + 1001 N no longer fits 23 bits (few, tiny fragments)
		c.emit(fecEvent(c.bytesN(2*(2+c.rnd.Intn(9))), 2, 8380+c.rnd.Intn(600)))
		c.emit(fecEvent([]byte{}, 0, 0))
		c.emit(fecEvent([]byte{}, 4, 3))
		c.emit(fecEvent(c.bytesN(12), 4, 0))
	case "concurrent": // calls that overlap in time (a server fragmenting several images at once): every one of them is a call
		type job struct {
			data      []byte
			size, red int
			rows      [][]byte
			res       string
		}
		for round := 0; round < c.n; round++ {
			jobs := make([]*job, 8)
			for i := range jobs {
				size := 1 + c.rnd.Intn(24)
				count := 1 + c.rnd.Intn(60)
				jobs[i] = &job{data: c.bytesN(size * count), size: size, red: 1 + c.rnd.Intn(20)}
			}
			var wg sync.WaitGroup
			start := make(chan struct{})
			for _, j := range jobs {
				wg.Add(1)
				go func(j *job) {
					defer wg.Done()
					<-start
					for rep := 0; rep < 20; rep++ { // the last result is kept; earlier ones only keep the calls overlapping
						j.res, _ = observeFast(func() error {
							var err error
							j.rows, err = fragmentation.Encode(append([]byte{}, j.data...), j.size, j.red)
							return err
						})
					}
				}(j)
			}
			close(start)
			wg.Wait()
			for _, j := range jobs {
				ev := M{"ev": "fec", "size": j.size, "red": j.red, "data": bs(j.data), "err": j.res, "intact": true, "concurrent": true}
				if j.res == "" {
					ev["rows"] = rowsVal(j.rows)
				}
				c.emit(ev)
			}
		}
	case "cases": // (R): cases enumerated by TLC (m, red): data = distinguishable bytes
		for _, cs := range c.cases {
			m, red, size := num(cs["m"]), num(cs["red"]), num(cs["size"])
			data := make([]byte, m*size)
			for i := range data {
				data[i] = byte(1 + i*7%251)
			}
			ev := fecEvent(data, size, red)
			keep := []int{}
			for _, k := range anyList(cs["keep"]) {
				keep = append(keep, num(k))
			}
			ev["keep"] = keep
			c.emit(ev)
		}
	default:
		return fmt.Errorf("fec: unknown mode %q", c.mode)
	}
	return nil
}
