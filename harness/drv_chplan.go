package main

// Driver family `chplan` (C14, C15): channel-plan histories on band instances, CFList, LinkADRReq
// planning, and the cross-layer encodability of what a band hands out.

import (
	"fmt"
	"sort"
	"strconv"
	"time"

	"github.com/brocaar/lorawan"
	"github.com/brocaar/lorawan/band"
)

func init() { families["chplan"] = drvChPlan }

func intsOrEmpty(x []int) []int {
	if x == nil {
		return []int{}
	}
	return x
}

// planProjection: everything the band reports about its channel plan, plus the flags of the snapshot.
func planProjection(b band.Band) (M, []band.VerifChannel, error) {
	s, ok := band.VerifSnapshot(b)
	if !ok {
		return nil, nil, fmt.Errorf("no snapshot")
	}
	ul := []interface{}{}
	for _, c := range s.UplinkChannels {
		ul = append(ul, chVal(c))
	}
	dl := []interface{}{}
	for _, c := range s.DownlinkChannels {
		dl = append(dl, chVal(c))
	}
	defdrs := []int{}
	for _, d := range s.DataRates {
		defdrs = append(defdrs, d.Index)
	}
	sort.Ints(defdrs) // the snapshot lists them in map order
	all := intsOrEmpty(b.GetUplinkChannelIndices())
	get := []interface{}{}
	for _, i := range all {
		ii := i
		var ch band.Channel
		code := codeErr(func() error {
			var err error
			ch, err = b.GetUplinkChannel(ii)
			return err
		})
		get = append(get, M{"i": i, "code": code, "f": freqVal(ch.Frequency), "min": ch.MinDR, "max": ch.MaxDR})
	}
	rx1 := []interface{}{}
	for _, i := range all {
		ii := i
		var f uint32
		idx := codeInt(func() (int, error) { return b.GetRX1ChannelIndexForUplinkChannelIndex(ii) })
		fc := -1
		if ii < len(s.UplinkChannels) {
			uf := s.UplinkChannels[ii].Channel.Frequency
			fc = codeErr(func() error {
				var err error
				f, err = b.GetRX1FrequencyForUplinkFrequency(uf)
				return err
			})
		}
		rx1 = append(rx1, M{"i": i, "idx": idx, "fcode": fc, "f": freqVal(f)})
	}
	return M{"rx1": rx1, "extra": s.SupportsExtraChannels, "cfmin": s.CFListMinDR, "cfmax": s.CFListMaxDR, "ul": ul, "dl": dl, "all": all, "std": intsOrEmpty(b.GetStandardUplinkChannelIndices()), "custom": intsOrEmpty(b.GetCustomUplinkChannelIndices()),
		"enabled": intsOrEmpty(b.GetEnabledUplinkChannelIndices()), "disabled": intsOrEmpty(b.GetDisabledUplinkChannelIndices()), "get": get,
		"endrs": intsOrEmpty(b.GetEnabledUplinkDataRates()), "defdrs": defdrs}, s.UplinkChannels, nil
}

func lookupEvents(c *ctx, b band.Band, chans []band.VerifChannel) []interface{} {
	out := []interface{}{}
	seen := map[uint32]bool{}
	var freqs []uint32
	for _, ch := range chans {
		if !seen[ch.Channel.Frequency] {
			seen[ch.Channel.Frequency] = true
			freqs = append(freqs, ch.Channel.Frequency)
		}
	}
	freqs = append(freqs, 1, 868100001)
	if len(freqs) > 12 {
		c.rnd.Shuffle(len(freqs), func(i, j int) { freqs[i], freqs[j] = freqs[j], freqs[i] })
		freqs = freqs[:12]
	}
	for _, f := range freqs {
		ff := f
		for _, def := range []bool{true, false} {
			d := def
			out = append(out, M{"f": freqVal(f), "def": def, "code": codeInt(func() (int, error) { return b.GetUplinkChannelIndex(ff, d) })})
		}
		dr := c.rnd.Intn(9) - 1
		out = append(out, M{"f": freqVal(f), "dr": dr, "code": codeInt(func() (int, error) { return b.GetUplinkChannelIndexForFrequencyDR(ff, dr) })})
	}
	return out
}

func cflistEvent(b band.Band, ver string) M {
	ev := M{"ev": "cflist", "bname": b.Name(), "ver": ver}
	var cf *lorawan.CFList
	res, _ := observeFast(func() error { cf = b.GetCFList(ver); return nil })
	ev["err"] = res
	ev["val"] = cflistToVal(cf)
	if cf != nil {
		var bts []byte
		mres, _ := observeFast(func() error {
			var err error
			bts, err = cf.MarshalBinary()
			return err
		})
		ev["merr"] = mres
		if mres == "" {
			ev["bytes"] = bs(bts)
			var back lorawan.CFList
			ures, _ := observeFast(func() error { return back.UnmarshalBinary(bts) })
			ev["uerr"] = ures
			if ures == "" {
				ev["back"] = cflistToVal(&back)
			}
			// inside a join-accept
			ja := lorawan.PHYPayload{MHDR: lorawan.MHDR{MType: lorawan.JoinAccept}, MACPayload: &lorawan.JoinAcceptPayload{CFList: cf}}
			var jb []byte
			jres, _ := observeFast(func() error {
				var err error
				jb, err = ja.MarshalBinary()
				return err
			})
			ev["jerr"] = jres
			ev["jlen"] = len(jb)
		}
	}
	return ev
}

var cfVersions = []string{band.LoRaWAN_1_0_0, band.LoRaWAN_1_0_1, band.LoRaWAN_1_0_2, band.LoRaWAN_1_0_3, band.LoRaWAN_1_0_4, band.LoRaWAN_1_1_0, "2.0.0"}

// tlcIndex: how an index beyond TLC's 32-bit integers is written in an event (see genIndex): far out of range, same sign
func tlcIndex(i int) int {
	if i >= 1<<31 {
		return 1<<30 + i%(1<<20)
	}
	if i < -(1 << 31) {
		return -(1 << 30) - (-i)%(1<<20)
	}
	return i
}

func (c *ctx) genIndex(n int) int {
	switch c.rnd.Intn(10) {
	case 0:
		return -1 - c.rnd.Intn(3)
	case 1:
		return n + c.rnd.Intn(3)
	case 2:
		return c.pick(-1<<31+1, 1<<31-1, 1000000)
	case 3:
		// an index that is a valid one modulo 2^32 (or 2^16): only a check done in a narrower type takes it for valid.
		// Events carry such an index as 2^30 + low part (TLC computes with 32-bit integers): out of range either way.
		k := 0
		if n > 0 {
			k = c.rnd.Intn(n)
		}
		return k + c.pick(1<<32, -(1<<32), 1<<33, 1<<16, -(1<<16), 1<<62)
	default:
		if n == 0 {
			return 0
		}
		return c.rnd.Intn(n)
	}
}

// bandFreq: a frequency inside the band's range (multiple of 100 Hz), or an existing one (duplicates)
func (c *ctx) bandFreq(chans []band.VerifChannel) uint32 {
	lo, hi := chans[0].Channel.Frequency, chans[0].Channel.Frequency
	for _, ch := range chans {
		if ch.Channel.Frequency != 0 && ch.Channel.Frequency < lo {
			lo = ch.Channel.Frequency
		}
		if ch.Channel.Frequency > hi {
			hi = ch.Channel.Frequency
		}
	}
	switch c.rnd.Intn(8) {
	case 0:
		return 0
	case 1:
		return chans[c.rnd.Intn(len(chans))].Channel.Frequency
	default:
		span := hi - lo + 2000000
		return (lo - 1000000 + uint32(c.rnd.Int63n(int64(span)))) / 100 * 100
	}
}

func (c *ctx) applyRandomOp(b band.Band, n int, chans []band.VerifChannel, maxChans int) M {
	ev := M{"ev": "op", "bname": b.Name()}
	k := c.rnd.Intn(3)
	if n >= maxChans && k == 0 {
		k = 1
	}
	switch k {
	case 0:
		f := c.bandFreq(chans)
		mn, mx := c.rnd.Intn(3), 3+c.rnd.Intn(5)
		switch c.rnd.Intn(8) {
		case 0, 1, 2, 3:
			mn, mx = 0, 5
		case 4: // a single data-rate, possibly not adjacent to the ranges in use (FSK-only, LR-FHSS-only channels)
			mn = c.rnd.Intn(16)
			mx = mn
		case 5: // a high range disjoint from the standard one
			mn = 6 + c.rnd.Intn(6)
			mx = mn + c.rnd.Intn(4)
		}
		ev["op"] = "add"
		ev["rawf"] = strconv.FormatUint(uint64(f), 10) // as text: 2.4 GHz does not fit the TLC integer range
		ev["f"] = freqVal(f)
		ev["min"] = mn
		ev["max"] = mx
		ev["code"] = codeErr(func() error { return b.AddChannel(f, mn, mx) })
	case 1:
		i := c.genIndex(n)
		ev["op"] = "disable"
		ev["i"] = tlcIndex(i)
		ev["code"] = codeErr(func() error { return b.DisableUplinkChannelIndex(i) })
	default:
		i := c.genIndex(n)
		ev["op"] = "enable"
		ev["i"] = tlcIndex(i)
		ev["code"] = codeErr(func() error { return b.EnableUplinkChannelIndex(i) })
	}
	return ev
}

// applyOpDesc re-applies an operation described by an event of applyRandomOp to another band object
func applyOpDesc(b band.Band, ev M) {
	observeFast(func() error {
		switch ev["op"] {
		case "add":
			f, _ := strconv.ParseUint(ev["rawf"].(string), 10, 32)
			return b.AddChannel(uint32(f), ev["min"].(int), ev["max"].(int))
		case "disable":
			return b.DisableUplinkChannelIndex(ev["i"].(int))
		default:
			return b.EnableUplinkChannelIndex(ev["i"].(int))
		}
	})
}

func (c *ctx) history(name band.Name, nops int) error {
	b, err := band.GetConfig(name, c.rnd.Intn(2) == 0, lorawan.DwellTime(c.rnd.Intn(2)))
	if err != nil {
		return err
	}
	proj, chans, err := planProjection(b)
	if err != nil {
		return err
	}
	c.emit(M{"ev": "reset", "bname": b.Name(), "proj": proj})
	if c.rnd.Intn(2) == 0 && len(chans) > 0 {
		// the very first operation on a fresh band is a valid Disable (then Enable) of a default channel: nothing was
		// added or re-allocated yet, the tables are exactly as the constructor left them
		i := c.rnd.Intn(len(chans))
		for _, opn := range []string{"disable", "enable"} {
			op := opn
			ev := M{"ev": "op", "bname": b.Name(), "op": op, "i": i}
			ev["code"] = codeErr(func() error {
				if op == "disable" {
					return b.DisableUplinkChannelIndex(i)
				}
				return b.EnableUplinkChannelIndex(i)
			})
			if proj, chans, err = planProjection(b); err != nil {
				return err
			}
			ev["proj"] = proj
			ev["lookups"] = lookupEvents(c, b, chans)
			c.emit(ev)
			if c.rnd.Intn(2) == 0 {
				break
			}
		}
	}
	if len(chans) > 16 && c.rnd.Intn(3) == 0 {
		// one or two whole 16-channel blocks switched off (a network that does not listen there): the channel-mask CFList then
		// has an all-zero mask BETWEEN non-zero ones
		for k := 0; k < 1+c.rnd.Intn(2); k++ {
			blk := c.rnd.Intn((len(chans)+15)/16 - 1)
			for i := blk * 16; i < blk*16+16 && i < len(chans); i++ {
				ii := i
				ev := M{"ev": "op", "bname": b.Name(), "op": "disable", "i": ii}
				ev["code"] = codeErr(func() error { return b.DisableUplinkChannelIndex(ii) })
				if proj, chans, err = planProjection(b); err != nil {
					return err
				}
				ev["proj"] = proj
				ev["lookups"] = []interface{}{}
				c.emit(ev)
			}
		}
		c.emit(cflistEvent(b, cfVersions[c.rnd.Intn(len(cfVersions))]))
	}
	if proj["extra"].(bool) && c.rnd.Intn(4) == 0 {
		// a plan grown beyond one 16-channel block (17..24 channels): indices from 16 on exist
		target := 17 + c.rnd.Intn(8)
		for len(chans) < target {
			f := c.bandFreq(chans)/100*100 + 100
			ev := M{"ev": "op", "bname": b.Name(), "op": "add", "rawf": strconv.FormatUint(uint64(f), 10), "f": freqVal(f), "min": 0, "max": 5}
			ev["code"] = codeErr(func() error { return b.AddChannel(f, 0, 5) })
			if proj, chans, err = planProjection(b); err != nil {
				return err
			}
			ev["proj"] = proj
			ev["lookups"] = lookupEvents(c, b, chans)
			c.emit(ev)
			if ev["code"] != 0 {
				break
			}
		}
	}
	if proj["extra"].(bool) && c.rnd.Intn(4) == 0 {
		// single-data-rate channels added from the top down: the set of enabled data-rates has a hole that the next
		// addition fills (every step is followed by the full projection, i.e. by queries)
		top := 6 + c.rnd.Intn(6)
		for a := top; a >= top-2 && a >= 0; a-- {
			f := c.bandFreq(chans)/100*100 + 100
			mn := a
			ev := M{"ev": "op", "bname": b.Name(), "op": "add", "rawf": strconv.FormatUint(uint64(f), 10), "f": freqVal(f), "min": mn, "max": mn}
			ev["code"] = codeErr(func() error { return b.AddChannel(f, mn, mn) })
			if proj, chans, err = planProjection(b); err != nil {
				return err
			}
			ev["proj"] = proj
			ev["lookups"] = lookupEvents(c, b, chans)
			c.emit(ev)
			if c.rnd.Intn(2) == 0 {
				a--
			}
		}
	}
	for i := 0; i < nops; i++ {
		ev := c.applyRandomOp(b, len(chans), chans, 40)
		if i+1 < nops && c.rnd.Intn(3) == 0 {
			// a silent step: the operation is followed by NO query at all, the next operation comes straight after it (what a
			// query would have computed or cached is not there); the model takes the same transition and the next full
			// projection is compared with the state reached by both
			ev["silent"] = true
			c.emit(ev)
			continue
		}
		proj, chans, err = planProjection(b)
		if err != nil {
			return err
		}
		ev["proj"] = proj
		ev["lookups"] = lookupEvents(c, b, chans)
		c.emit(ev)
		if c.rnd.Intn(4) == 0 {
			c.emit(cflistEvent(b, cfVersions[c.rnd.Intn(len(cfVersions))]))
		}
	}
	c.emit(cflistEvent(b, cfVersions[c.rnd.Intn(len(cfVersions))]))
	return nil
}

func lpVal(p lorawan.LinkADRReqPayload) M {
	bits := make([]int, 16)
	for i := range p.ChMask {
		if p.ChMask[i] {
			bits[i] = 1
		}
	}
	return M{"cntl": int(p.Redundancy.ChMaskCntl), "mask": bits, "dr": int(p.DataRate), "txp": int(p.TXPower), "nbrep": int(p.Redundancy.NbRep)}
}

// planEvent: nStd = number of channels the band had when it was created; every channel beyond was ADDED by this driver and
// is therefore a custom channel whatever the band says about it now (the planner must not treat it as a standard channel)
func planEvent(b band.Band, dev []int, nStd int) (M, error) {
	s, ok := band.VerifSnapshot(b)
	if !ok {
		return nil, fmt.Errorf("no snapshot")
	}
	ul := []interface{}{}
	for i, ch := range s.UplinkChannels {
		ul = append(ul, M{"en": ch.Enabled, "cu": i >= nStd})
	}
	ev := M{"ev": "plan", "bname": b.Name(), "chans": ul, "dev": intsOrEmpty(dev)}
	var pls []lorawan.LinkADRReqPayload
	res, _ := observeFast(func() error { pls = b.GetLinkADRReqPayloadsForEnabledUplinkChannelIndices(dev); return nil })
	ev["err"] = res
	// the same band plans for other devices (one that has nothing, one that has every channel) before the first answer is
	// looked at: an answer belongs to its caller
	observeFast(func() error {
		b.GetLinkADRReqPayloadsForEnabledUplinkChannelIndices(nil)
		b.GetLinkADRReqPayloadsForEnabledUplinkChannelIndices(b.GetUplinkChannelIndices())
		return nil
	})
	out, encs := []interface{}{}, []int{}
	for _, p := range pls {
		out = append(out, lpVal(p))
		pp := p
		var bts []byte
		code := codeErr(func() error {
			var err error
			bts, err = pp.MarshalBinary()
			return err
		})
		if code == 0 {
			var back lorawan.LinkADRReqPayload
			if err := back.UnmarshalBinary(bts); err != nil || back != pp {
				code = -3 // does not decode back to the same value
			}
		}
		encs = append(encs, code)
	}
	ev["payloads"] = out
	ev["encs"] = encs
	var applied []int
	ares, _ := observeFast(func() error {
		var err error
		applied, err = b.GetEnabledUplinkChannelIndicesForLinkADRReqPayloads(dev, pls)
		return err
	})
	ev["aerr"] = ares
	ev["applied"] = intsOrEmpty(applied)
	return ev, nil
}

func (c *ctx) devSet(n int, enabled []int, extra bool) []int {
	in := make([]bool, n)
	switch c.rnd.Intn(9) {
	case 0: // exactly the network's enabled channels
		for _, i := range enabled {
			in[i] = true
		}
	case 1: // all
		for i := range in {
			in[i] = true
		}
	case 2: // none
	case 3: // one 8-channel sub-band (+ its 500 kHz channel for the 72-channel plans)
		sb := c.rnd.Intn((n + 7) / 8)
		for i := sb * 8; i < sb*8+8 && i < n; i++ {
			in[i] = true
		}
		if n == 72 && sb < 8 {
			in[64+sb] = true
		}
	case 7: // a sub-band plus an arbitrary choice among the channels from 64 on (500 kHz channels / upper blocks)
		if n > 64 {
			sb := c.rnd.Intn(8)
			for i := sb * 8; i < sb*8+8; i++ {
				in[i] = true
			}
			for i := 64; i < n && i < 80; i++ {
				in[i] = c.rnd.Intn(2) == 0
			}
		} else {
			for i := range in {
				in[i] = c.rnd.Intn(2) == 0
			}
		}
	case 4: // network set with a few differences
		for _, i := range enabled {
			in[i] = true
		}
		for k := 0; k < 1+c.rnd.Intn(3); k++ {
			j := c.rnd.Intn(n)
			in[j] = !in[j]
		}
	case 5: // alternating
		for i := range in {
			in[i] = i%2 == c.rnd.Intn(1)
		}
	case 6: // block-aligned difference
		for _, i := range enabled {
			in[i] = true
		}
		blk := c.rnd.Intn((n + 15) / 16)
		for i := blk * 16; i < blk*16+16 && i < n; i++ {
			in[i] = c.rnd.Intn(2) == 0
		}
	default:
		for i := range in {
			in[i] = c.rnd.Intn(2) == 0
		}
	}
	var out []int
	for i, x := range in {
		if x {
			out = append(out, i)
		}
	}
	if extra && c.rnd.Intn(6) == 0 { // dynamic-channel bands: channels the device has enabled but the network's plan does not contain (stale configuration)
		for k := 0; k < 1+c.rnd.Intn(2); k++ {
			x := n + c.rnd.Intn(12)
			dup := false
			for _, y := range out {
				dup = dup || y == x
			}
			if !dup {
				out = append(out, x)
			}
		}
	}
	if c.rnd.Intn(6) == 0 { // unsorted input
		c.rnd.Shuffle(len(out), func(i, j int) { out[i], out[j] = out[j], out[i] })
	}
	return out
}

var planExhMax = 16

func (c *ctx) planCase(name band.Name, nsets int, exhaustive bool) error {
	b, err := band.GetConfig(name, false, lorawan.DwellTimeNoLimit)
	if err != nil {
		return err
	}
	proj0, chans, err := planProjection(b)
	if err != nil {
		return err
	}
	nStd := len(chans)
	maxChans := 16
	if exhaustive {
		maxChans = planExhMax
	}
	if len(chans) > 16 {
		maxChans = len(chans)
	} else if !exhaustive && c.rnd.Intn(3) == 0 {
		maxChans = 40
	}
	if exhaustive { // fill the plan up to the bound with custom channels, then toggle some channels
		for len(chans) < maxChans {
			if err := b.AddChannel(c.bandFreq(chans)/100*100+100, 0, 5); err != nil {
				break
			}
			_, chans, _ = planProjection(b)
		}
	}
	if !exhaustive && len(chans) <= 16 && c.rnd.Intn(2) == 0 { // wide plans: custom channels beyond the first 16-channel block
		target := 17 + c.rnd.Intn(24)
		maxChans = target
		for len(chans) < target {
			if err := b.AddChannel(c.bandFreq(chans)/100*100+100, 0, 5); err != nil {
				break
			}
			_, chans, _ = planProjection(b)
		}
	}
	almost := c.mode == "plan72" // nearly complete plans: a few single channels off, nothing else
	if !almost && !exhaustive && len(chans) > 16 && c.rnd.Intn(2) == 0 {
		// the usual deployment of a 72- / 96-channel plan: the network uses one or two 8-channel sub-bands (and, with 72
		// channels, some of the 500 kHz channels 64..71); everything else is disabled
		keep := map[int]bool{}
		for k := 0; k < 1+c.rnd.Intn(2); k++ {
			sb := c.rnd.Intn(len(chans) / 8)
			for i := sb * 8; i < sb*8+8; i++ {
				keep[i] = true
			}
		}
		if len(chans) == 72 {
			for i := 64; i < 72; i++ {
				keep[i] = c.rnd.Intn(3) == 0
			}
		}
		for i := range chans {
			if !keep[i] {
				b.DisableUplinkChannelIndex(i)
			}
		}
		_, chans, _ = planProjection(b)
	}
	if !almost && !exhaustive && len(chans) > 16 && c.rnd.Intn(3) == 0 {
		// one or two whole 16-channel blocks switched off, the rest untouched: a channel-mask CFList with an all-zero mask
		// BETWEEN non-zero ones
		for k := 0; k < 1+c.rnd.Intn(2); k++ {
			blk := c.rnd.Intn((len(chans) + 15) / 16)
			for i := blk * 16; i < blk*16+16 && i < len(chans); i++ {
				b.DisableUplinkChannelIndex(i)
			}
		}
		_, chans, _ = planProjection(b)
	}
	if !exhaustive && len(chans) > 16 && (almost || c.rnd.Intn(3) == 0) {
		// almost-full blocks: ONE channel of a block switched off - its first, its last, or one in the middle
		for k := 0; k < 1+c.rnd.Intn(3); k++ {
			blk := c.rnd.Intn((len(chans) + 15) / 16)
			i := blk*16 + c.pick(0, 15, 15, 7, 8, c.rnd.Intn(16))
			if i < len(chans) {
				b.DisableUplinkChannelIndex(i)
			}
		}
		_, chans, _ = planProjection(b)
	}
	nrand := c.rnd.Intn(14)
	if almost {
		nrand = c.rnd.Intn(2)
	}
	for i := 0; i < nrand; i++ {
		c.applyRandomOp(b, len(chans), chans, maxChans)
		_, chans, _ = planProjection(b)
	}
	n := len(chans)
	enabled := b.GetEnabledUplinkChannelIndices()
	if exhaustive && n <= 16 {
		for m := 0; m < 1<<uint(n); m++ {
			var dev []int
			for i := 0; i < n; i++ {
				if m>>uint(i)&1 == 1 {
					dev = append(dev, i)
				}
			}
			ev, err := planEvent(b, dev, nStd)
			if err != nil {
				return err
			}
			c.emit(ev)
		}
		return nil
	}
	for k := 0; k < nsets; k++ {
		ev, err := planEvent(b, c.devSet(n, enabled, proj0["extra"].(bool)), nStd)
		if err != nil {
			return err
		}
		c.emit(ev)
	}
	return nil
}

// xlayer: what a band hands out must be encodable by the MAC layer and decode back
func xlayerEvents(c *ctx, name band.Name) error {
	b, err := band.GetConfig(name, false, lorawan.DwellTimeNoLimit)
	if err != nil {
		return err
	}
	s, _ := band.VerifSnapshot(b)
	df := b.GetDefaults()
	emit := func(what, cmd string, k string, val M) {
		c.emit(func() M {
			e := encEvent(k, val)
			e["ev"] = "xlayer"
			e["bname"] = b.Name()
			e["what"] = what
			e["cmd"] = cmd
			return e
		}())
	}
	emit("rx2", "RXParamSetupReq", key("down", 5), M{"Frequency": freqVal(df.RX2Frequency), "RX2DataRate": df.RX2DataRate, "RX1DROffset": 0, "Bit7": false})
	pf, _ := b.GetPingSlotFrequency(lorawan.DevAddr{1, 2, 3, 4}, 128*time.Second)
	emit("pingslot", "PingSlotChannelReq", key("down", 17), M{"Frequency": freqVal(pf), "DR": df.RX2DataRate})
	emit("beacon", "BeaconFreqReq", key("down", 19), M{"Frequency": freqVal(pf)})
	for i, ch := range s.UplinkChannels {
		if i > 3 && i < len(s.UplinkChannels)-2 && c.rnd.Intn(8) != 0 {
			continue
		}
		emit("uplink-channel", "NewChannelReq", key("down", 7), M{"ChIndex": i % 256, "Freq": freqVal(ch.Channel.Frequency), "MinDR": ch.Channel.MinDR, "MaxDR": ch.Channel.MaxDR})
	}
	for i, ch := range s.DownlinkChannels {
		if i > 3 && c.rnd.Intn(8) != 0 {
			continue
		}
		emit("downlink-channel", "DLChannelReq", key("down", 10), M{"ChIndex": i % 256, "Freq": freqVal(ch.Channel.Frequency)})
	}
	// channels a network adds at frequencies outside the band's own range (any multiple of 100 Hz the 24-bit field carries):
	// the band hands them out like every other channel and DLChannelReq must carry them unchanged
	if s.SupportsExtraChannels {
		for k := 0; k < 4; k++ {
			f := uint32(c.pick(137000000, 433175000, 1200000000, 1300000000, 1500000100, 1677721500, 100+100*c.rnd.Intn(16777215)))
			if err := b.AddChannel(f, 0, 5); err != nil {
				continue
			}
			idx := b.GetUplinkChannelIndices()
			i := idx[len(idx)-1]
			ch, err := b.GetDownlinkChannel(i)
			if err != nil {
				continue
			}
			emit("added-channel", "DLChannelReq", key("down", 10), M{"ChIndex": i % 256, "Freq": freqVal(ch.Frequency)})
		}
		// ... and through NewChannelReq, whose 24-bit field has two codings (100 Hz units below 1.2 GHz, 200 Hz units from
		// 2.4 GHz on): frequencies at the ends of both ranges.  What the field cannot carry must be refused, not altered.
		for k := 0; k < 6; k++ {
			f := uint32(c.pick(1199999900, 1200000000, 2400000000, 2400000200, 2479000000, 3355443000, 3355442800, 3355443200, 3355443400, 4294967200,
				2400000000+200*c.rnd.Intn(4777216)))
			if err := b.AddChannel(f, 0, 5); err != nil {
				continue
			}
			idx := b.GetUplinkChannelIndices()
			i := idx[len(idx)-1]
			ch, err := b.GetUplinkChannel(i)
			if err != nil {
				continue
			}
			emit("added-channel-nc", "NewChannelReq", key("down", 7), M{"ChIndex": i % 256, "Freq": freqVal(ch.Frequency), "MinDR": ch.MinDR, "MaxDR": ch.MaxDR})
		}
	}
	return nil
}

func drvChPlan(c *ctx) error {
	switch c.mode {
	case "history":
		for i := 0; i < c.n; i++ {
			if err := c.history(bandNames[i%14], 5+c.rnd.Intn(26)); err != nil {
				return err
			}
		}
	case "plan":
		for i := 0; i < c.n; i++ {
			if err := c.planCase(bandNames[i%14], 40, false); err != nil {
				return err
			}
		}
	case "plan72": // the 72- / 96-channel plans, nearly complete (see planCase)
		for i := 0; i < c.n; i++ {
			if err := c.planCase([]band.Name{band.US915, band.AU915, band.CN470}[i%3], 30, false); err != nil {
				return err
			}
		}
	case "planexh", "planexh10": // all 2^n device subsets for <=16-channel (<=10-channel) plans
		if c.mode == "planexh10" {
			planExhMax = 10
		}
		for i := 0; i < c.n; i++ {
			name := []band.Name{band.EU868, band.AS923, band.KR920, band.IN865, band.RU864, band.EU433, band.CN779, band.ISM2400}[i%8]
			if err := c.planCase(name, 0, true); err != nil {
				return err
			}
		}
	case "drranges": // every band x every data-rate range a..b (0 <= a <= b <= 15) added as one custom channel to a fresh plan
		for _, name := range bandNames[:14] {
			for a := 0; a <= 15; a++ {
				for bb := a; bb <= 15; bb++ {
					b, err := band.GetConfig(name, false, lorawan.DwellTimeNoLimit)
					if err != nil {
						return err
					}
					proj, chans, err := planProjection(b)
					if err != nil {
						return err
					}
					if !proj["extra"].(bool) && (a > 0 || bb > 0) {
						continue // fixed plans refuse AddChannel: one probe is enough
					}
					c.emit(M{"ev": "reset", "bname": b.Name(), "proj": proj})
					f := c.bandFreq(chans)/100*100 + 100
					mn, mx := a, bb
					ev := M{"ev": "op", "bname": b.Name(), "op": "add", "f": freqVal(f), "min": mn, "max": mx}
					ev["code"] = codeErr(func() error { return b.AddChannel(f, mn, mx) })
					proj, chans, err = planProjection(b)
					if err != nil {
						return err
					}
					ev["proj"] = proj
					ev["lookups"] = lookupEvents(c, b, chans)
					c.emit(ev)
				}
			}
		}
	case "xlayer":
		for _, name := range bandNames[:14] {
			if err := xlayerEvents(c, name); err != nil {
				return err
			}
		}
	default:
		return fmt.Errorf("chplan: unknown mode %q", c.mode)
	}
	return nil
}
