package main

// Driver family `join` (C16): join- and rejoin-requests through the real http.Handler of the
// join-server (sequentially and concurrently); one event per request with the device secrets and
// the answer's JSON fields.

import (
	"bytes"
	"encoding/hex"
	"encoding/json"
	"fmt"
	"github.com/sirupsen/logrus"
	"io"
	"io/ioutil"
	"net/http/httptest"
	"sort"
	"strings"
	"sync"

	"github.com/brocaar/lorawan"
	"github.com/brocaar/lorawan/backend"
	"github.com/brocaar/lorawan/backend/joinserver"
)

func init() { families["join"] = drvJoin }

// kekArena: the buffers of the key store, by key length (see the batch set-up)
var kekArena = map[int][][]byte{}

type joinCase struct {
	kind            string
	known, micok    bool
	nwk, app        lorawan.AES128Key
	devEUI, joinEUI lorawan.EUI64
	netID           lorawan.NetID
	devNonce        int
	joinNonce       int
	devAddr         lorawan.DevAddr
	dl              lorawan.DLSettings
	rxDelay         int
	cflist          []byte
	nsKEK, asKEK    []byte
	asLabel         string
	txid            uint32
	body            []byte
	reqSender       string
	reqReceiver     string
	fault           string // injected storage fault: "", "devkeys", "nskek", "aslabel", "askek"
	faults          M      // the faults this request actually meets (labels may be shared within a batch)
}

func (c *ctx) genCFListBytes() []byte {
	switch c.rnd.Intn(3) {
	case 0:
		return nil
	case 1: // channel list: five 24-bit frequencies, type 0
		b := c.bytesN(16)
		b[15] = 0
		return b
	default: // channel masks: RFU bytes zero, type 1
		b := c.bytesN(16)
		b[12], b[13], b[14], b[15] = 0, 0, 0, 1
		return b
	}
}

func (c *ctx) genJoinCase(i int) *joinCase {
	jc := &joinCase{kind: []string{"join", "join", "rejoin0", "rejoin1", "rejoin2"}[c.rnd.Intn(5)], known: c.rnd.Intn(8) != 0, micok: c.rnd.Intn(6) != 0,
		nwk: c.key(), app: c.key(), devNonce: c.rnd.Intn(65536), joinNonce: c.rnd.Intn(1 << 24), rxDelay: c.rnd.Intn(16), cflist: c.genCFListBytes(), txid: c.rnd.Uint32()}
	if c.rnd.Intn(5) == 0 {
		jc.app = jc.nwk // a LoRaWAN 1.0 device has one root key
	}
	if c.rnd.Intn(6) == 0 { // counters at the ends of their ranges
		jc.joinNonce = c.pick(0, 1, 1<<24-2, 1<<24-1)
	}
	if c.rnd.Intn(6) == 0 {
		jc.devNonce = c.pick(0, 1, 65534, 65535)
	}
	if c.rnd.Intn(12) == 0 { // an RxDelay the 4-bit field cannot carry: the request cannot be answered with Success
		jc.rxDelay = c.pick(16, 255, 256, 257, 271, 65539, -1, -255)
		if c.rnd.Intn(2) == 0 { // ... in a request that cannot be authenticated either: MICFailed comes first
			jc.micok = false
		}
	}
	copy(jc.devEUI[:], c.bytesN(8))
	jc.devEUI[0] = byte(i) // distinct per case within a batch
	jc.devEUI[1] = byte(i >> 8)
	copy(jc.joinEUI[:], c.bytesN(8))
	copy(jc.netID[:], c.bytesN(3))
	copy(jc.devAddr[:], c.bytesN(4))
	jc.dl = lorawan.DLSettings{OptNeg: c.rnd.Intn(2) == 0, RX2DataRate: uint8(c.rnd.Intn(16)), RX1DROffset: uint8(c.rnd.Intn(8))}
	if jc.kind != "join" && c.rnd.Intn(8) != 0 {
		jc.dl.OptNeg = true // rejoin is a LoRaWAN 1.1 procedure; OptNeg clear is DON'T-CARE and rarely generated
	}
	if c.rnd.Intn(3) != 0 {
		jc.nsKEK = c.bytesN(c.pick(16, 24, 32))
	}
	if c.rnd.Intn(3) != 0 {
		jc.asKEK = c.bytesN(c.pick(16, 24, 32))
		jc.asLabel = fmt.Sprintf("as-%d", i)
	}
	if c.rnd.Intn(10) == 0 {
		jc.fault = c.pickS("devkeys", "nskek", "aslabel", "askek")
		if jc.fault == "askek" && jc.asKEK == nil {
			jc.fault = ""
		}
	}
	c.rebuildJoinBody(jc)
	return jc
}

// rebuildJoinBody (re)creates the request frame and JSON body from the fields of the case
func (c *ctx) rebuildJoinBody(jc *joinCase) {
	// the uplink frame
	var phy lorawan.PHYPayload
	var key lorawan.AES128Key
	switch jc.kind {
	case "join":
		phy = lorawan.PHYPayload{MHDR: lorawan.MHDR{MType: lorawan.JoinRequest}, MACPayload: &lorawan.JoinRequestPayload{JoinEUI: jc.joinEUI, DevEUI: jc.devEUI, DevNonce: lorawan.DevNonce(jc.devNonce)}}
		key = jc.nwk
	case "rejoin0", "rejoin2":
		t := lorawan.JoinType(0)
		if jc.kind == "rejoin2" {
			t = 2
		}
		phy = lorawan.PHYPayload{MHDR: lorawan.MHDR{MType: lorawan.RejoinRequest}, MACPayload: &lorawan.RejoinRequestType02Payload{RejoinType: t, NetID: jc.netID, DevEUI: jc.devEUI, RJCount0: uint16(jc.devNonce)}}
		key = c.key() // SNwkSIntKey of the running session: not known to the join-server
	default:
		phy = lorawan.PHYPayload{MHDR: lorawan.MHDR{MType: lorawan.RejoinRequest}, MACPayload: &lorawan.RejoinRequestType1Payload{RejoinType: 1, JoinEUI: jc.joinEUI, DevEUI: jc.devEUI, RJCount1: uint16(jc.devNonce)}}
		key = c.key()
	}
	phy.SetUplinkJoinMIC(key)
	if !jc.micok {
		phy.MIC[c.rnd.Intn(4)] ^= 1 << uint(c.rnd.Intn(8))
	}
	pb, _ := phy.MarshalBinary()
	jc.reqSender = hex.EncodeToString(jc.netID[:])
	switch c.rnd.Intn(6) { // the SenderID (a NetID as text) is the key the KEK is stored under, exactly as sent: other spellings of the same NetID
	case 0, 1:
		jc.reqSender = strings.ToUpper(jc.reqSender)
	case 2:
		jc.reqSender = "0x" + jc.reqSender
	}
	jc.reqReceiver = hex.EncodeToString(jc.joinEUI[:])
	base := backend.BasePayload{ProtocolVersion: "1.0", SenderID: jc.reqSender, ReceiverID: jc.reqReceiver, TransactionID: jc.txid}
	if jc.kind == "join" {
		base.MessageType = backend.JoinReq
		jc.body, _ = json.Marshal(backend.JoinReqPayload{BasePayload: base, MACVersion: "1.1.0", PHYPayload: pb, DevEUI: jc.devEUI, DevAddr: jc.devAddr, DLSettings: jc.dl, RxDelay: jc.rxDelay, CFList: jc.cflist})
	} else {
		base.MessageType = backend.RejoinReq
		jc.body, _ = json.Marshal(backend.RejoinReqPayload{BasePayload: base, MACVersion: "1.1.0", PHYPayload: pb, DevEUI: jc.devEUI, DevAddr: jc.devAddr, DLSettings: jc.dl, RxDelay: jc.rxDelay, CFList: jc.cflist})
	}
}

func envVal(k *backend.KeyEnvelope) M {
	if k == nil {
		return M{"present": false, "label": false, "key": []int{}}
	}
	return M{"present": true, "label": k.KEKLabel != "", "key": bs(k.AESKey)}
}

func joinEvent(jc *joinCase, status int, body []byte, concurrent bool) M {
	jn := le32(uint32(jc.joinNonce))[:3]
	cf := []interface{}{}
	if jc.cflist != nil {
		cf = append(cf, bs(jc.cflist))
	}
	ev := M{"ev": "joinsrv", "kind": jc.kind, "known": jc.known, "micok": jc.micok, "concurrent": concurrent,
		"nwkkey": bs(jc.nwk[:]), "appkey": bs(jc.app[:]), "deveui": bs(jc.devEUI[:]), "joineui": bs(jc.joinEUI[:]), "netid": bs(jc.netID[:]),
		"devnonce": jc.devNonce, "jn3": jn, "devaddr": bs(jc.devAddr[:]),
		"dl": M{"optneg": jc.dl.OptNeg, "rx2dr": int(jc.dl.RX2DataRate), "rx1off": int(jc.dl.RX1DROffset)}, "rxdelay": jc.rxDelay, "cflist": cf,
		"nskek": bs(jc.nsKEK), "askek": bs(jc.asKEK), "txid": le32(jc.txid), "sender": bs([]byte(jc.reqSender)), "receiver": bs([]byte(jc.reqReceiver)), "http": status, "faults": jc.faults}
	// JoinAnsPayload and RejoinAnsPayload have the same JSON fields
	var ans backend.JoinAnsPayload
	if err := json.Unmarshal(body, &ans); err != nil {
		ev["answer"] = M{"parse": "error"}
		return ev
	}
	ev["answer"] = M{"parse": "", "code": string(ans.Result.ResultCode), "sender": bs([]byte(ans.SenderID)), "receiver": bs([]byte(ans.ReceiverID)), "txid": le32(ans.TransactionID),
		"msgtype": string(ans.MessageType), "phy": bs(ans.PHYPayload),
		"keys": M{"AppSKey": envVal(ans.AppSKey), "NwkSKey": envVal(ans.NwkSKey), "FNwkSIntKey": envVal(ans.FNwkSIntKey), "SNwkSIntKey": envVal(ans.SNwkSIntKey), "NwkSEncKey": envVal(ans.NwkSEncKey)}}
	return ev
}

var joinForceMix bool

func (c *ctx) joinBatch(n int, concurrent bool) error {
	cases := make([]*joinCase, n)
	keys := map[lorawan.EUI64]joinserver.DeviceKeys{}
	keks := map[string][]byte{}
	aslabels := map[lorawan.EUI64]string{}
	for i := range cases {
		jc := c.genJoinCase(i)
		cases[i] = jc
		if joinForceMix { // a batch of plain, valid join-requests that alternate between 1.0 and 1.1 devices
			jc.kind, jc.known, jc.micok, jc.fault = "join", true, true, ""
			jc.dl.OptNeg = i%2 == 0
			if jc.rxDelay < 0 || jc.rxDelay > 15 {
				jc.rxDelay = 1
			}
			c.rebuildJoinBody(jc)
		}
		if !concurrent && i > 0 && c.rnd.Intn(5) == 0 {
			// a device that was re-provisioned: the DevEUI of an earlier request of this batch, new root keys / nonce
			// (sequential batches only: the device table below is updated right before each request)
			jc.devEUI = cases[c.rnd.Intn(i)].devEUI
			c.rebuildJoinBody(jc)
		}
		if jc.known {
			keys[jc.devEUI] = joinserver.DeviceKeys{DevEUI: jc.devEUI, NwkKey: jc.nwk, AppKey: jc.app, JoinNonce: jc.joinNonce}
		}
		if jc.nsKEK != nil {
			keks[jc.reqSender] = jc.nsKEK // the NS KEK label is the NetID text; cases of one batch may share a NetID only by chance
		}
		if jc.asKEK != nil {
			keks[jc.asLabel] = jc.asKEK
			aslabels[jc.devEUI] = jc.asLabel
		}
	}
	// the key store hands out per-slot buffers that live as long as the process and are overwritten IN PLACE when a batch
	// brings other keys (a KEK rotation): what the join server made of a KEK earlier must not outlive the KEK's bytes
	{
		labels := make([]string, 0, len(keks))
		for l := range keks {
			labels = append(labels, l)
		}
		sort.Strings(labels)
		used := map[int]int{}
		for _, l := range labels {
			n := len(keks[l])
			if used[n] >= len(kekArena[n]) {
				kekArena[n] = append(kekArena[n], make([]byte, n))
			}
			buf := kekArena[n][used[n]]
			used[n]++
			copy(buf, keks[l])
			keks[l] = buf
		}
	}
	// injected storage faults (the callbacks fail with an error that is not ErrDevEUINotFound)
	devFault, labelFault, kekFault := map[lorawan.EUI64]bool{}, map[lorawan.EUI64]bool{}, map[string]bool{}
	for _, jc := range cases {
		switch jc.fault {
		case "devkeys":
			devFault[jc.devEUI] = true
		case "nskek":
			kekFault[jc.reqSender] = true
		case "aslabel":
			labelFault[jc.devEUI] = true
		case "askek":
			kekFault[jc.asLabel] = true
		}
	}
	// make the per-case expectation consistent with the shared KEK table
	for _, jc := range cases {
		if k, ok := keks[jc.reqSender]; ok {
			jc.nsKEK = k
		}
		jc.faults = M{"dev": devFault[jc.devEUI], "nskek": kekFault[jc.reqSender], "aslabel": labelFault[jc.devEUI], "askek": jc.asKEK != nil && kekFault[jc.asLabel]}
	}
	storage := fmt.Errorf("storage failure")
	// the handler's logger is configuration: none (the default), or one at any level - what is answered must not depend on it
	var logger *logrus.Logger
	if lv := c.rnd.Intn(4); lv > 0 {
		logger = logrus.New()
		logger.SetOutput(ioutil.Discard)
		logger.SetLevel([]logrus.Level{logrus.ErrorLevel, logrus.InfoLevel, logrus.DebugLevel, logrus.TraceLevel}[lv])
	}
	h, err := joinserver.NewHandler(joinserver.HandlerConfig{
		Logger: logger,
		GetDeviceKeysByDevEUIFunc: func(e lorawan.EUI64) (joinserver.DeviceKeys, error) {
			if devFault[e] {
				return joinserver.DeviceKeys{}, storage
			}
			if dk, ok := keys[e]; ok {
				return dk, nil
			}
			return joinserver.DeviceKeys{}, joinserver.ErrDevEUINotFound
		},
		GetKEKByLabelFunc: func(label string) ([]byte, error) {
			if kekFault[label] {
				return nil, storage
			}
			return keks[label], nil
		},
		GetASKEKLabelByDevEUIFunc: func(e lorawan.EUI64) (string, error) {
			if labelFault[e] {
				return "", storage
			}
			return aslabels[e], nil
		},
	})
	if err != nil {
		return err
	}
	type result struct {
		status int
		body   []byte
	}
	results := make([]result, n)
	run := func(i int) {
		if !concurrent { // the device table as it stands when this request arrives
			jc := cases[i]
			if jc.known {
				keys[jc.devEUI] = joinserver.DeviceKeys{DevEUI: jc.devEUI, NwkKey: jc.nwk, AppKey: jc.app, JoinNonce: jc.joinNonce}
			} else {
				delete(keys, jc.devEUI)
			}
			devFault[jc.devEUI] = jc.fault == "devkeys"
			labelFault[jc.devEUI] = jc.fault == "aslabel"
			if jc.asKEK != nil {
				aslabels[jc.devEUI] = jc.asLabel
			} else {
				delete(aslabels, jc.devEUI)
			}
			jc.faults = M{"dev": devFault[jc.devEUI], "nskek": kekFault[jc.reqSender], "aslabel": labelFault[jc.devEUI], "askek": jc.asKEK != nil && kekFault[jc.asLabel]}
		}
		rec := httptest.NewRecorder()
		req := httptest.NewRequest("POST", "/", bytes.NewReader(cases[i].body))
		if i%3 == 1 { // a body of unknown length (chunked transfer encoding): ContentLength -1
			req = httptest.NewRequest("POST", "/", struct{ io.Reader }{bytes.NewReader(cases[i].body)})
		}
		if res, _ := observeFast(func() error { h.ServeHTTP(rec, req); return nil }); res != "" {
			results[i] = result{0, []byte("handler did not return: " + res)} // no answer at all (net/http would drop the connection)
			return
		}
		results[i] = result{rec.Code, rec.Body.Bytes()}
	}
	extra := map[int][]result{} // concurrent mode: further, DIFFERENT answers to the same request (every answer is judged)
	if concurrent {
		// every request is served 48 times, all of them released together: requests that overlap in time must be
		// answered as if each came alone (the join-server keeps no state between them)
		var wg sync.WaitGroup
		var mu sync.Mutex
		start := make(chan struct{})
		for i := range cases {
			for r := 0; r < 48; r++ {
				wg.Add(1)
				go func(i, r int) {
					defer wg.Done()
					<-start
					rec := httptest.NewRecorder()
					res := result{0, []byte("handler did not return")}
					if pr, _ := observeFast(func() error {
						h.ServeHTTP(rec, httptest.NewRequest("POST", "/", bytes.NewReader(cases[i].body)))
						return nil
					}); pr == "" {
						res = result{rec.Code, rec.Body.Bytes()}
					}
					mu.Lock()
					defer mu.Unlock()
					if results[i].body == nil {
						results[i] = res
						return
					}
					if res.status != results[i].status || !bytes.Equal(res.body, results[i].body) {
						for _, x := range extra[i] {
							if x.status == res.status && bytes.Equal(x.body, res.body) {
								return
							}
						}
						extra[i] = append(extra[i], res)
					}
				}(i, r)
			}
		}
		close(start)
		wg.Wait()
	} else {
		for i := range cases {
			run(i)
		}
	}
	for i, jc := range cases {
		c.emit(joinEvent(jc, results[i].status, results[i].body, concurrent))
		for _, x := range extra[i] {
			c.emit(joinEvent(jc, x.status, x.body, concurrent))
		}
	}
	return nil
}

// HomeNSReq flow and malformed requests through the same handler
func (c *ctx) joinMisc(n int) error {
	known := map[lorawan.EUI64]lorawan.NetID{}
	h, err := joinserver.NewHandler(joinserver.HandlerConfig{
		GetDeviceKeysByDevEUIFunc: func(e lorawan.EUI64) (joinserver.DeviceKeys, error) {
			return joinserver.DeviceKeys{}, joinserver.ErrDevEUINotFound
		},
		GetHomeNetIDByDevEUIFunc: func(e lorawan.EUI64) (lorawan.NetID, error) {
			if n, ok := known[e]; ok {
				return n, nil
			}
			return lorawan.NetID{}, joinserver.ErrDevEUINotFound
		},
	})
	if err != nil {
		return err
	}
	serve := func(body []byte) (int, []byte, string) {
		rec := httptest.NewRecorder()
		res, _ := observe(func() error { h.ServeHTTP(rec, httptest.NewRequest("POST", "/", bytes.NewReader(body))); return nil })
		return rec.Code, rec.Body.Bytes(), res
	}
	for i := 0; i < n; i++ {
		var dev lorawan.EUI64
		copy(dev[:], c.bytesN(8))
		var nid lorawan.NetID
		copy(nid[:], c.bytesN(3))
		isKnown := c.rnd.Intn(3) != 0
		if isKnown {
			known[dev] = nid
		}
		txid := c.rnd.Uint32()
		sender, receiver := hex.EncodeToString(c.bytesN(3)), hex.EncodeToString(c.bytesN(8))
		body, _ := json.Marshal(backend.HomeNSReqPayload{BasePayload: backend.BasePayload{ProtocolVersion: "1.0", SenderID: sender, ReceiverID: receiver, TransactionID: txid, MessageType: backend.HomeNSReq}, DevEUI: dev})
		status, out, res := serve(body)
		var ans backend.HomeNSAnsPayload
		perr := ""
		if err := json.Unmarshal(out, &ans); err != nil {
			perr = "error"
		}
		c.emit(M{"ev": "homens", "known": isKnown, "netid": bs(nid[:]), "txid": le32(txid), "sender": bs([]byte(sender)), "receiver": bs([]byte(receiver)), "http": status, "panic": res,
			"answer": M{"parse": perr, "code": string(ans.Result.ResultCode), "sender": bs([]byte(ans.SenderID)), "receiver": bs([]byte(ans.ReceiverID)), "txid": le32(ans.TransactionID), "msgtype": string(ans.MessageType), "hnetid": bs(ans.HNetID[:])}})
		// a malformed variant of a request
		var bad []byte
		what := ""
		switch c.rnd.Intn(6) {
		case 0:
			bad, what = body[:c.rnd.Intn(len(body))], "truncated"
		case 1:
			bad, what = []byte(`{"MessageType":"Nope","TransactionID":1}`), "unknown-message-type"
		case 2:
			bad, what = []byte(`{"MessageType":"JoinReq","PHYPayload":"zz"}`), "bad-hex"
		case 3:
			bad, what = []byte(`{"MessageType":"JoinReq","DevEUI":"0102"}`), "short-eui"
		case 4:
			bad, what = c.bytesN(c.rnd.Intn(64)), "random-bytes"
		default:
			bad, what = []byte(`{"MessageType":"RejoinReq","DevEUI":"0102030405060708","PHYPayload":"c0","SenderID":"010203","ReceiverID":"0102030405060708"}`), "short-phypayload"
		}
		status, out, res = serve(bad)
		var r backend.JoinAnsPayload
		json.Unmarshal(out, &r)
		code := string(r.Result.ResultCode)
		if code == "" {
			var rr backend.Result
			json.Unmarshal(out, &rr)
			code = string(rr.ResultCode)
		}
		c.emit(M{"ev": "joinbad", "what": what, "http": status, "panic": res, "code": code})
	}
	return nil
}

func drvJoin(c *ctx) error {
	switch c.mode {
	case "misc":
		return c.joinMisc(c.n)
	case "requests":
		done := 0
		for done < c.n {
			b := c.pick(1, 8, 16, 64)
			if done+b > c.n {
				b = c.n - done
			}
			if err := c.joinBatch(b, c.rnd.Intn(2) == 0 && b > 1); err != nil {
				return err
			}
			done += b
		}
		// one concurrent batch in which LoRaWAN 1.0 and 1.1 devices join at the same time, whatever the draws above were
		joinForceMix = true
		defer func() { joinForceMix = false }()
		if err := c.joinBatch(8, true); err != nil {
			return err
		}
	default:
		return fmt.Errorf("join: unknown mode %q", c.mode)
	}
	return nil
}
