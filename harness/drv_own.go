package main

// Driver family `own` (C10): buffer ownership / aliasing, re-use of decoded values, independence of
// band instances.  Tracked buffers are backing arrays observed over their FULL capacity.

import (
	"encoding/json"
	"fmt"
	"reflect"
	"strconv"
	"strings"

	"github.com/brocaar/lorawan"
	"github.com/brocaar/lorawan/band"
)

func init() { families["own"] = drvOwn }

type ownState struct {
	bufs [][]byte              // backing arrays
	vals []*lorawan.PHYPayload // tracked frames
}

func (s *ownState) obs() (interface{}, interface{}) {
	bl := []interface{}{}
	for _, b := range s.bufs {
		bl = append(bl, bs(b))
	}
	vl := []interface{}{}
	for _, v := range s.vals {
		vl = append(vl, phyToVal(v))
	}
	return bl, vl
}

func (c *ctx) validFrameBytes() []byte {
	for {
		var v M
		if c.rnd.Intn(4) == 0 {
			v = c.genJoinFrame(false)
		} else {
			v = c.genDataFrame(false)
			// raw content only: after decoding the frame holds raw FOpts / FRMPayload bytes
			if fo := anyList(v["fopts"]); len(fo) > 0 {
				v["fopts"] = c.genRawItem(1 + c.rnd.Intn(15))
			}
			if fp := anyList(v["fport"]); len(fp) == 1 {
				v["frm"] = c.genRawItem(c.rnd.Intn(40))
				if c.rnd.Intn(5) == 0 { // a port and nothing behind it: every optional part has its own boundary case
					v["frm"] = []interface{}{}
				}
				if num(fp[0]) == 0 {
					v["fopts"] = []interface{}{}
				}
			} else {
				v["frm"] = []interface{}{}
			}
		}
		b, err := valToPhy(v, false).MarshalBinary()
		if err == nil && len(b) >= 5 {
			return b
		}
	}
}

type span struct{ b, lo, hi int }

type ownRun struct {
	c      *ctx
	s      *ownState
	frames []span
}

func (r *ownRun) step(ev M) {
	bl, vl := r.s.obs()
	ev["ev"] = "own"
	ev["bufs"] = bl
	ev["vals"] = vl
	r.c.emit(ev)
}

// a valid frame somewhere inside a larger backing array (guard bytes before, spare capacity after)
func (r *ownRun) setBuf(fb []byte, pre, post int) int {
	back := r.c.bytesN(pre + len(fb) + post)
	copy(back[pre:], fb)
	r.s.bufs = append(r.s.bufs, back)
	bi := len(r.s.bufs) - 1
	r.frames = append(r.frames, span{bi, pre, pre + len(fb)})
	r.step(M{"op": "setbuf", "b": bi, "lo": pre, "hi": pre + len(fb)})
	return bi
}

func (r *ownRun) decode(f span, vi int) {
	p := &lorawan.PHYPayload{}
	res, _ := observeFast(func() error { return p.UnmarshalBinary(r.s.bufs[f.b][f.lo:f.hi]) })
	if vi < len(r.s.vals) {
		r.s.vals[vi] = p
	} else {
		vi = len(r.s.vals)
		r.s.vals = append(r.s.vals, p)
	}
	r.step(M{"op": "decode", "v": vi, "b": f.b, "lo": f.lo, "hi": f.hi, "err": res})
}

func (r *ownRun) overwrite(bi int, idx []int) {
	xs := []int{}
	for _, j := range idx {
		r.s.bufs[bi][j] ^= byte(1 + r.c.rnd.Intn(255))
		xs = append(xs, int(r.s.bufs[bi][j]))
	}
	r.step(M{"op": "overwrite", "b": bi, "idx": idx, "xs": xs})
}

func (r *ownRun) encode(vi int) {
	var out []byte
	res, _ := observeFast(func() error {
		var err error
		out, err = r.s.vals[vi].MarshalBinary()
		return err
	})
	if res == "" {
		r.s.bufs = append(r.s.bufs, out[:cap(out)])
	}
	r.step(M{"op": "encode", "v": vi, "err": res, "len": len(out)})
}

func (r *ownRun) encInPlace(bi, lo, hi int, fo bool) {
	c := r.c
	key := c.key()
	var da lorawan.DevAddr
	copy(da[:], c.bytesN(4))
	fcnt := c.edge32()
	up := c.rnd.Intn(2) == 0
	var out []byte
	res, _ := observeFast(func() error {
		var err error
		if fo {
			out, err = lorawan.EncryptFOpts(key, false, up, da, fcnt, r.s.bufs[bi][lo:hi])
		} else {
			out, err = lorawan.EncryptFRMPayload(key, up, da, fcnt, r.s.bufs[bi][lo:hi])
		}
		return err
	})
	r.step(M{"op": "encinplace", "fopts": fo, "b": bi, "lo": lo, "hi": hi, "key": bs(key[:]), "up": up, "devaddr": bs(da[:]), "fcnt": le32(fcnt), "err": res, "out": bs(out)})
}

var inspections = []string{"MarshalBinary", "MarshalText", "MarshalJSON", "ValidateUplinkDataMIC", "ValidateDownlinkDataMIC", "ValidateUplinkJoinMIC", "ValidateUplinkDataMICF", "ValidateDownlinkJoinMIC"}

func (r *ownRun) inspect(vi int, what string) {
	p := r.s.vals[vi]
	key := r.c.key()
	res, _ := observeFast(func() error {
		var err error
		switch what {
		case "MarshalBinary":
			_, err = p.MarshalBinary()
		case "MarshalText":
			_, err = p.MarshalText()
		case "MarshalJSON":
			_, err = json.Marshal(p)
		case "ValidateUplinkDataMIC":
			_, err = p.ValidateUplinkDataMIC(lorawan.LoRaWAN1_1, 5, 1, 2, key, key)
		case "ValidateDownlinkDataMIC":
			_, err = p.ValidateDownlinkDataMIC(lorawan.LoRaWAN1_1, 5, key)
		case "ValidateUplinkJoinMIC":
			_, err = p.ValidateUplinkJoinMIC(key)
		case "ValidateUplinkDataMICF":
			_, err = p.ValidateUplinkDataMICF(key)
		default:
			_, err = p.ValidateDownlinkJoinMIC(lorawan.JoinRequestType, lorawan.EUI64{1}, 7, key)
		}
		return err
	})
	r.step(M{"op": "inspect", "v": vi, "what": what, "err": res})
}

// seeded random sequences
func (c *ctx) ownSequence(nops int) {
	r := &ownRun{c: c, s: &ownState{}}
	c.emit(M{"ev": "reset"})
	r.setBuf(c.validFrameBytes(), c.rnd.Intn(4), 16+c.rnd.Intn(8))
	for i := 0; i < nops; i++ {
		switch c.rnd.Intn(7) {
		case 0:
			r.setBuf(c.validFrameBytes(), c.rnd.Intn(4), 16+c.rnd.Intn(8))
		case 1:
			vi := len(r.s.vals)
			if vi > 0 && c.rnd.Intn(3) == 0 {
				vi = c.rnd.Intn(vi)
			}
			r.decode(r.frames[c.rnd.Intn(len(r.frames))], vi)
		case 2:
			bi := c.rnd.Intn(len(r.s.bufs))
			idx := []int{}
			if c.rnd.Intn(3) == 0 { // wipe everything
				for j := range r.s.bufs[bi] {
					idx = append(idx, j)
				}
			} else {
				seen := map[int]bool{}
				for k := 0; k < 1+c.rnd.Intn(6); k++ {
					j := c.rnd.Intn(len(r.s.bufs[bi]))
					if !seen[j] {
						seen[j] = true
						idx = append(idx, j)
					}
				}
			}
			r.overwrite(bi, idx)
		case 3:
			if len(r.s.vals) > 0 {
				r.encode(c.rnd.Intn(len(r.s.vals)))
			}
		case 4:
			bi := c.rnd.Intn(len(r.s.bufs))
			n := len(r.s.bufs[bi])
			lo := c.rnd.Intn(n)
			hi := lo + c.rnd.Intn(n-lo+1)
			if c.rnd.Intn(2) == 0 && hi-lo > 15 {
				hi = lo + c.rnd.Intn(16)
			}
			r.encInPlace(bi, lo, hi, hi-lo <= 15 && c.rnd.Intn(2) == 0)
		default:
			if len(r.s.vals) > 0 {
				r.inspect(c.rnd.Intn(len(r.s.vals)), inspections[c.rnd.Intn(len(inspections))])
			}
		}
	}
}

// a behaviour of the OwnershipModel: operations over position classes of one data frame
func (c *ctx) ownCase(ops []interface{}) {
	r := &ownRun{c: c, s: &ownState{}}
	c.emit(M{"ev": "reset"})
	mt := c.pick(2, 3, 4, 5)
	nfo, nfrm := 1+c.rnd.Intn(15), 18+c.rnd.Intn(20)
	v := M{"kind": "data", "mtype": mt, "major": 0, "mic": c.ints(4), "devaddr": c.ints(4), "fcnt": c.genFCnt(),
		"fctrl": M{"adr": true, "adrackreq": false, "ack": c.rnd.Intn(2) == 0, "b4": false},
		"fopts": c.genRawItem(nfo), "fport": []interface{}{1 + c.rnd.Intn(255)}, "frm": c.genRawItem(nfrm)}
	fb, err := valToPhy(v, false).MarshalBinary()
	if err != nil {
		return
	}
	pre := c.rnd.Intn(4)
	bi := r.setBuf(fb, pre, 24+c.rnd.Intn(8))
	f := r.frames[0]
	region := func(cls string) (int, int) {
		switch cls {
		case "mhdr":
			return f.lo, f.lo + 1
		case "devaddr":
			return f.lo + 1, f.lo + 5
		case "fopts":
			return f.lo + 8, f.lo + 8 + nfo
		case "fport":
			return f.lo + 8 + nfo, f.lo + 9 + nfo
		case "frm":
			return f.lo + 9 + nfo, f.hi - 4
		case "mic":
			return f.hi - 4, f.hi
		default: // spare capacity behind the frame
			return f.hi, len(r.s.bufs[bi])
		}
	}
	for _, o := range ops {
		op := o.(M)
		switch op["op"] {
		case "decode":
			r.decode(f, len(r.s.vals))
		case "overwrite":
			lo, hi := region(op["cls"].(string))
			r.overwrite(bi, []int{lo + c.rnd.Intn(hi-lo)})
		case "encode":
			r.encode(len(r.s.vals) - 1)
		case "encinplace":
			n := num(op["len"])
			if op["spare"].(bool) {
				lo, _ := region("frm")
				r.encInPlace(bi, lo, lo+n, false)
			} else { // a slice without spare capacity: its own exactly sized backing array
				r.s.bufs = append(r.s.bufs, c.bytesN(n))
				r.step(M{"op": "setbuf", "b": len(r.s.bufs) - 1, "lo": 0, "hi": n})
				r.encInPlace(len(r.s.bufs)-1, 0, n, false)
			}
		case "inspect":
			r.inspect(len(r.s.vals)-1, inspections[c.rnd.Intn(len(inspections))])
		}
	}
}

// reuse: decoding into a value that was used before must equal decoding into a fresh one
func reuseEvent(typ string, mk func() interface{}, un func(p interface{}, b []byte) error, proj func(p interface{}) interface{}, b1, b2 []byte) M {
	ev := M{"ev": "reuse", "type": typ, "b1": bs(b1), "b2": bs(b2)}
	if strings.HasPrefix(typ, "al/") {
		ev["al"] = true
	}
	used, fresh := mk(), mk()
	exact := func(b []byte) []byte { c := make([]byte, len(b)); copy(c, b); return c } // len == cap: reading behind the end panics
	r1, _ := observeFast(func() error { return un(used, exact(b1)) })
	// what a caller keeps after the first decode: a copy of the VALUE (slices inside it still point to what the decoder built)
	kept := reflect.New(reflect.TypeOf(used).Elem())
	kept.Elem().Set(reflect.ValueOf(used).Elem())
	ev["kept1"] = proj(kept.Interface())
	r2, _ := observeFast(func() error { return un(used, exact(b2)) })
	ev["kept2"] = proj(kept.Interface()) // ... must still read the same after the variable was decoded into again
	r3, _ := observeFast(func() error { return un(fresh, exact(b2)) })
	ev["err1"], ev["err2"], ev["errfresh"] = r1, r2, r3
	ev["used"] = proj(used)
	ev["fresh"] = proj(fresh)
	return ev
}

func (c *ctx) reuseEvents() {
	// the 29 MAC payloads
	for _, k := range cmdKeys {
		kk := k
		n := cmdTab[k].size
		c.emit(reuseEvent("mac/"+k, func() interface{} { return cmdTab[kk].mk() },
			func(p interface{}, b []byte) error { return p.(lorawan.MACCommandPayload).UnmarshalBinary(b) },
			func(p interface{}) interface{} { return payloadToVal(kk, p.(lorawan.MACCommandPayload)) }, c.bytesN(n), c.bytesN(n)))
	}
	// CFList both kinds, whole frames
	for _, t := range []byte{0, 1} {
		b1, b2 := c.bytesN(16), c.bytesN(16)
		b1[15], b2[15] = t, t
		if t == 1 {
			b1[12], b1[13], b1[14], b2[12], b2[13], b2[14] = 0, 0, 0, 0, 0, 0
			if c.rnd.Intn(2) == 0 {
				for i := 4; i < 12; i++ {
					b2[i] = 0
				}
			}
		}
		c.emit(reuseEvent(fmt.Sprintf("cflist/%d", t), func() interface{} { return &lorawan.CFList{} },
			func(p interface{}, b []byte) error { return p.(*lorawan.CFList).UnmarshalBinary(b) },
			func(p interface{}) interface{} { return cflistToVal(p.(*lorawan.CFList)) }, b1, b2))
	}
	for _, up := range []bool{true, false} {
		upp := up
		c.emit(reuseEvent(fmt.Sprintf("datapayload/%v", up), func() interface{} { return &lorawan.DataPayload{} },
			func(p interface{}, b []byte) error { return p.(*lorawan.DataPayload).UnmarshalBinary(upp, b) },
			func(p interface{}) interface{} { return bs(p.(*lorawan.DataPayload).Bytes) }, c.bytesN(1+c.rnd.Intn(40)), c.bytesN(c.rnd.Intn(30))))
	}
	for _, ev := range backendReuseEvents(c) {
		c.emit(ev)
	}
	// the exported PART decoders on a long-lived value: a full part first, then one without the optional members
	for _, up := range []bool{true, false} {
		upp := up
		mt := lorawan.UnconfirmedDataDown
		if up {
			mt = lorawan.UnconfirmedDataUp
		}
		wrap := func(mp *lorawan.MACPayload) interface{} {
			return phyToVal(&lorawan.PHYPayload{MHDR: lorawan.MHDR{MType: mt}, MACPayload: mp})
		}
		hdr := func(fopts []byte) []byte {
			return append(append(c.bytesN(4), byte(len(fopts)), byte(c.rnd.Intn(256)), byte(c.rnd.Intn(256))), fopts...)
		}
		fo := []byte{0x02} // LinkCheckReq (up) / LinkCheckAns needs payload (down): use DevStatusReq 0x06 for down
		if !up {
			fo = []byte{0x06}
		}
		full := append(append(hdr(fo), byte(1+c.rnd.Intn(200))), c.bytesN(1+c.rnd.Intn(8))...)
		c.emit(reuseEvent(fmt.Sprintf("part/MACPayload/%v", up), func() interface{} { return &lorawan.MACPayload{} },
			func(p interface{}, b []byte) error { return p.(*lorawan.MACPayload).UnmarshalBinary(upp, b) },
			func(p interface{}) interface{} { return wrap(p.(*lorawan.MACPayload)) }, full, hdr(nil)))
		// ... and a full part after a full part (another port, other bytes): what was kept of the first keeps its port
		full2 := append(append(hdr(fo), byte(201+c.rnd.Intn(50))), c.bytesN(1+c.rnd.Intn(8))...)
		c.emit(reuseEvent(fmt.Sprintf("part/MACPayload2/%v", up), func() interface{} { return &lorawan.MACPayload{} },
			func(p interface{}, b []byte) error { return p.(*lorawan.MACPayload).UnmarshalBinary(upp, b) },
			func(p interface{}) interface{} { return wrap(p.(*lorawan.MACPayload)) }, full, full2))
		c.emit(reuseEvent(fmt.Sprintf("part/FHDR/%v", up), func() interface{} { return &lorawan.FHDR{} },
			func(p interface{}, b []byte) error { return p.(*lorawan.FHDR).UnmarshalBinary(upp, b) },
			func(p interface{}) interface{} { return wrap(&lorawan.MACPayload{FHDR: *p.(*lorawan.FHDR)}) }, hdr(fo), hdr(nil)))
		withPl, bare := []byte{0x03, 0x07}, []byte{0x02} // LinkADRAns then LinkCheckReq (up)
		if !up {
			withPl, bare = []byte{0x02, 0x0a, 0x03}, []byte{0x06} // LinkCheckAns then DevStatusReq (down)
		}
		dir := map[bool]string{true: "up", false: "down"}[up]
		c.emit(reuseEvent(fmt.Sprintf("part/MACCommand/%v", up), func() interface{} { return &lorawan.MACCommand{} },
			func(p interface{}, b []byte) error { return p.(*lorawan.MACCommand).UnmarshalBinary(upp, b) },
			func(p interface{}) interface{} { return itemToVal(dir, p.(*lorawan.MACCommand)) }, withPl, bare))
	}
	{
		ja28 := c.bytesN(28)
		ja28[11] &= 0x0f
		ja28[27] = 0
		ja12 := c.bytesN(12)
		ja12[11] &= 0x0f
		c.emit(reuseEvent("part/JoinAcceptPayload", func() interface{} { return &lorawan.JoinAcceptPayload{} },
			func(p interface{}, b []byte) error { return p.(*lorawan.JoinAcceptPayload).UnmarshalBinary(false, b) },
			func(p interface{}) interface{} { out := M{}; jaToVal(out, p.(*lorawan.JoinAcceptPayload)); return out }, ja28, ja12))
		c.emit(reuseEvent("part/CFListChannelPayload", func() interface{} { return &lorawan.CFListChannelPayload{} },
			func(p interface{}, b []byte) error {
				return p.(*lorawan.CFListChannelPayload).UnmarshalBinary(false, b)
			},
			func(p interface{}) interface{} {
				ch := p.(*lorawan.CFListChannelPayload).Channels
				out := []interface{}{}
				for _, f := range ch {
					out = append(out, freqVal(f))
				}
				return out
			}, c.bytesN(15), c.bytesN(3*c.rnd.Intn(5))))
	}
	// the channel-mask CFList part decoder on a long-lived value: masks first, then input that sets no channel at all
	{
		b2 := make([]byte, c.rnd.Intn(16))
		if c.rnd.Intn(3) == 0 {
			c.rnd.Read(b2)
		}
		c.emit(reuseEvent("part/CFListChannelMaskPayload", func() interface{} { return &lorawan.CFListChannelMaskPayload{} },
			func(p interface{}, b []byte) error {
				return p.(*lorawan.CFListChannelMaskPayload).UnmarshalBinary(false, b)
			},
			func(p interface{}) interface{} {
				return cflistToVal(&lorawan.CFList{CFListType: lorawan.CFListChannelMask, Payload: p.(*lorawan.CFListChannelMaskPayload)})
			}, c.bytesN(2*(1+c.rnd.Intn(6))), b2))
	}
	// whole frames; the first one sometimes with reserved MHDR bits set (a sender of a later revision); the value is observed
	// through its exported fields AND through what it encodes to (unexported members count too)
	fb1, fb2 := c.validFrameBytes(), c.validFrameBytes()
	if len(fb1) > 0 && c.rnd.Intn(2) == 0 {
		fb1[0] |= byte(1+c.rnd.Intn(7)) << 2
	}
	c.emit(reuseEvent("phy", func() interface{} { return &lorawan.PHYPayload{} },
		func(p interface{}, b []byte) error { return p.(*lorawan.PHYPayload).UnmarshalBinary(b) },
		func(p interface{}) interface{} {
			out := M{"val": phyToVal(p.(*lorawan.PHYPayload))}
			var re []byte
			res, _ := observeFast(func() error {
				var err error
				re, err = p.(*lorawan.PHYPayload).MarshalBinary()
				return err
			})
			out["rerr"], out["re"] = res, bs(re)
			return out
		}, fb1, fb2))
	// application-layer payloads and command sequences
	for _, pn := range alPkgNames {
		pk := alPkgs[pn]
		for _, up := range []bool{true, false} {
			for _, cid := range pk.cids[up] {
				gen := func() []byte {
					b, err := pk.marshal([]alCmd{{cid, func() alPayload { p := pk.newPayload(up, cid); alFromVal(p, c.genALVal(p)); return p }()}})
					if err != nil || len(b) < 1 {
						return []byte{}
					}
					return b[1:]
				}
				upp, cc := up, cid
				c.emit(reuseEvent(fmt.Sprintf("al/%s/%v/%d", pn, up, cid), func() interface{} { return pk.newPayload(upp, cc) },
					func(p interface{}, b []byte) error { return p.(alPayload).UnmarshalBinary(b) },
					func(p interface{}) interface{} {
						return M{"val": emptyAsList(alToVal(p.(alPayload))), "mar": marOf(p.(alPayload))}
					}, gen(), gen()))
				// ... and a second input that is cut short (the length an earlier decode left behind must not decide what is read)
				if t := gen(); len(t) > 1 {
					c.emit(reuseEvent(fmt.Sprintf("al/%s/%v/%d", pn, up, cid), func() interface{} { return pk.newPayload(upp, cc) },
						func(p interface{}, b []byte) error { return p.(alPayload).UnmarshalBinary(b) },
						func(p interface{}) interface{} {
							return M{"val": emptyAsList(alToVal(p.(alPayload))), "mar": marOf(p.(alPayload))}
						}, gen(), t[:1+c.rnd.Intn(len(t)-1)]))
				}
			}
			// ONE Command value decoded into twice: a command with a payload, then (where the direction has one) a command
			// without payload - the second result is the second command alone
			{
				var withPl, noPl []int
				for _, cid := range pk.cids[up] {
					if nilIface(pk.newPayload(up, cid)) {
						noPl = append(noPl, cid)
					} else {
						withPl = append(withPl, cid)
					}
				}
				for _, cid := range []int{0, 1, 2, 3, 4, 5, 6, 7, 8} { // payload-less commands are not all listed in cids
					if nilIface(pk.newPayload(up, cid)) {
						noPl = append(noPl, cid)
					}
				}
				one := func(cid int) []byte {
					p := pk.newPayload(up, cid)
					if nilIface(p) {
						return []byte{byte(cid)}
					}
					alFromVal(p, c.genALVal(p))
					b, err := pk.marshal([]alCmd{{cid, p}})
					if err != nil {
						return []byte{byte(cid)}
					}
					return b
				}
				if len(withPl) > 0 {
					b1 := one(withPl[c.rnd.Intn(len(withPl))])
					b2 := one(withPl[c.rnd.Intn(len(withPl))])
					if len(noPl) > 0 && c.rnd.Intn(2) == 0 {
						b2 = one(noPl[c.rnd.Intn(len(noPl))])
					}
					mk := alCommandMakers[pn]
					calls, flip := 0, false
					unCmd := func(p interface{}, b []byte) error {
						dir := upp2(up)
						if flip && calls == 0 {
							dir = !dir // the value was last used for the OTHER direction
						}
						calls++
						out := reflect.ValueOf(p).MethodByName("UnmarshalBinary").Call([]reflect.Value{reflect.ValueOf(dir), reflect.ValueOf(b)})
						if e, ok := out[0].Interface().(error); ok && e != nil {
							return e
						}
						return nil
					}
					projCmd := func(p interface{}) interface{} {
						v := reflect.ValueOf(p).Elem()
						pl := v.FieldByName("Payload")
						out := M{"cid": int(v.FieldByName("CID").Uint()), "haspl": !pl.IsNil()}
						if !pl.IsNil() {
							out["val"] = emptyAsList(alToVal(pl.Interface().(alPayload)))
						}
						return out
					}
					c.emit(reuseEvent(fmt.Sprintf("al/%s/%v/Command", pn, up), mk, unCmd, projCmd, b1, b2))
					// the same Command value used for the other direction first, then for this one with the SAME CID (request and
					// answer share it): the second result is that of a fresh value in this direction
					for _, cid := range withPl {
						if p := pk.newPayload(!up, cid); !nilIface(p) {
							alFromVal(p, c.genALVal(p))
							if bo, err := pk.marshal([]alCmd{{cid, p}}); err == nil {
								calls, flip = 0, true
								ev := reuseEvent(fmt.Sprintf("al/%s/%v/Command", pn, up), mk, unCmd, projCmd, bo, one(cid))
								delete(ev, "kept1") // the first decode was in the other direction: what was kept is not compared
								delete(ev, "kept2")
								c.emit(ev)
							}
						}
					}
				}
			}
			// Commands
			genS := func() []byte {
				var cmds []alCmd
				for k := 0; k < 1+c.rnd.Intn(3); k++ {
					cid := pk.cids[up][c.rnd.Intn(len(pk.cids[up]))]
					if pn == "fragmentation" && cid == 8 {
						continue
					}
					p := pk.newPayload(up, cid)
					alFromVal(p, c.genALVal(p))
					cmds = append(cmds, alCmd{cid, p})
				}
				b, _ := pk.marshal(cmds)
				return b
			}
			c.emit(reuseCommands(pk, up, genS(), genS()))
		}
	}
}

// reuseCommands: the package's Commands slice decoded twice into the same variable
func reuseCommands(pk *alPkg, up bool, b1, b2 []byte) M {
	ev := M{"ev": "reuse", "type": fmt.Sprintf("al/%s/%v/Commands", pk.name, up), "b1": bs(b1), "b2": bs(b2)}
	var used, fresh []alCmd
	r2, _ := observeFast(func() error {
		var err error
		used, err = pk.unmarshalTwice(up, append([]byte{}, b1...), append([]byte{}, b2...))
		return err
	})
	r3, _ := observeFast(func() error {
		var err error
		fresh, err = pk.unmarshal(up, append([]byte{}, b2...))
		return err
	})
	ev["err1"], ev["err2"], ev["errfresh"] = "", r2, r3
	pj := func(cs []alCmd) interface{} {
		out := []interface{}{}
		for _, cm := range cs {
			out = append(out, alCmdVal(cm))
		}
		return out
	}
	ev["used"] = pj(used)
	ev["fresh"] = pj(fresh)
	return ev
}

// subslice: a decoder given a sub-slice (with spare capacity) of a caller buffer must not write to the buffer
func subsliceEvent(typ string, b []byte, un func(in []byte) error) M {
	in, backing := withSpare(b)
	pre := bs(backing)
	res, _ := observeFast(func() error { return un(in) })
	return M{"ev": "subslice", "type": typ, "lo": 3, "hi": 3 + len(b), "err": res, "pre": pre, "post": bs(backing)}
}

func (c *ctx) subsliceEvents() {
	for _, k := range cmdKeys {
		kk := k
		dir, cid := splitKey(k)
		n := cmdTab[k].size
		c.emit(subsliceEvent("mac/"+k, c.bytesN(n), func(in []byte) error { return cmdTab[kk].mk().UnmarshalBinary(in) }))
		cb := append([]byte{byte(cid)}, c.bytesN(n)...)
		c.emit(subsliceEvent("maccommand/"+k, cb, func(in []byte) error { var m lorawan.MACCommand; return m.UnmarshalBinary(dir == "up", in) }))
	}
	cf := c.bytesN(16)
	cf[15] = byte(c.rnd.Intn(2))
	c.emit(subsliceEvent("cflist", cf, func(in []byte) error { var x lorawan.CFList; return x.UnmarshalBinary(in) }))
	fb := c.validFrameBytes()
	c.emit(subsliceEvent("phy", fb, func(in []byte) error { var x lorawan.PHYPayload; return x.UnmarshalBinary(in) }))
	c.emit(subsliceEvent("phy+decode", fb, func(in []byte) error {
		var x lorawan.PHYPayload
		if err := x.UnmarshalBinary(in); err != nil {
			return err
		}
		x.DecodeFOptsToMACCommands()
		k := c.key()
		x.DecryptFRMPayload(k)
		x.DecryptJoinAcceptPayload(k)
		return nil
	}))
	for _, pn := range alPkgNames {
		pk := alPkgs[pn]
		for _, up := range []bool{true, false} {
			for _, cid := range pk.cids[up] {
				p := pk.newPayload(up, cid)
				alFromVal(p, c.genALVal(p))
				b, err := pk.marshal([]alCmd{{cid, p}})
				if err != nil || len(b) < 1 {
					continue
				}
				upp, cc := up, cid
				c.emit(subsliceEvent(fmt.Sprintf("al/%s/%v/%d", pn, up, cid), b[1:], func(in []byte) error { return pk.newPayload(upp, cc).UnmarshalBinary(in) }))
				c.emit(subsliceEvent(fmt.Sprintf("al/%s/%v/%d/Commands", pn, up, cid), b, func(in []byte) error { _, err := pk.unmarshal(upp, in); return err }))
			}
		}
	}
}

func bandIsoEvent(c *ctx, name band.Name) (M, error) {
	a, err := band.GetConfig(name, false, lorawan.DwellTimeNoLimit)
	if err != nil {
		return nil, err
	}
	b, _ := band.GetConfig(name, false, lorawan.DwellTimeNoLimit)
	before, chans, err := planProjection(b)
	if err != nil {
		return nil, err
	}
	for i := 0; i < 1+c.rnd.Intn(8); i++ {
		c.applyRandomOp(a, len(chans), chans, 40)
		_, chansA, _ := planProjection(a)
		chans = chansA
	}
	after, _, _ := planProjection(b)
	fresh, _ := band.GetConfig(name, false, lorawan.DwellTimeNoLimit)
	fp, _, _ := planProjection(fresh)
	ap, _, _ := planProjection(a)
	return M{"ev": "bandiso", "bname": b.Name(), "before": before, "after": after, "fresh": fp, "mutated": !reflect.DeepEqual(ap, before)}, nil
}

// twoDecodes: two DIFFERENT variables are decoded one after the other; what the first holds must not change when the
// second is decoded or modified (values returned by separate decode calls share nothing).  The frames carry a registered
// proprietary MAC command besides standard ones, so the registry's payload factory is covered too.
func (c *ctx) twoDecodeEvents() {
	for _, up := range []bool{true, false} {
		lorawan.RegisterProprietaryMACCommand(up, lorawan.CID(0xe0), 2)
	}
	for i := 0; i < 12; i++ {
		up := i%2 == 0
		mk := func() []byte {
			mt := lorawan.UnconfirmedDataDown
			if up {
				mt = lorawan.UnconfirmedDataUp
			}
			fp := uint8(1 + c.rnd.Intn(200))
			phy := lorawan.PHYPayload{MHDR: lorawan.MHDR{MType: mt, Major: lorawan.LoRaWANR1}, MACPayload: &lorawan.MACPayload{
				FHDR: lorawan.FHDR{DevAddr: lorawan.DevAddr{1, 2, 3, byte(c.rnd.Intn(256))}, FCnt: uint32(c.rnd.Intn(65536)), FOpts: []lorawan.Payload{
					&lorawan.MACCommand{CID: lorawan.CID(0xe0), Payload: &lorawan.ProprietaryMACCommandPayload{Bytes: c.bytesN(2)}},
					&lorawan.MACCommand{CID: lorawan.CID(0xe0), Payload: &lorawan.ProprietaryMACCommandPayload{Bytes: c.bytesN(2)}}}},
				FPort: &fp, FRMPayload: []lorawan.Payload{&lorawan.DataPayload{Bytes: c.bytesN(1 + c.rnd.Intn(12))}}}}
			b, _ := phy.MarshalBinary()
			return b
		}
		a, b := mk(), mk()
		ev := M{"ev": "twodecode", "a": bs(a), "b": bs(b), "up": up}
		var v1, v2 lorawan.PHYPayload
		r1, _ := observeFast(func() error {
			if err := v1.UnmarshalBinary(append([]byte{}, a...)); err != nil {
				return err
			}
			return v1.DecodeFOptsToMACCommands()
		})
		ev["err1"] = r1
		ev["first"] = phyToVal(&v1)
		r2, _ := observeFast(func() error {
			if err := v2.UnmarshalBinary(append([]byte{}, b...)); err != nil {
				return err
			}
			return v2.DecodeFOptsToMACCommands()
		})
		ev["err2"] = r2
		ev["first_after_second"] = phyToVal(&v1)
		// overwrite everything reachable from the second value
		observeFast(func() error {
			m2 := v2.MACPayload.(*lorawan.MACPayload)
			for _, o := range m2.FHDR.FOpts {
				if mc, ok := o.(*lorawan.MACCommand); ok {
					if pp, ok := mc.Payload.(*lorawan.ProprietaryMACCommandPayload); ok {
						for k := range pp.Bytes {
							pp.Bytes[k] ^= 0xff
						}
					}
				}
			}
			for _, o := range m2.FRMPayload {
				if dp, ok := o.(*lorawan.DataPayload); ok {
					for k := range dp.Bytes {
						dp.Bytes[k] ^= 0xff
					}
				}
			}
			return nil
		})
		ev["first_after_overwrite"] = phyToVal(&v1)
		c.emit(ev)
	}
}

// methodAlias: a frame is built around CALLER-OWNED payload buffers; the encrypting / MIC / marshal methods work on the
// frame but must not write into those buffers (a second frame built from the same buffer must see the same bytes).
func (c *ctx) methodAliasEvents() {
	for i := 0; i < 6; i++ {
		up := i%2 == 0
		mt := lorawan.UnconfirmedDataDown
		if up {
			mt = lorawan.UnconfirmedDataUp
		}
		pb, pback := withSpare(c.bytesN(1 + c.rnd.Intn(40)))
		fb, fback := withSpare(c.bytesN(1 + c.rnd.Intn(15)))
		before := string(pback) + "|" + string(fback)
		fp := uint8(1 + c.rnd.Intn(200))
		// the two item lists are the caller's too: windows of larger slot arrays (spare capacity behind them, other items
		// of the caller stored there); no operation may store anything into those arrays
		foSlots, frmSlots := make([]lorawan.Payload, 6), make([]lorawan.Payload, 6)
		for j := range foSlots {
			foSlots[j], frmSlots[j] = &lorawan.DataPayload{Bytes: []byte{byte(j)}}, &lorawan.DataPayload{Bytes: []byte{byte(0x80 + j)}}
		}
		foSlots[0], frmSlots[0] = &lorawan.DataPayload{Bytes: fb}, &lorawan.DataPayload{Bytes: pb}
		slotsBefore := append(append([]lorawan.Payload{}, foSlots...), frmSlots...)
		slotsIntact := func() bool {
			for j, x := range append(append([]lorawan.Payload{}, foSlots...), frmSlots...) {
				if x != slotsBefore[j] {
					return false
				}
			}
			return true
		}
		phy := lorawan.PHYPayload{MHDR: lorawan.MHDR{MType: mt, Major: lorawan.LoRaWANR1}, MACPayload: &lorawan.MACPayload{
			FHDR:  lorawan.FHDR{DevAddr: lorawan.DevAddr{1, 2, 3, 4}, FCnt: c.edge32(), FOpts: foSlots[:1]},
			FPort: &fp, FRMPayload: frmSlots[:1]}}
		k := c.key()
		ev := M{"ev": "methodalias", "up": up, "steps": []interface{}{}}
		steps := []interface{}{}
		do := func(name string, f func() error) {
			res, _ := observeFast(f)
			steps = append(steps, M{"name": name, "err": res, "intact": string(pback)+"|"+string(fback) == before && slotsIntact()})
		}
		do("MarshalBinary", func() error { _, err := phy.MarshalBinary(); return err })
		do("MarshalJSON", func() error { _, err := phy.MarshalJSON(); return err })
		do("ValidateMIC", func() error {
			if up {
				_, err := phy.ValidateUplinkDataMIC(lorawan.LoRaWAN1_1, 0, 1, 2, k, k)
				return err
			}
			_, err := phy.ValidateDownlinkDataMIC(lorawan.LoRaWAN1_1, 0, k)
			return err
		})
		do("EncryptFOpts", func() error { return phy.EncryptFOpts(k) })
		do("EncryptFRMPayload", func() error { return phy.EncryptFRMPayload(k) })
		do("SetMIC", func() error {
			if up {
				return phy.SetUplinkDataMIC(lorawan.LoRaWAN1_1, 0, 1, 2, k, k)
			}
			return phy.SetDownlinkDataMIC(lorawan.LoRaWAN1_1, 0, k)
		})
		do("MarshalBinary", func() error { _, err := phy.MarshalBinary(); return err })
		do("DecryptFRMPayload", func() error { return phy.DecryptFRMPayload(k) })
		do("DecryptFOpts", func() error { return phy.DecryptFOpts(k) })
		ev["steps"] = steps
		c.emit(ev)
	}
}

// joinAcceptAlias: an encrypted join-accept as a receiver holds it - the ciphertext is a sub-slice of a larger receive
// buffer - is decrypted; the bytes of the buffer outside that sub-slice must not change.
func (c *ctx) joinAcceptAliasEvents() {
	for _, n := range []int{12, 28} {
		ct, backing := withSpare(c.bytesN(n))
		before := string(backing)
		phy := lorawan.PHYPayload{MHDR: lorawan.MHDR{MType: lorawan.JoinAccept, Major: lorawan.LoRaWANR1}, MACPayload: &lorawan.DataPayload{Bytes: ct}}
		copy(phy.MIC[:], c.bytesN(4))
		res, _ := observeFast(func() error { return phy.DecryptJoinAcceptPayload(c.key()) })
		c.emit(M{"ev": "methodalias", "up": false, "steps": []interface{}{M{"name": "DecryptJoinAcceptPayload", "err": res, "intact": string(backing) == before}}})
	}
}

func upp2(b bool) bool { return b }

// marshalAlias: the output of an element-level MarshalBinary is overwritten; the value that was encoded must not change
func (c *ctx) marshalAliasEvents() {
	type enc interface{ MarshalBinary() ([]byte, error) }
	cases := []struct {
		name string
		mk   func() (enc, func() []int)
	}{
		{"DataPayload", func() (enc, func() []int) {
			v := &lorawan.DataPayload{Bytes: c.bytesN(1 + c.rnd.Intn(20))}
			return v, func() []int { return bs(v.Bytes) }
		}},
		{"ProprietaryMACCommandPayload", func() (enc, func() []int) {
			v := &lorawan.ProprietaryMACCommandPayload{Bytes: c.bytesN(1 + c.rnd.Intn(6))}
			return v, func() []int { return bs(v.Bytes) }
		}},
		{"MACCommand(proprietary)", func() (enc, func() []int) {
			pp := &lorawan.ProprietaryMACCommandPayload{Bytes: c.bytesN(1 + c.rnd.Intn(6))}
			return &lorawan.MACCommand{CID: 0xf0, Payload: pp}, func() []int { return bs(pp.Bytes) }
		}},
		{"MACPayload(raw FRMPayload)", func() (enc, func() []int) {
			dp := &lorawan.DataPayload{Bytes: c.bytesN(1 + c.rnd.Intn(20))}
			fp := uint8(7)
			return &lorawan.MACPayload{FPort: &fp, FRMPayload: []lorawan.Payload{dp}}, func() []int { return bs(dp.Bytes) }
		}},
	}
	for _, cs := range cases {
		v, read := cs.mk()
		before := read()
		var out []byte
		res, _ := observeFast(func() error {
			var err error
			out, err = v.MarshalBinary()
			return err
		})
		for i := range out {
			out[i] ^= 0xff
		}
		c.emit(M{"ev": "marshalalias", "type": cs.name, "err": res, "before": before, "after": read()})
	}
}

// inspectBuilt: frame values BUILT by a caller - including ones a decoder would never produce (a CFList whose type byte and
// payload kind disagree, a join-accept with reserved values, empty non-nil slices) - go through every operation that only
// inspects a frame; the value is projected before and after
func (c *ctx) inspectBuiltEvents() {
	var key lorawan.AES128Key
	copy(key[:], c.bytesN(16))
	var eui lorawan.EUI64
	for i := 0; i < 14; i++ {
		var v M
		if i%2 == 0 {
			v = c.genJoinFrame(i%4 == 0)
		} else {
			v = c.genDataFrame(false)
		}
		phy := valToPhy(v, false)
		if i >= 8 { // join-accepts with both payload kinds under every type byte, deterministically
			ja := &lorawan.JoinAcceptPayload{JoinNonce: lorawan.JoinNonce(c.rnd.Intn(1 << 24)), RXDelay: uint8(c.rnd.Intn(16)), CFList: &lorawan.CFList{CFListType: lorawan.CFListType([]int{0, 1, 2}[i%3])}}
			if i < 11 {
				ja.CFList.Payload = &lorawan.CFListChannelMaskPayload{ChannelMasks: []lorawan.ChMask{{true, false, true}, {}, {false, true}}}
			} else {
				ja.CFList.Payload = &lorawan.CFListChannelPayload{Channels: [5]uint32{868100000, 0, 868500000}}
			}
			phy = &lorawan.PHYPayload{MHDR: lorawan.MHDR{MType: lorawan.JoinAccept}, MACPayload: ja}
		}
		if ja, ok := phy.MACPayload.(*lorawan.JoinAcceptPayload); ok && i < 8 && ja.CFList != nil && c.rnd.Intn(2) == 0 {
			ja.CFList.CFListType = lorawan.CFListType(c.pick(0, 1, 2, 255)) // whatever the payload kind is
		}
		pre := phyToVal(phy)
		res, _ := observeFast(func() error {
			phy.MarshalBinary()
			phy.MarshalText()
			phy.MarshalJSON()
			phy.ValidateUplinkJoinMIC(key)
			phy.ValidateDownlinkJoinMIC(lorawan.JoinRequestType, eui, 1, key)
			phy.ValidateUplinkDataMIC(lorawan.LoRaWAN1_1, 0, 0, 0, key, key)
			phy.ValidateDownlinkDataMIC(lorawan.LoRaWAN1_0, 0, key)
			phy.ValidateUplinkDataMICF(key)
			return nil
		})
		c.emit(M{"ev": "inspectbuilt", "err": res, "pre": pre, "post": phyToVal(phy)})
	}
}

// failedDecode: a decode step that FAILS (truncated command in FOpts / in a port-0 payload) must leave the frame as it was:
// it still re-encodes to the bytes that were received
func (c *ctx) failedDecodeEvents() {
	for i := 0; i < 6; i++ {
		up := i%2 == 0
		mt := byte(lorawan.UnconfirmedDataDown)
		bad := []byte{0x02, 0x01} // LinkCheckAns (down) cut after one of its two payload bytes
		if up {
			mt = byte(lorawan.UnconfirmedDataUp)
			bad = []byte{0x06, 0xff} // DevStatusAns (up) cut after one of its two payload bytes
		}
		var frame []byte
		what := "DecodeFOptsToMACCommands"
		if i%3 == 0 {
			frame = append(append([]byte{mt << 5, 1, 2, 3, 4, byte(len(bad)), 9, 0}, bad...), 1, 2, 3, 4)
		} else {
			frame = append(append([]byte{mt << 5, 1, 2, 3, 4, 0, 9, 0, 0}, bad...), 1, 2, 3, 4)
			what = "DecodeFRMPayloadToMACCommands"
		}
		var phy lorawan.PHYPayload
		if err := phy.UnmarshalBinary(append([]byte{}, frame...)); err != nil {
			continue
		}
		before := phyToVal(&phy)
		res, _ := observeFast(func() error {
			switch what {
			case "DecodeFOptsToMACCommands":
				return phy.DecodeFOptsToMACCommands()
			default:
				return phy.DecodeFRMPayloadToMACCommands()
			}
		})
		var re []byte
		rres, _ := observeFast(func() error {
			var err error
			re, err = phy.MarshalBinary()
			return err
		})
		ev := M{"ev": "faileddecode", "what": what, "err": res, "before": before, "after": phyToVal(&phy), "rerr": rres, "re": bs(re), "frame": bs(frame)}
		c.emit(ev)
	}
}

// bandIso2: two objects of one band are mutated one after the other; the first must keep its state while the
// second changes, and the second must end exactly like an object that received the same operations alone.
func (c *ctx) genBandOps(chans []band.VerifChannel, extra bool) []M {
	var ops []M
	n := len(chans)
	for i := 0; i < 1+c.rnd.Intn(3); i++ {
		if extra && c.rnd.Intn(3) != 0 {
			f := c.bandFreq(chans)/100*100 + 100*uint32(1+c.rnd.Intn(50))
			ops = append(ops, M{"op": "add", "rawf": strconv.FormatUint(uint64(f), 10), "min": c.rnd.Intn(3), "max": 3 + c.rnd.Intn(3)})
			n++
		} else if c.rnd.Intn(2) == 0 {
			ops = append(ops, M{"op": "disable", "i": c.rnd.Intn(n)})
		} else {
			ops = append(ops, M{"op": "enable", "i": c.rnd.Intn(n)})
		}
	}
	return ops
}

func bandIso2Event(c *ctx, name band.Name) (M, error) {
	a, err := band.GetConfig(name, false, lorawan.DwellTimeNoLimit)
	if err != nil {
		return nil, err
	}
	b, _ := band.GetConfig(name, false, lorawan.DwellTimeNoLimit)
	p0, chans, err := planProjection(a)
	if err != nil {
		return nil, err
	}
	extra := p0["extra"].(bool)
	opsA, opsB := c.genBandOps(chans, extra), c.genBandOps(chans, extra)
	for _, op := range opsA {
		applyOpDesc(a, op)
	}
	aBefore, _, _ := planProjection(a)
	for _, op := range opsB {
		applyOpDesc(b, op)
	}
	aAfter, _, _ := planProjection(a)
	bp, _, _ := planProjection(b)
	solo, _ := band.GetConfig(name, false, lorawan.DwellTimeNoLimit)
	for _, op := range opsB {
		applyOpDesc(solo, op)
	}
	sp, _, _ := planProjection(solo)
	return M{"ev": "bandiso2", "bname": a.Name(), "abefore": aBefore, "aafter": aAfter, "b": bp, "solo": sp, "nops": len(opsA) + len(opsB)}, nil
}

func drvOwn(c *ctx) error {
	switch c.mode {
	case "sequences":
		for i := 0; i < c.n; i++ {
			c.ownSequence(6 + c.rnd.Intn(14))
		}
	case "cases": // behaviours of the OwnershipModel (seeded sample of n when n > 0)
		idx := c.rnd.Perm(len(c.cases))
		if c.n > 0 && c.n < len(idx) {
			idx = idx[:c.n]
		}
		for _, i := range idx {
			c.ownCase(anyList(c.cases[i]["ops"]))
		}
	case "reuse":
		for i := 0; i < c.n; i++ {
			c.reuseEvents()
			c.subsliceEvents()
		}
		c.methodAliasEvents()
		c.marshalAliasEvents()
		c.inspectBuiltEvents()
		c.failedDecodeEvents()
		c.joinAcceptAliasEvents()
		c.twoDecodeEvents() // last: it registers a proprietary MAC command in this process
	case "bands":
		for i := 0; i < c.n; i++ {
			ev, err := bandIsoEvent(c, bandNames[i%14])
			if err != nil {
				return err
			}
			c.emit(ev)
			for k := 0; k < 4; k++ {
				ev, err = bandIso2Event(c, bandNames[i%14])
				if err != nil {
					return err
				}
				c.emit(ev)
			}
		}
	default:
		return fmt.Errorf("own: unknown mode %q", c.mode)
	}
	return nil
}
