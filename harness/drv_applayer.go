package main

import (
	"fmt"
	"reflect"

	"github.com/brocaar/lorawan"
	"github.com/brocaar/lorawan/applayer/multicastsetup"
)

func init() { families["applayer"] = drvAppLayer }

// bit widths of the specification's fields (generator only: keeps values "within their specified
// bit widths"; the oracle has its own tables)
var alWidth = map[string]int{"TokenReq": 4, "TokenAns": 4, "Period": 4, "NbTransmissions": 3, "NbTotalGroups": 3, "McGroupID": 2, "TimeOut": 4, "Periodicity": 3,
	"FragIndex": 2, "BlockAckDelay": 3, "FragmentationMatrix": 3, "N": 14, "NbFragReceived": 14, "ErrorInvalidVersion": 1, "ErrorNoValidImage": 1, "UpImageStatus": 2}

func (c *ctx) genLeaf(name string, f reflect.Value) interface{} {
	switch f.Kind() {
	case reflect.Bool:
		return c.rnd.Intn(2) == 1
	case reflect.Uint8, reflect.Uint16:
		w := 8
		if f.Kind() == reflect.Uint16 {
			w = 16
		}
		if x, ok := alWidth[name]; ok {
			w = x
		}
		if name == "UpImageStatus" {
			return c.pick(0, 1, 2, 0, 1, 2, 3)
		}
		if c.rnd.Intn(4) == 0 {
			return c.pick(0, 1<<uint(w)-1)
		}
		return c.rnd.Intn(1 << uint(w))
	case reflect.Uint32:
		switch name {
		case "DLFrequency":
			return freqVal(uint32(c.rnd.Intn(1<<24)) * 100)
		case "Countdown":
			return le32(uint32(c.edgeN(1 << 24)))
		}
		if c.rnd.Intn(4) == 0 {
			return le32(uint32(c.pick(0, 1, 0x7fffffff)) + uint32(c.pick(0, 0x80000000)))
		}
		return le32(c.rnd.Uint32())
	case reflect.Int32:
		return le32(c.edge32())
	case reflect.Ptr:
		return []interface{}{le32(uint32(c.edgeN(1 << 24)))}
	case reflect.Array:
		if f.Type().Elem().Kind() == reflect.Bool {
			bits := make([]int, f.Len())
			for i := range bits {
				bits[i] = c.rnd.Intn(2)
			}
			return bits
		}
		return c.ints(f.Len())
	case reflect.Slice:
		if f.Type().Elem().Kind() == reflect.Uint8 {
			if c.rnd.Intn(12) == 0 { // as long as a frame allows, and around the one-byte length boundary
				return c.ints(c.pick(200, 240, 250, 251, 252, 253, 254, 255, 256, 300))
			}
			return c.ints(c.rnd.Intn(24))
		}
		return []interface{}{}
	}
	return nil
}

func (c *ctx) genFields(v reflect.Value, out M) {
	t := v.Type()
	for i := 0; i < v.NumField(); i++ {
		f := v.Field(i)
		if f.Kind() == reflect.Struct {
			c.genFields(f, out)
			continue
		}
		if !f.CanSet() { // unexported optional field (DevUpgradeImageAns.nextFirmwareVersion): cannot be set
			if f.Kind() == reflect.Ptr {
				out[t.Field(i).Name] = []interface{}{}
			}
			continue
		}
		out[t.Field(i).Name] = c.genLeaf(t.Field(i).Name, f)
	}
}

// genALVal: a well-formed, in-range value for the payload type p
func (c *ctx) genALVal(p alPayload) M {
	val := M{}
	if nilIface(p) {
		return val
	}
	c.genFields(reflect.ValueOf(p).Elem(), val)
	// dependent fields
	if mask, ok := val["AnsGroupMask"]; ok { // McGroupStatusAns: one item per answered group
		items := []interface{}{}
		for _, b := range mask.([]int) {
			if b == 1 {
				items = append(items, M{"McGroupID": c.rnd.Intn(4), "McAddr": c.ints(4)})
			}
		}
		val["Items"] = items
	}
	if _, ok := val["TimeToStart"]; ok { // McClassB/CSessionAns: TimeToStart only without error
		if val["McGroupUndefined"].(bool) || val["FreqError"].(bool) || val["DRError"].(bool) {
			val["TimeToStart"] = []interface{}{}
		}
	}
	return val
}

func emptyAsList(v M) interface{} {
	if len(v) == 0 {
		return []interface{}{}
	}
	return v
}

func alCmdVal(c alCmd) M {
	return M{"cid": c.cid, "haspl": !nilIface(c.p), "val": emptyAsList(alToVal(c.p))}
}

var lastALCmds = map[string][]alCmd{}

func alStreamEvent(pk *alPkg, up bool, items []M) M {
	dir := "down"
	if up {
		dir = "up"
	}
	ev := M{"ev": "alstream", "pkg": pk.name, "dir": dir, "cmds": items}
	var cmds []alCmd
	sizes := []int{}
	for _, it := range items {
		p := pk.newPayload(up, it["cid"].(int))
		if vm, ok := it["val"].(M); ok {
			alFromVal(p, vm)
		}
		cmds = append(cmds, alCmd{it["cid"].(int), p})
	}
	var b []byte
	res, _ := observeFast(func() error {
		for _, cm := range cmds {
			sizes = append(sizes, pk.cmdSize(cm))
		}
		var err error
		b, err = pk.marshal(cmds)
		return err
	})
	ev["err"] = res
	ev["sizes"] = sizes
	if res != "" {
		return ev
	}
	if curCtx != nil && curCtx.rnd.Intn(3) == 0 { // the same commands and another package's output are encoded again before b is read
		observeFast(func() error {
			pk.marshal(cmds[:len(cmds)/2])
			if prev, ok := lastALCmds[pk.name]; ok { // ... and a DIFFERENT sequence of the same package (the previous case's)
				pk.marshal(prev)
			}
			rev := make([]alCmd, len(cmds))
			for i := range cmds {
				rev[len(cmds)-1-i] = cmds[i]
			}
			pk.marshal(rev)
			disturb()
			return nil
		})
	}
	ev["bytes"] = bs(b)
	lastALCmds[pk.name] = cmds
	var back []alCmd
	in := append([]byte{}, b...)
	dres, _ := observeFast(func() error {
		var err error
		back, err = pk.unmarshal(up, in)
		return err
	})
	ev["derr"] = dres
	ev["intact"] = string(in) == string(b)
	for i := range in { // the caller re-uses its receive buffer: what was decoded must not change with it
		in[i] ^= 0xff
	}
	outs := []interface{}{}
	for _, cm := range back {
		outs = append(outs, alCmdVal(cm))
	}
	ev["back"] = outs
	keptField(ev, pk, up, b)
	return ev
}

// keptField: the sequence is decoded into a Commands variable, the caller KEEPS the result, then other (valid) bytes are
// decoded into the same variable; what the caller kept must still be the first sequence
var lastALBytes = map[string][]byte{}

func keptField(ev M, pk *alPkg, up bool, b []byte) {
	k := fmt.Sprintf("%s/%v", pk.name, up)
	other, ok := lastALBytes[k]
	lastALBytes[k] = append([]byte{}, b...)
	if !ok || curCtx == nil || curCtx.rnd.Intn(3) != 0 {
		return
	}
	var kept []alCmd
	res, _ := observeFast(func() error {
		var err error
		kept, err = pk.unmarshalKeep(up, append([]byte{}, b...), append([]byte{}, other...))
		return err
	})
	outs := []interface{}{}
	for _, cm := range kept {
		outs = append(outs, alCmdVal(cm))
	}
	ev["kerr"], ev["kept"] = res, outs
}

func alDecodeEvent(pk *alPkg, up bool, items []M, b []byte) M {
	dir := "down"
	if up {
		dir = "up"
	}
	ev := M{"ev": "aldec", "pkg": pk.name, "dir": dir, "cmds": items, "bytes": bs(b)}
	in := append([]byte{}, b...)
	var back []alCmd
	inflight("applayer/"+pk.name+"/"+dir+" Commands.UnmarshalBinary", b)
	res, _ := observeFast(func() error {
		var err error
		back, err = pk.unmarshal(up, in)
		return err
	})
	ev["derr"] = res
	ev["intact"] = string(in) == string(b)
	for i := range in { // the caller re-uses its receive buffer: what was decoded must not change with it
		in[i] ^= 0xff
	}
	outs := []interface{}{}
	for _, cm := range back {
		outs = append(outs, alCmdVal(cm))
	}
	ev["back"] = outs
	keptField(ev, pk, up, b)
	return ev
}

func (c *ctx) genALItem(pk *alPkg, up bool, cid int) M {
	p := pk.newPayload(up, cid)
	return M{"cid": cid, "haspl": !nilIface(p), "val": emptyAsList(c.genALVal(p))}
}

func mcKeyEvents(c *ctx) {
	key := c.key()
	var addr lorawan.DevAddr
	copy(addr[:], c.bytesN(4))
	emit := func(kind string, in lorawan.AES128Key, f func() (lorawan.AES128Key, error)) {
		ev := M{"ev": "mckey", "kind": kind, "in": bs(in[:]), "addr": bs(addr[:])}
		var out lorawan.AES128Key
		res, _ := observeFast(func() error {
			var err error
			out, err = f()
			return err
		})
		ev["err"] = res
		ev["out"] = bs(out[:])
		c.emit(ev)
	}
	emit("rootGenAppKey", key, func() (lorawan.AES128Key, error) { return multicastsetup.GetMcRootKeyForGenAppKey(key) })
	emit("rootAppKey", key, func() (lorawan.AES128Key, error) { return multicastsetup.GetMcRootKeyForAppKey(key) })
	emit("kek", key, func() (lorawan.AES128Key, error) { return multicastsetup.GetMcKEKey(key) })
	emit("appskey", key, func() (lorawan.AES128Key, error) { return multicastsetup.GetMcAppSKey(key, addr) })
	emit("netskey", key, func() (lorawan.AES128Key, error) { return multicastsetup.GetMcNetSKey(key, addr) })
}

func drvAppLayer(c *ctx) error {
	switch c.mode {
	case "commands": // single commands, every payload type, in-range values
		for i := 0; i < c.n; i++ {
			for _, pn := range alPkgNames {
				pk := alPkgs[pn]
				for _, up := range []bool{true, false} {
					for _, cid := range pk.cids[up] {
						c.emit(alStreamEvent(pk, up, []M{c.genALItem(pk, up, cid)}))
					}
				}
			}
		}
	case "cases": // (R) values enumerated by TLC
		for _, cs := range c.cases {
			pk := alPkgs[cs["pkg"].(string)]
			var items []M
			for _, it := range anyList(cs["cmds"]) {
				m := it.(M)
				items = append(items, M{"cid": num(m["cid"]), "haspl": m["haspl"].(bool), "val": m["val"]})
			}
			up := cs["dir"].(string) == "up"
			constructible := true
			for _, it := range items {
				if vm, ok := it["val"].(M); ok && pk.name == "firmwaremanagement" && up && it["cid"].(int) == 4 && num(vm["UpImageStatus"]) == 3 {
					constructible = false // nextFirmwareVersion is unexported: such a value exists only as decoded bytes
				}
			}
			if constructible {
				c.emit(alStreamEvent(pk, up, items))
			}
			if b, ok := cs["bytes"]; ok { // decode direction: the specification's bytes of the sequence
				c.emit(alDecodeEvent(pk, up, items, unbs(b)))
			}
		}
	case "streams": // sequences of 1..6 commands; a DataFragment (implicit length) only as last command
		for i := 0; i < c.n; i++ {
			pk := alPkgs[alPkgNames[c.rnd.Intn(4)]]
			up := c.rnd.Intn(2) == 0
			n := 1 + c.rnd.Intn(6)
			items := []M{}
			for k := 0; k < n; k++ {
				cid := pk.cids[up][c.rnd.Intn(len(pk.cids[up]))]
				if pk.name == "fragmentation" && cid == 8 && k != n-1 {
					continue
				}
				items = append(items, c.genALItem(pk, up, cid))
			}
			c.emit(alStreamEvent(pk, up, items))
		}
	case "mckeys":
		for i := 0; i < c.n; i++ {
			mcKeyEvents(c)
		}
	default:
		return fmt.Errorf("applayer: unknown mode %q", c.mode)
	}
	return nil
}
