package main

import (
	"fmt"
	"math"
	"sort"
	"time"

	"github.com/brocaar/lorawan"
	"github.com/brocaar/lorawan/band"
)

func init() { families["band"] = drvBand }

var bandNames = []band.Name{band.EU868, band.US915, band.CN779, band.EU433, band.AU915, band.CN470, band.AS923, band.AS923_2, band.AS923_3, band.AS923_4,
	band.KR920, band.IN865, band.RU864, band.ISM2400,
	band.AS_923, band.AU_915_928, band.CN_470_510, band.CN_779_787, band.EU_433, band.EU_863_870, band.IN_865_867, band.KR_920_923, band.US_902_928, band.RU_864_870}

var protoVersions = []string{band.LoRaWAN_1_0_0, band.LoRaWAN_1_0_1, band.LoRaWAN_1_0_2, band.LoRaWAN_1_0_3, band.LoRaWAN_1_0_4, band.LoRaWAN_1_1_0, "unknown-version", "latest"}
var rpRevisions = []string{band.RegParamRevA, band.RegParamRevB, band.RegParamRevC, band.RegParamRevRP002_1_0_0, band.RegParamRevRP002_1_0_1, band.RegParamRevRP002_1_0_2, band.RegParamRevRP002_1_0_3, "unknown-revision", "latest"}

// code: >= 0 result, -1 error, -2 panic
func codeInt(f func() (int, error)) int {
	var v int
	res, _ := observeFast(func() error {
		var err error
		v, err = f()
		return err
	})
	switch res {
	case "":
		if v < 0 {
			return -100 + v // a NEGATIVE RESULT (not an error): kept apart from the codes -1 (error) and -2 (panic)
		}
		return v
	case "error":
		return -1
	default:
		return -2
	}
}

func codeErr(f func() error) int {
	res, _ := observeFast(f)
	switch res {
	case "":
		return 0
	case "error":
		return -1
	default:
		return -2
	}
}

func drVal(i int, up, down bool, d band.DataRate) M {
	return M{"i": i, "up": up, "down": down, "mod": string(d.Modulation), "sf": d.SpreadFactor, "bw": d.Bandwidth, "br": d.BitRate, "cr": d.CodingRate, "ocw": d.OccupiedChannelWidth}
}

func chVal(c band.VerifChannel) M {
	return M{"f": freqVal(c.Channel.Frequency), "min": c.Channel.MinDR, "max": c.Channel.MaxDR, "en": c.Enabled, "cu": c.Custom}
}

func snapVal(b band.Band) (M, band.VerifSnapshotData, error) {
	s, ok := band.VerifSnapshot(b)
	if !ok {
		return nil, s, fmt.Errorf("band %s has no snapshot hook", b.Name())
	}
	sort.Slice(s.DataRates, func(i, j int) bool { return s.DataRates[i].Index < s.DataRates[j].Index })
	drs := []interface{}{}
	for _, d := range s.DataRates {
		drs = append(drs, drVal(d.Index, d.Uplink, d.Downlink, d.DataRate))
	}
	var keys []int
	for k := range s.RX1Table {
		keys = append(keys, k)
	}
	sort.Ints(keys)
	rows := []interface{}{}
	for _, k := range keys {
		rows = append(rows, append([]int{}, s.RX1Table[k]...))
	}
	ul, dl := []interface{}{}, []interface{}{}
	for _, c := range s.UplinkChannels {
		ul = append(ul, chVal(c))
	}
	for _, c := range s.DownlinkChannels {
		dl = append(dl, chVal(c))
	}
	sort.Slice(s.Sizes, func(i, j int) bool {
		a, b := s.Sizes[i], s.Sizes[j]
		if a.Version != b.Version {
			return a.Version < b.Version
		}
		if a.Revision != b.Revision {
			return a.Revision < b.Revision
		}
		return a.DR < b.DR
	})
	sizes := []interface{}{}
	for _, z := range s.Sizes {
		sizes = append(sizes, M{"ver": z.Version, "rev": z.Revision, "dr": z.DR, "m": z.Size.M, "n": z.Size.N})
	}
	if keys == nil {
		keys = []int{}
	}
	return M{"extra": s.SupportsExtraChannels, "cfmin": s.CFListMinDR, "cfmax": s.CFListMaxDR, "drs": drs, "rx1keys": keys, "rx1rows": rows,
		"ul": ul, "dl": dl, "txp": append([]int{}, s.TXPowerOffsets...), "sizes": sizes}, s, nil
}

func secs(d time.Duration) int { return int(d / time.Millisecond) }

func bandCfgEvent(name band.Name, rep bool, dwell int) (M, error) {
	ev := M{"ev": "bandcfg", "name": string(name), "repeater": rep, "dwell": dwell}
	var b band.Band
	// the other configurations of the same band are asked for first (and dropped): what one call of GetConfig built must
	// not be what a later call with other arguments hands out
	for _, r := range []bool{rep, !rep} {
		for dw := 0; dw < 2; dw++ {
			if r != rep || dw != dwell {
				rr, dd := r, dw
				observeFast(func() error { _, err := band.GetConfig(name, rr, lorawan.DwellTime(dd)); return err })
			}
		}
	}
	res, _ := observeFast(func() error {
		var err error
		b, err = band.GetConfig(name, rep, lorawan.DwellTime(dwell))
		return err
	})
	ev["cfgerr"] = res
	if res != "" {
		return ev, nil
	}
	// a band object that was already used for read-only work (a planner call for a device that still holds channels the
	// plan does not have, the CFList) answers every query below as a fresh one does
	observeFast(func() error {
		n := len(b.GetUplinkChannelIndices())
		b.GetLinkADRReqPayloadsForEnabledUplinkChannelIndices([]int{0, n, n + 3, n + 7})
		b.GetCFList("1.0.3")
		return nil
	})
	ev["bname"] = b.Name()
	snap, sd, err := snapVal(b)
	if err != nil {
		return nil, err
	}
	ev["snap"] = snap
	// sizes of the sibling configuration (repeater <-> non repeater) for the "repeater <= non-repeater" relation
	if sib, err := band.GetConfig(name, !rep, lorawan.DwellTime(dwell)); err == nil {
		if sv, _, err := snapVal(sib); err == nil {
			ev["sibsizes"] = sv["sizes"]
		}
	}
	rx1 := []interface{}{}
	for dr := -2; dr <= 16; dr++ {
		for off := -2; off <= 9; off++ {
			d, o := dr, off
			rx1 = append(rx1, []int{dr, off, codeInt(func() (int, error) { return b.GetRX1DataRateIndex(d, o) })})
		}
	}
	ev["rx1dr"] = rx1
	rx1ch, rx1fq := []interface{}{}, []interface{}{}
	for i, c := range sd.UplinkChannels {
		ii := i
		rx1ch = append(rx1ch, []int{i, codeInt(func() (int, error) { return b.GetRX1ChannelIndexForUplinkChannelIndex(ii) })})
		var f uint32
		code := codeErr(func() error {
			var err error
			f, err = b.GetRX1FrequencyForUplinkFrequency(c.Channel.Frequency)
			return err
		})
		rx1fq = append(rx1fq, M{"i": i, "code": code, "res": freqVal(f)})
	}
	ev["rx1ch"] = rx1ch
	ev["rx1fq"] = rx1fq
	ulch, dlch := []interface{}{}, []interface{}{}
	// indices that are valid ones modulo 2^32 / 2^16 (written 2^30 + low part in the event, see tlcIndex)
	for _, off := range []int{1 << 32, -(1 << 32), 1 << 16, -(1 << 16), 1 << 62} {
		for _, k := range []int{0, 1} {
			ii := k + off
			var ch band.Channel
			code := codeErr(func() error {
				var err error
				ch, err = b.GetUplinkChannel(ii)
				return err
			})
			ulch = append(ulch, M{"i": tlcIndex(ii), "code": code, "f": freqVal(ch.Frequency), "min": ch.MinDR, "max": ch.MaxDR})
			code = codeErr(func() error {
				var err error
				ch, err = b.GetDownlinkChannel(ii)
				return err
			})
			dlch = append(dlch, M{"i": tlcIndex(ii), "code": code, "f": freqVal(ch.Frequency), "min": ch.MinDR, "max": ch.MaxDR})
		}
	}
	for i := -2; i <= len(sd.UplinkChannels)+1; i++ {
		ii := i
		var ch band.Channel
		code := codeErr(func() error {
			var err error
			ch, err = b.GetUplinkChannel(ii)
			return err
		})
		ulch = append(ulch, M{"i": i, "code": code, "f": freqVal(ch.Frequency), "min": ch.MinDR, "max": ch.MaxDR})
	}
	for i := -2; i <= len(sd.DownlinkChannels)+1; i++ {
		ii := i
		var ch band.Channel
		code := codeErr(func() error {
			var err error
			ch, err = b.GetDownlinkChannel(ii)
			return err
		})
		dlch = append(dlch, M{"i": i, "code": code, "f": freqVal(ch.Frequency), "min": ch.MinDR, "max": ch.MaxDR})
	}
	ev["ulch"] = ulch
	ev["dlch"] = dlch
	df := b.GetDefaults()
	ev["defaults"] = M{"rx2f": freqVal(df.RX2Frequency), "rx2dr": df.RX2DataRate, "rd1": secs(df.ReceiveDelay1), "rd2": secs(df.ReceiveDelay2), "jd1": secs(df.JoinAcceptDelay1), "jd2": secs(df.JoinAcceptDelay2)}
	dridx, getdr := []interface{}{}, []interface{}{}
	for i := -2; i <= 17; i++ {
		ii := i
		var d band.DataRate
		code := codeErr(func() error {
			var err error
			d, err = b.GetDataRate(ii)
			return err
		})
		getdr = append(getdr, []int{i, code})
		if code == 0 {
			dd := d
			dridx = append(dridx, M{"i": i, "up": codeInt(func() (int, error) { return b.GetDataRateIndex(true, dd) }), "down": codeInt(func() (int, error) { return b.GetDataRateIndex(false, dd) }),
				"dr": drVal(i, false, false, d)})
		}
	}
	ev["getdr"] = getdr
	ev["dridx"] = dridx
	en := b.GetEnabledUplinkDataRates()
	if en == nil {
		en = []int{}
	}
	ev["endrs"] = en
	txp := []interface{}{}
	for i := -2; i <= 17; i++ {
		ii := i
		var v int
		code := codeErr(func() error {
			var err error
			v, err = b.GetTXPowerOffset(ii)
			return err
		})
		txp = append(txp, []int{i, code, v})
	}
	ev["txpow"] = txp
	maxpl := []interface{}{}
	for _, ver := range protoVersions {
		for _, rev := range rpRevisions {
			for dr := -1; dr <= 15; dr++ {
				var z band.MaxPayloadSize
				d := dr
				code := codeErr(func() error {
					var err error
					z, err = b.GetMaxPayloadSizeForDataRateIndex(ver, rev, d)
					return err
				})
				maxpl = append(maxpl, M{"ver": ver, "rev": rev, "dr": dr, "code": code, "m": z.M, "n": z.N})
			}
		}
	}
	ev["maxpl"] = maxpl
	return ev, nil
}

func drvBand(c *ctx) error {
	switch c.mode {
	case "tables":
		for _, name := range bandNames {
			for _, rep := range []bool{false, true} {
				for _, dw := range []int{0, 1} {
					ev, err := bandCfgEvent(name, rep, dw)
					if err != nil {
						return err
					}
					c.emit(ev)
				}
			}
		}
		// an undefined name must be an error
		ev, _ := bandCfgEvent(band.Name("XX999"), false, 0)
		c.emit(ev)
	case "misc": // extended coverage: max EIRP, TXParamSetup support, downlink TX power
		for _, name := range bandNames {
			b, err := band.GetConfig(name, false, lorawan.DwellTimeNoLimit)
			if err != nil {
				return err
			}
			txp := M{}
			for _, v := range []string{"1.0.0", "1.0.1", "1.0.2", "1.0.3", "1.0.4", "1.1.0", "unknown"} {
				txp[v] = b.ImplementsTXParamSetup(v)
			}
			dl := []interface{}{}
			s, _ := band.VerifSnapshot(b)
			fs := []uint32{b.GetDefaults().RX2Frequency, 0, 869525000, 868100000}
			for _, ch := range s.DownlinkChannels {
				fs = append(fs, ch.Channel.Frequency)
			}
			for _, f := range fs {
				dl = append(dl, M{"f": freqVal(f), "p": b.GetDownlinkTXPower(f)})
			}
			c.emit(M{"ev": "bandmisc", "bname": b.Name(), "eirpc": int(math.Round(float64(b.GetDefaultMaxUplinkEIRP()) * 100)), "txparam": txp, "dltx": dl})
		}
	case "pingslot":
		for _, name := range bandNames[:14] {
			b, err := band.GetConfig(name, false, lorawan.DwellTimeNoLimit)
			if err != nil {
				return err
			}
			for i := 0; i < c.n; i++ {
				var da lorawan.DevAddr
				copy(da[:], c.bytesN(4))
				if c.rnd.Intn(4) == 0 {
					da = lorawan.DevAddr{0, 0, 0, byte(c.rnd.Intn(16))}
				}
				// beacon time: whole seconds since GPS epoch (< 2^31), periods of 128 s
				t := time.Duration(c.rnd.Int63n(1<<31)) * time.Second
				if c.rnd.Intn(3) == 0 {
					t = time.Duration(c.rnd.Int63n(1<<24)) * 128 * time.Second
				}
				switch c.rnd.Intn(4) { // not only whole seconds: any instant of a beacon period, in particular its last second
				case 0:
					t += time.Duration(c.rnd.Int63n(int64(time.Second)))
				case 1:
					t = t/(128*time.Second)*(128*time.Second) + 128*time.Second - time.Duration(c.pick(1, 1000, 250000000, 499999999, 500000000, 500000001, 999999999))
				}
				var f uint32
				code := codeErr(func() error {
					var err error
					f, err = b.GetPingSlotFrequency(da, t)
					return err
				})
				ts := int64(t / time.Second)
				c.emit(M{"ev": "pingslot", "bname": b.Name(), "devaddr": bs(da[:]), "t128": int(ts / 128), "trem": int(ts % 128), "code": code, "f": freqVal(f)})
			}
		}
	default:
		return fmt.Errorf("band: unknown mode %q", c.mode)
	}
	return nil
}
