package main

// Driver family `regconc` (C10, concurrency): replays the interleavings of the RegistryConc model on
// the real registry with the blocking verification hook as scheduler gate (every schedule in a fresh
// process - the registry is process-global), and records free-running goroutines.

import (
	"bufio"
	"bytes"
	"encoding/json"
	"fmt"
	"io/ioutil"
	"os"
	"os/exec"
	"path/filepath"
	"runtime"
	"sort"
	"strconv"
	"sync"
	"sync/atomic"
	"time"

	"github.com/brocaar/lorawan"
)

func init() { families["regconc"] = drvRegConc }

func curGID() int64 {
	var buf [64]byte
	n := runtime.Stack(buf[:], false)
	f := bytes.Fields(buf[:n])
	if len(f) < 2 {
		return -1
	}
	id, _ := strconv.ParseInt(string(f[1]), 10, 64)
	return id
}

type hookEv struct {
	point string
	cid   int
	held  bool
	size  int
	err   string
}

type gproc struct {
	name   string
	resume chan struct{}
	report chan hookEv
}

var modelOps = map[string][][2]int{ // process -> list of (cid, size); size -1 = lookup
	"R1": {{200, 1}, {200, 2}}, "R2": {{201, 3}}, "D1": {{200, -1}, {201, -1}}, "D2": {{3, -1}, {200, -1}},
}

func replaySchedule(c *ctx, cs M) error {
	procs := map[string]*gproc{}
	var mu sync.Mutex
	byGID := map[int64]*gproc{}
	lorawan.VerifHook = func(point string, uplink bool, cid lorawan.CID, held bool, size int) {
		mu.Lock()
		p := byGID[curGID()]
		mu.Unlock()
		if p == nil {
			return
		}
		p.report <- hookEv{point: point, cid: int(cid), held: held, size: size}
		<-p.resume
	}
	defer func() { lorawan.VerifHook = nil }()
	names := map[string]bool{}
	for _, st := range anyList(cs["sched"]) {
		names[anyList(st)[0].(string)] = true
	}
	for name := range names {
		p := &gproc{name: name, resume: make(chan struct{}), report: make(chan hookEv)}
		procs[name] = p
		go func(p *gproc) {
			mu.Lock()
			byGID[curGID()] = p
			mu.Unlock()
			for _, op := range modelOps[p.name] {
				<-p.resume
				if op[1] >= 0 {
					err := lorawan.RegisterProprietaryMACCommand(true, lorawan.CID(op[0]), op[1])
					e := hookEv{point: "ret", cid: op[0], size: op[1]}
					if err != nil {
						e.err = "error"
					}
					p.report <- e
				} else {
					_, size, err := lorawan.GetMACPayloadAndSize(true, lorawan.CID(op[0]))
					e := hookEv{point: "ret", cid: op[0], size: size}
					if err != nil {
						e.err = "error"
					}
					p.report <- e
				}
			}
		}(p)
	}
	c.emit(M{"ev": "reset", "exp": cs["results"], "final": cs["final"]})
	wait := func(p *gproc) (hookEv, error) {
		select {
		case e := <-p.report:
			return e, nil
		case <-time.After(5 * time.Second):
			return hookEv{}, fmt.Errorf("schedule replay stalled waiting for %s (the real lock does not admit this model schedule)", p.name)
		}
	}
	emit := func(p *gproc, e hookEv) {
		c.emit(M{"ev": "hook", "g": p.name, "point": e.point, "cid": e.cid, "held": e.held, "size": e.size, "err": e.err})
	}
	want := func(name, label string) string {
		if name[0] == 'D' {
			return map[string]string{"acq": "rlock", "acc": "read", "rel": "runlock"}[label]
		}
		return map[string]string{"acq": "wlock", "acc": "write", "rel": "wunlock"}[label]
	}
	for _, st := range anyList(cs["sched"]) {
		s := anyList(st)
		p := procs[s[0].(string)]
		label := s[1].(string)
		p.resume <- struct{}{}
		e, err := wait(p)
		if err != nil {
			return err
		}
		emit(p, e)
		if e.point != want(p.name, label) {
			// the real call did not pass the hook points of a locked registry access in order
			// (lock acquisition / release hook missing): recorded, the schedule cannot be continued
			c.emit(M{"ev": "desync", "g": p.name, "want": want(p.name, label), "got": e.point})
			return nil
		}
		if label == "rel" { // released from the unlock hook: the call returns
			p.resume <- struct{}{}
			e, err = wait(p)
			if err != nil {
				return err
			}
			emit(p, e)
		}
	}
	c.emit(M{"ev": "end"})
	return nil
}

// free-running: goroutines with the hook logging under a global atomic sequence number
func freeRun(c *ctx, nDec, nReg, nOps int) {
	type rec struct {
		seq int64
		ev  M
	}
	var seq int64
	var mu sync.Mutex
	var recs []rec
	byGID := map[int64]string{}
	var gmu sync.Mutex
	add := func(g string, e hookEv) {
		s := atomic.AddInt64(&seq, 1)
		mu.Lock()
		recs = append(recs, rec{s, M{"ev": "hook", "g": g, "point": e.point, "cid": e.cid, "held": e.held, "size": e.size, "err": e.err}})
		mu.Unlock()
	}
	lorawan.VerifHook = func(point string, uplink bool, cid lorawan.CID, held bool, size int) {
		if !uplink {
			return
		}
		gmu.Lock()
		g := byGID[curGID()]
		gmu.Unlock()
		if g == "" {
			return
		}
		add(g, hookEv{point: point, cid: int(cid), held: held, size: size})
	}
	defer func() { lorawan.VerifHook = nil }()
	var wg sync.WaitGroup
	seeds := make([]int64, nDec+nReg)
	for i := range seeds {
		seeds[i] = c.rnd.Int63()
	}
	start := make(chan struct{})
	for i := 0; i < nDec+nReg; i++ {
		wg.Add(1)
		go func(i int) {
			defer wg.Done()
			name := fmt.Sprintf("G%d", i)
			gmu.Lock()
			byGID[curGID()] = name
			gmu.Unlock()
			r := newRand(seeds[i])
			<-start
			for k := 0; k < nOps; k++ {
				cid := 200 + r.Intn(3)
				if i < nDec && r.Intn(3) == 0 {
					cid = []int{3, 6, 16}[r.Intn(3)] // standard entries live in the same map
				}
				if i < nDec {
					_, size, err := lorawan.GetMACPayloadAndSize(true, lorawan.CID(cid))
					e := hookEv{point: "ret", cid: cid, size: size}
					if err != nil {
						e.err = "error"
					}
					add(name, e)
				} else {
					sz := 1 + r.Intn(4)
					err := lorawan.RegisterProprietaryMACCommand(true, lorawan.CID(cid), sz)
					e := hookEv{point: "ret", cid: cid, size: sz}
					if err != nil {
						e.err = "error"
					}
					add(name, e)
				}
				if r.Intn(4) == 0 {
					runtime.Gosched()
				}
			}
		}(i)
	}
	close(start)
	wg.Wait()
	sort.Slice(recs, func(i, j int) bool { return recs[i].seq < recs[j].seq })
	c.emit(M{"ev": "reset", "exp": M{"free": true}, "final": M{"free": true}})
	for _, r := range recs {
		c.emit(r.ev)
	}
	c.emit(M{"ev": "end"})
}

// concurrent decode / MIC / encryption on distinct values while proprietary commands are registered:
// every goroutine records ordinary crypto-family events into its own buffer; the events are validated
// against the sequential specification, so interference that changes a result is seen.
func concMix(c *ctx, nG, nOps int) {
	var wg sync.WaitGroup
	bufs := make([]*bytes.Buffer, nG)
	start := make(chan struct{})
	stop := make(chan struct{})
	for i := 0; i < nG; i++ {
		bufs[i] = &bytes.Buffer{}
		sub := &ctx{seed: c.seed + int64(i), rnd: newRand(c.rnd.Int63()), w: bufio.NewWriter(bufs[i]), cleanOnly: true}
		wg.Add(1)
		go func(sub *ctx) {
			defer wg.Done()
			<-start
			for k := 0; k < nOps; k++ {
				switch k % 3 {
				case 0:
					sub.micCase(60)
				case 1:
					sub.cipherCase()
				default:
					sub.methodCase()
				}
			}
			sub.w.Flush()
		}(sub)
	}
	var rg sync.WaitGroup
	for j := 0; j < 2; j++ {
		rg.Add(1)
		go func(j int) {
			defer rg.Done()
			r := newRand(int64(j) + 99)
			<-start
			for {
				select {
				case <-stop:
					return
				default:
				}
				lorawan.RegisterProprietaryMACCommand(r.Intn(2) == 0, lorawan.CID(240+r.Intn(10)), 1+r.Intn(3))
				runtime.Gosched()
			}
		}(j)
	}
	// burst phase: inputs are prepared BEFORE the start signal; during the concurrent phase every goroutine only calls the
	// library in a tight loop on its own values (maximal overlap), remembering each DISTINCT result per input.  Afterwards one
	// event per (input, distinct result) is recorded - a correct library yields exactly one result per input - and the
	// trace specification decides each of them.
	type micIn struct {
		phy  *lorawan.PHYPayload
		p    micParams
		up   bool
		mt   int
		seen map[[4]byte]bool
	}
	type encIn struct {
		key  lorawan.AES128Key
		up   bool
		da   lorawan.DevAddr
		fcnt uint32
		in   []byte
		seen map[string]bool
	}
	mics := make([][]*micIn, nG)
	encs := make([][]*encIn, nG)
	for i := 0; i < nG; i++ {
		g := &ctx{rnd: newRand(c.rnd.Int63()), cleanOnly: true}
		for k := 0; k < 5; k++ {
			v := g.genDataFrame(false)
			mt := num(v["mtype"])
			p := micParams{ver: g.rnd.Intn(2), conf: g.edge32(), txdr: uint8(g.rnd.Intn(256)), txch: uint8(g.rnd.Intn(256)), fkey: g.key(), skey: g.key()}
			mics[i] = append(mics[i], &micIn{phy: valToPhy(v, false), p: p, up: mtypeUp(mt), mt: mt, seen: map[[4]byte]bool{}})
			e := &encIn{key: g.key(), up: g.rnd.Intn(2) == 0, fcnt: g.edge32(), in: g.bytesN(g.pick(1, 15, 16, 17, 33, 64)), seen: map[string]bool{}}
			copy(e.da[:], g.bytesN(4))
			encs[i] = append(encs[i], e)
		}
	}
	var bg sync.WaitGroup
	burst := make(chan struct{})
	for i := 0; i < nG; i++ {
		bg.Add(1)
		go func(i int) {
			defer bg.Done()
			<-burst
			for it := 0; it < 400*nOps; it++ {
				m := mics[i][it%len(mics[i])]
				var err error
				if m.up {
					err = m.phy.SetUplinkDataMIC(lorawan.MACVersion(m.p.ver), m.p.conf, m.p.txdr, m.p.txch, m.p.fkey, m.p.skey)
				} else {
					err = m.phy.SetDownlinkDataMIC(lorawan.MACVersion(m.p.ver), m.p.conf, m.p.skey)
				}
				if err == nil {
					m.seen[[4]byte(m.phy.MIC)] = true
				}
				e := encs[i][it%len(encs[i])]
				if out, err := lorawan.EncryptFRMPayload(e.key, e.up, e.da, e.fcnt, append([]byte{}, e.in...)); err == nil {
					e.seen[string(out)] = true
				}
			}
		}(i)
	}
	close(burst)
	close(start)
	wg.Wait()
	bg.Wait()
	close(stop)
	rg.Wait()
	for _, b := range bufs {
		c.w.Write(b.Bytes())
		c.count++
	}
	for i := 0; i < nG; i++ {
		for _, m := range mics[i] {
			for mic := range m.seen {
				m.phy.MIC = lorawan.MIC(mic)
				ev := M{"ev": "setmic", "dir": dirOf(m.mt), "err": "", "frame": phyToVal(m.phy), "burst": len(m.seen)}
				m.p.fields(ev)
				c.emit(ev)
			}
		}
		for _, e := range encs[i] {
			for out := range e.seen {
				out2, err2 := lorawan.EncryptFRMPayload(e.key, e.up, e.da, e.fcnt, []byte(out)) // the involution leg, observed after the burst
				c.emit(M{"ev": "encfrm", "key": bs(e.key[:]), "up": e.up, "devaddr": bs(e.da[:]), "fcnt": le32(e.fcnt), "in": bs(e.in), "err": "",
					"out": bs([]byte(out)), "err2": errStr(err2), "out2": bs(out2), "burst": len(e.seen)})
			}
		}
	}
}

func drvRegConc(c *ctx) error {
	switch c.mode {
	case "childmix":
		concMix(c, 8, c.n)
	case "child":
		for _, cs := range c.cases {
			if err := replaySchedule(c, cs); err != nil {
				return err
			}
		}
	case "childfree":
		freeRun(c, 4, 2, c.n)
	case "cases", "free", "mix":
		self, err := os.Executable()
		if err != nil {
			return err
		}
		dir, err := ioutil.TempDir(filepath.Dir(c.f.Name()), "concchild")
		if err != nil {
			return err
		}
		defer os.RemoveAll(dir)
		runChild := func(args ...string) error {
			of := filepath.Join(dir, "out.ndjson")
			cmd := exec.Command(self, append([]string{"record", "regconc", "--out", of}, args...)...)
			if out, err := cmd.CombinedOutput(); err != nil {
				// the Go runtime aborts a process that reads and writes a map concurrently (or misuses a
				// lock): that is observed behaviour of the code under test, recorded as an event
				for _, sig := range []string{"concurrent map read and map write", "concurrent map writes", "concurrent map iteration and map write", "RUnlock of unlocked RWMutex", "Unlock of unlocked RWMutex"} {
					if bytes.Contains(out, []byte(sig)) {
						c.emit(M{"ev": "reset", "exp": M{"free": true}, "final": M{"free": true}})
						c.emit(M{"ev": "crash", "what": sig})
						return nil
					}
				}
				return fmt.Errorf("regconc child failed: %v: %s", err, out)
			}
			ob, err := ioutil.ReadFile(of)
			if err != nil {
				return err
			}
			c.w.Write(ob)
			atomic.StoreInt64(&wd.lastEmit, time.Now().UnixNano()) // a child finished: progress (each child has its own watchdog)
			return nil
		}
		if c.mode == "cases" {
			idx := c.rnd.Perm(len(c.cases))
			if c.n > 0 && c.n < len(idx) {
				idx = idx[:c.n]
			}
			for _, i := range idx {
				cf := filepath.Join(dir, "case.json")
				b, _ := json.Marshal(c.cases[i])
				if err := ioutil.WriteFile(cf, b, 0644); err != nil {
					return err
				}
				if err := runChild("--mode", "child", "--cases", cf); err != nil {
					return err
				}
			}
		} else if c.mode == "free" {
			for i := 0; i < c.n; i++ {
				if err := runChild("--mode", "childfree", "--n", "40", "--seed", fmt.Sprint(c.seed+int64(i))); err != nil {
					return err
				}
			}
		} else {
			if err := runChild("--mode", "childmix", "--n", fmt.Sprint(c.n), "--seed", fmt.Sprint(c.seed)); err != nil {
				return err
			}
		}
	default:
		return fmt.Errorf("regconc: unknown mode %q", c.mode)
	}
	return nil
}
