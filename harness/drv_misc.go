package main

import (
	"fmt"
	"math"
	"time"

	"github.com/brocaar/lorawan"
	"github.com/brocaar/lorawan/airtime"
	"github.com/brocaar/lorawan/gps"
	"github.com/brocaar/lorawan/sensitivity"
)

func init() { families["misc"] = drvMisc }

var gpsEpoch = time.Date(1980, time.January, 6, 0, 0, 0, 0, time.UTC)

// instant as (days since the GPS epoch day, second of day, ns) - plain division of the Unix time
func utcVal(t time.Time) M {
	sec := t.Unix() - gpsEpoch.Unix()
	d := sec / 86400
	s := sec % 86400
	if s < 0 {
		s += 86400
		d--
	}
	return M{"d": int(d), "s": int(s), "ns": t.Nanosecond()}
}

func durDSN(x time.Duration) M {
	neg := x < 0
	if neg {
		x = -x
	}
	sec := int64(x / time.Second)
	return M{"neg": neg, "d": int(sec / 86400), "s": int(sec % 86400), "ns": int(x % time.Second)}
}

func limbs(x int64) []int {
	out := []int{}
	for x > 0 {
		out = append(out, int(x%10000))
		x /= 10000
	}
	return out
}

func gpsEvent(t time.Time) M {
	ev := M{"ev": "gps", "utc": utcVal(t)}
	var d time.Duration
	var back time.Time
	res, _ := observeFast(func() error {
		d = gps.Time(t).TimeSinceGPSEpoch()
		back = time.Time(gps.NewTimeFromTimeSinceGPSEpoch(d))
		return nil
	})
	ev["err"] = res
	ev["dur"] = durDSN(d)
	ev["back"] = utcVal(back)
	return ev
}

func gpsBackEvent(d time.Duration) M {
	ev := M{"ev": "gpsback", "dur": durDSN(d)}
	var t time.Time
	var again time.Duration
	res, _ := observeFast(func() error {
		t = time.Time(gps.NewTimeFromTimeSinceGPSEpoch(d))
		again = gps.Time(t).TimeSinceGPSEpoch()
		return nil
	})
	ev["err"] = res
	ev["utc"] = utcVal(t)
	ev["again"] = durDSN(again)
	return ev
}

var leapDates = [][3]int{{1981, 6, 30}, {1982, 6, 30}, {1983, 6, 30}, {1985, 6, 30}, {1987, 12, 31}, {1989, 12, 31}, {1990, 12, 31}, {1992, 6, 30}, {1993, 6, 30},
	{1994, 6, 30}, {1995, 12, 31}, {1997, 6, 30}, {1998, 12, 31}, {2005, 12, 31}, {2008, 12, 31}, {2012, 6, 30}, {2015, 6, 30}, {2016, 12, 31}}

func (c *ctx) genInstant() time.Time {
	switch c.rnd.Intn(4) {
	case 0, 1: // neighbourhood of a leap second (also of candidate dates without one)
		ld := leapDates[c.rnd.Intn(len(leapDates))]
		base := time.Date(ld[0], time.Month(ld[1]), ld[2], 23, 59, 59, 0, time.UTC)
		if c.rnd.Intn(6) == 0 { // a 30 June / 31 December WITHOUT leap second
			base = time.Date(1980+c.rnd.Intn(120), time.Month(c.pick(6, 12)), 30, 23, 59, 59, 0, time.UTC)
			if base.Month() == 12 {
				base = base.AddDate(0, 0, 1)
			}
		}
		off := time.Duration(c.rnd.Int63n(int64(6*time.Second))) - 3*time.Second
		if c.rnd.Intn(3) == 0 {
			off = time.Duration(c.pick(-1000000000, -1, 0, 1, 500000000, 999999999, 1000000000, 1000000001, 2000000000))
		}
		return base.Add(off)
	default:
		start := gpsEpoch.Unix()
		end := time.Date(2100, 1, 1, 0, 0, 0, 0, time.UTC).Unix()
		return time.Unix(start+c.rnd.Int63n(end-start), c.rnd.Int63n(1000000000)).UTC()
	}
}

func airtimeEvent(sf, bw, cr, pre int, hdr, ldro bool) M {
	ev := M{"ev": "airtime", "sf": sf, "bw": bw, "cr": cr, "hdr": hdr, "ldro": ldro, "pre": pre}
	nsym := make([]int, 256)
	air := make([]interface{}, 256)
	status := ""
	// sizes beyond one octet are asked first (their answers are not part of the event): a call history must not
	// change what the sizes 0..255 give afterwards
	for pl := 256; pl < 1024; pl += 1 + (pl-256)/256 {
		observeFast(func() error {
			if _, err := airtime.CalculateLoRaPayloadSymbolNumber(pl, sf, airtime.CodingRate(cr), hdr, ldro); err != nil {
				return err
			}
			_, err := airtime.CalculateLoRaAirtime(pl, sf, bw, pre, airtime.CodingRate(cr), hdr, ldro)
			return err
		})
	}
	for pl := 0; pl < 256; pl++ {
		var n int
		var d time.Duration
		res, _ := observeFast(func() error {
			var err error
			n, err = airtime.CalculateLoRaPayloadSymbolNumber(pl, sf, airtime.CodingRate(cr), hdr, ldro)
			if err != nil {
				return err
			}
			d, err = airtime.CalculateLoRaAirtime(pl, sf, bw, pre, airtime.CodingRate(cr), hdr, ldro)
			return err
		})
		if res != "" {
			status = res
		}
		nsym[pl] = n
		air[pl] = limbs(int64(d))
	}
	ev["err"] = status
	ev["nsym"] = nsym
	ev["air"] = air
	ev["tsym"] = limbs(int64(airtime.CalculateLoRaSymbolDuration(sf, bw)))
	return ev
}

func eirpEvent(p float32) M {
	fl := math.Floor(float64(p))
	if fl > 1<<30 {
		fl = 1 << 30
	}
	ev := M{"ev": "eirp", "fl": int(fl), "bits": le32(math.Float32bits(p))}
	var idx uint8
	res, _ := observeFast(func() error { idx = lorawan.GetTXParamSetupEIRPIndex(p); return nil })
	ev["err"] = res
	ev["idx"] = int(idx)
	return ev
}

func eirpDecEvent(i int) M {
	ev := M{"ev": "eirpdec", "idx": i}
	var v float32
	res, _ := observeFast(func() error {
		var err error
		v, err = lorawan.GetTXParamSetupEIRP(uint8(i))
		return err
	})
	ev["err"] = res
	ev["integral"] = float32(int(v)) == v
	ev["val"] = int(v)
	return ev
}

func drvMisc(c *ctx) error {
	switch c.mode {
	case "gps":
		for i := 0; i < c.n; i++ {
			t := c.genInstant()
			c.emit(gpsEvent(t))
			// the same instant expressed in another zone must convert identically
			if i%7 == 0 {
				c.emit(gpsEvent(t.In(time.FixedZone("x", c.pick(-12, -5, 1, 14)*3600))))
			}
			d := gps.Time(c.genInstant()).TimeSinceGPSEpoch()
			switch c.rnd.Intn(4) {
			case 0:
				d += time.Second
			case 1:
				d -= time.Second
			}
			if c.rnd.Intn(10) == 0 { // GPS durations up to the end of the Duration type (292 years): instants after 2262
				d = time.Duration(math.MaxInt64 - c.rnd.Int63n(int64(15*365*24*time.Hour)))
				if c.rnd.Intn(3) == 0 {
					d = time.Duration(math.MaxInt64) - time.Duration(c.pick(0, 1, 999999999, 1000000000))
				}
			}
			if d >= 0 {
				c.emit(gpsBackEvent(d))
			}
			// ordered pair
			t2 := t.Add(time.Duration(1 + c.rnd.Int63n(int64(3*time.Second))))
			c.emit(M{"ev": "gpspair", "t1": utcVal(t), "t2": utcVal(t2), "d1": durDSN(gps.Time(t).TimeSinceGPSEpoch()), "d2": durDSN(gps.Time(t2).TimeSinceGPSEpoch())})
		}
	case "gpsfirst": // a fresh process whose FIRST call into the package is the reverse conversion (nothing was converted forward yet)
		for i := 0; i < c.n; i++ {
			d := time.Duration(c.rnd.Int63n(int64(50*365*24*time.Hour)/int64(time.Second)))*time.Second + time.Duration(c.pick(0, 0, 1, 500000000, 999999999))
			c.emit(gpsBackEvent(d))
		}
	case "airtime": // n = 0: preamble {0,8,64}; n = 1: preamble 0..64
		pres := []int{0, 8, 64}
		if c.n >= 1 {
			pres = nil
			for p := 0; p <= 64; p++ {
				pres = append(pres, p)
			}
		}
		for sf := 5; sf <= 12; sf++ {
			for _, bw := range []int{125, 250, 500, 812, 1625} {
				for cr := 1; cr <= 4; cr++ {
					for _, hdr := range []bool{true, false} {
						for _, ldro := range []bool{true, false} {
							for _, pre := range pres {
								c.emit(airtimeEvent(sf, bw, cr, pre, hdr, ldro))
							}
						}
					}
				}
			}
		}
		for _, cr := range []int{0, 5, -1} {
			c.emit(airtimeEvent(7, 125, cr, 8, true, false))
		}
	case "eirp":
		for x := 16; x <= 80; x++ { // integral and half-integral powers 8..40
			c.emit(eirpEvent(float32(x) / 2))
		}
		for i := 0; i < c.n; i++ {
			var p float32
			switch c.rnd.Intn(3) {
			case 0:
				p = 8 + c.rnd.Float32()*32
			case 1:
				p = math.Float32frombits(uint32(c.rnd.Int63n(0x7f800000-0x41000000)) + 0x41000000) // any finite float32 >= 8
			default:
				p = math.Nextafter32(float32(8+c.rnd.Intn(30)), float32(c.pick(0, 100)))
			}
			c.emit(eirpEvent(p))
		}
		for i := 0; i < 256; i++ {
			c.emit(eirpDecEvent(i))
		}
	case "sens": // extended coverage: sensitivity / link budget (package sensitivity)
		milli := func(x float32) int { return int(math.Round(float64(x) * 1000)) }
		for i := 0; i < c.n; i++ {
			bw := []int{1, 10, 1000, 7800, 10400, 15600, 20800, 31250, 41700, 62500, 125000, 250000, 500000, 203000, 406000, 812000, 1625000}[c.rnd.Intn(17)]
			if c.rnd.Intn(4) == 0 {
				bw = 1 + c.rnd.Intn(2000000)
			}
			nf := float32(c.rnd.Intn(1500)) / 100
			snr := float32(c.rnd.Intn(4000)-2500) / 100
			tx := float32(c.rnd.Intn(3000)) / 100
			c.emit(M{"ev": "sens", "bw": bw, "nfc": milli(nf) / 10, "snrc": milli(snr) / 10, "txc": milli(tx) / 10,
				"s": milli(sensitivity.CalculateSensitivity(bw, nf, snr)), "s0": milli(sensitivity.CalculateSensitivity(bw, 0, 0)),
				"s10": milli(sensitivity.CalculateSensitivity(bw*10, 0, 0)), "s2": milli(sensitivity.CalculateSensitivity(bw*2, 0, 0)),
				"lb": milli(sensitivity.CalculateLinkBudget(bw, nf, snr, tx))})
		}
	case "zerovalue": // extended coverage: methods on zero values and on values whose optional / interface members are nil
		var k lorawan.AES128Key
		var eui lorawan.EUI64
		p0 := uint8(0)
		calls := []struct {
			name string
			f    func() error
		}{
			{"CFList{}.MarshalBinary", func() error { _, e := lorawan.CFList{}.MarshalBinary(); return e }},
			{"CFList{mask,nil}.MarshalBinary", func() error { _, e := lorawan.CFList{CFListType: lorawan.CFListChannelMask}.MarshalBinary(); return e }},
			{"JoinAcceptPayload{CFList{}}.MarshalBinary", func() error { _, e := lorawan.JoinAcceptPayload{CFList: &lorawan.CFList{}}.MarshalBinary(); return e }},
			{"PHYPayload{}.MarshalBinary", func() error { _, e := lorawan.PHYPayload{}.MarshalBinary(); return e }},
			{"PHYPayload{}.MarshalText", func() error { _, e := lorawan.PHYPayload{}.MarshalText(); return e }},
			{"PHYPayload{}.MarshalJSON", func() error { _, e := lorawan.PHYPayload{}.MarshalJSON(); return e }},
			{"PHYPayload{JoinAccept}.MarshalBinary", func() error {
				_, e := lorawan.PHYPayload{MHDR: lorawan.MHDR{MType: lorawan.JoinAccept}}.MarshalBinary()
				return e
			}},
			{"MACCommand{}.MarshalBinary", func() error { _, e := lorawan.MACCommand{}.MarshalBinary(); return e }},
			{"MACCommand{LinkADRReq,nil}.MarshalBinary", func() error { _, e := lorawan.MACCommand{CID: lorawan.LinkADRReq}.MarshalBinary(); return e }},
			{"MACPayload{}.MarshalBinary", func() error { _, e := lorawan.MACPayload{}.MarshalBinary(); return e }},
			{"MACPayload{port0}.MarshalBinary", func() error { _, e := lorawan.MACPayload{FPort: &p0}.MarshalBinary(); return e }},
			{"PHYPayload{}.SetUplinkDataMIC", func() error { var ph lorawan.PHYPayload; return ph.SetUplinkDataMIC(lorawan.LoRaWAN1_1, 0, 0, 0, k, k) }},
			{"PHYPayload{}.SetDownlinkDataMIC", func() error { var ph lorawan.PHYPayload; return ph.SetDownlinkDataMIC(lorawan.LoRaWAN1_1, 0, k) }},
			{"PHYPayload{}.ValidateUplinkDataMIC", func() error {
				var ph lorawan.PHYPayload
				_, e := ph.ValidateUplinkDataMIC(lorawan.LoRaWAN1_0, 0, 0, 0, k, k)
				return e
			}},
			{"PHYPayload{}.ValidateDownlinkDataMIC", func() error {
				var ph lorawan.PHYPayload
				_, e := ph.ValidateDownlinkDataMIC(lorawan.LoRaWAN1_0, 0, k)
				return e
			}},
			{"PHYPayload{}.SetUplinkJoinMIC", func() error { var ph lorawan.PHYPayload; return ph.SetUplinkJoinMIC(k) }},
			{"PHYPayload{}.ValidateUplinkJoinMIC", func() error { var ph lorawan.PHYPayload; _, e := ph.ValidateUplinkJoinMIC(k); return e }},
			{"PHYPayload{}.SetDownlinkJoinMIC", func() error {
				var ph lorawan.PHYPayload
				return ph.SetDownlinkJoinMIC(lorawan.JoinRequestType, eui, 0, k)
			}},
			{"PHYPayload{}.ValidateDownlinkJoinMIC", func() error {
				var ph lorawan.PHYPayload
				_, e := ph.ValidateDownlinkJoinMIC(lorawan.JoinRequestType, eui, 0, k)
				return e
			}},
			{"PHYPayload{}.EncryptJoinAcceptPayload", func() error { var ph lorawan.PHYPayload; return ph.EncryptJoinAcceptPayload(k) }},
			{"PHYPayload{}.DecryptJoinAcceptPayload", func() error { var ph lorawan.PHYPayload; return ph.DecryptJoinAcceptPayload(k) }},
			{"PHYPayload{}.EncryptFOpts", func() error { var ph lorawan.PHYPayload; return ph.EncryptFOpts(k) }},
			{"PHYPayload{}.DecryptFOpts", func() error { var ph lorawan.PHYPayload; return ph.DecryptFOpts(k) }},
			{"PHYPayload{}.EncryptFRMPayload", func() error { var ph lorawan.PHYPayload; return ph.EncryptFRMPayload(k) }},
			{"PHYPayload{}.DecryptFRMPayload", func() error { var ph lorawan.PHYPayload; return ph.DecryptFRMPayload(k) }},
			{"PHYPayload{}.DecodeFOptsToMACCommands", func() error { var ph lorawan.PHYPayload; return ph.DecodeFOptsToMACCommands() }},
			{"PHYPayload{}.DecodeFRMPayloadToMACCommands", func() error { var ph lorawan.PHYPayload; return ph.DecodeFRMPayloadToMACCommands() }},
			{"PHYPayload{data,&MACPayload{}}.all", func() error {
				ph := lorawan.PHYPayload{MHDR: lorawan.MHDR{MType: lorawan.UnconfirmedDataUp}, MACPayload: &lorawan.MACPayload{}}
				ph.SetUplinkDataMIC(lorawan.LoRaWAN1_1, 0, 0, 0, k, k)
				ph.EncryptFOpts(k)
				ph.EncryptFRMPayload(k)
				ph.DecodeFOptsToMACCommands()
				ph.DecodeFRMPayloadToMACCommands()
				_, e := ph.MarshalBinary()
				return e
			}},
		}
		for _, cl := range calls {
			res, _ := observe(cl.f)
			c.emit(M{"ev": "zerovalue", "call": cl.name, "res": res})
		}
	default:
		return fmt.Errorf("misc: unknown mode %q", c.mode)
	}
	return nil
}
