package main

// Projection between the specification's abstract frame (spec/lorawan/Frame.tla) and
// lorawan.PHYPayload.

import (
	"fmt"

	"github.com/brocaar/lorawan"
)

func mtypeUp(mt int) bool { return mt == 0 || mt == 2 || mt == 4 || mt == 6 }
func dirOf(mt int) string {
	if mtypeUp(mt) {
		return "up"
	}
	return "down"
}

func itemsToVal(dir string, pls []lorawan.Payload) []interface{} {
	out := []interface{}{}
	for _, p := range pls {
		out = append(out, itemToVal(dir, p))
	}
	return out
}

func cflistToVal(cf *lorawan.CFList) []interface{} {
	if cf == nil {
		return []interface{}{}
	}
	m := M{"type": int(cf.CFListType)}
	switch p := cf.Payload.(type) {
	case *lorawan.CFListChannelPayload:
		ch := []interface{}{}
		for _, f := range p.Channels {
			ch = append(ch, freqVal(f))
		}
		m["chans"] = ch
	case *lorawan.CFListChannelMaskPayload:
		ms := []interface{}{}
		for _, cm := range p.ChannelMasks {
			bits := make([]int, 16)
			for i := range cm {
				if cm[i] {
					bits[i] = 1
				}
			}
			ms = append(ms, bits)
		}
		m["masks"] = ms
	default:
		m["other"] = fmt.Sprintf("%T", cf.Payload)
	}
	return []interface{}{m}
}

func jaToVal(out M, t *lorawan.JoinAcceptPayload) {
	out["kind"] = "joinacc"
	out["joinnonce"] = le32(uint32(t.JoinNonce))
	out["netid"] = bs(t.HomeNetID[:])
	out["devaddr"] = bs(t.DevAddr[:])
	out["dl"] = M{"optneg": t.DLSettings.OptNeg, "rx2dr": int(t.DLSettings.RX2DataRate), "rx1off": int(t.DLSettings.RX1DROffset)}
	out["rxdelay"] = int(t.RXDelay)
	out["cflist"] = cflistToVal(t.CFList)
}

func phyToVal(p *lorawan.PHYPayload) M {
	mt := int(p.MHDR.MType)
	out := M{"mtype": mt, "major": int(p.MHDR.Major), "mic": bs(p.MIC[:])}
	dir := dirOf(mt)
	switch t := p.MACPayload.(type) {
	case nil:
		out["kind"] = "nil"
	case *lorawan.MACPayload:
		out["kind"] = "data"
		out["devaddr"] = bs(t.FHDR.DevAddr[:])
		c := t.FHDR.FCtrl
		out["fctrl"] = M{"adr": c.ADR, "adrackreq": c.ADRACKReq, "ack": c.ACK, "b4": c.ClassB || c.FPending}
		out["fcnt"] = le32(t.FHDR.FCnt)
		out["fopts"] = itemsToVal(dir, t.FHDR.FOpts)
		if t.FPort == nil {
			out["fport"] = []interface{}{}
		} else {
			out["fport"] = []interface{}{int(*t.FPort)}
		}
		out["frm"] = itemsToVal(dir, t.FRMPayload)
	case *lorawan.JoinRequestPayload:
		out["kind"] = "joinreq"
		out["joineui"] = bs(t.JoinEUI[:])
		out["deveui"] = bs(t.DevEUI[:])
		out["devnonce"] = int(t.DevNonce)
	case *lorawan.JoinAcceptPayload:
		jaToVal(out, t)
	case *lorawan.RejoinRequestType02Payload:
		out["kind"] = "rejoin02"
		out["rjtype"] = int(t.RejoinType)
		out["netid"] = bs(t.NetID[:])
		out["deveui"] = bs(t.DevEUI[:])
		out["rjcount"] = int(t.RJCount0)
	case *lorawan.RejoinRequestType1Payload:
		out["kind"] = "rejoin1"
		out["rjtype"] = int(t.RejoinType)
		out["joineui"] = bs(t.JoinEUI[:])
		out["deveui"] = bs(t.DevEUI[:])
		out["rjcount"] = int(t.RJCount1)
	case *lorawan.DataPayload:
		out["kind"] = "raw"
		out["bytes"] = bs(t.Bytes)
	default:
		out["kind"] = "other"
	}
	return out
}

func anyList(v interface{}) []interface{} {
	switch t := v.(type) {
	case []interface{}:
		return t
	case []M:
		out := make([]interface{}, len(t))
		for i := range t {
			out[i] = t[i]
		}
		return out
	case []int:
		out := make([]interface{}, len(t))
		for i := range t {
			out[i] = t[i]
		}
		return out
	}
	return nil
}

func valToItems(dir string, v interface{}) []lorawan.Payload {
	var out []lorawan.Payload
	for _, it := range anyList(v) {
		out = append(out, valToItem(dir, it.(M)))
	}
	return out
}

func copyN(dst []byte, v interface{}) { copy(dst, unbsAny(v)) }

func valToCFList(v interface{}) *lorawan.CFList {
	l := anyList(v)
	if len(l) == 0 {
		return nil
	}
	m := l[0].(M)
	cf := &lorawan.CFList{CFListType: lorawan.CFListType(num(m["type"]))}
	if ch, ok := m["chans"]; ok {
		p := &lorawan.CFListChannelPayload{}
		for i, f := range anyList(ch) {
			if i < 5 {
				p.Channels[i] = unfreq(f)
			}
		}
		cf.Payload = p
	} else {
		p := &lorawan.CFListChannelMaskPayload{}
		for _, mk := range anyList(m["masks"]) {
			var cm lorawan.ChMask
			for i, b := range anyList(mk) {
				if i < 16 {
					cm[i] = num(b) != 0
				}
			}
			p.ChannelMasks = append(p.ChannelMasks, cm)
		}
		cf.Payload = p
	}
	return cf
}

func valToJA(v M) *lorawan.JoinAcceptPayload {
	p := &lorawan.JoinAcceptPayload{JoinNonce: lorawan.JoinNonce(unle32(anyList(v["joinnonce"]))), RXDelay: uint8(num(v["rxdelay"]))}
	copyN(p.HomeNetID[:], v["netid"])
	copyN(p.DevAddr[:], v["devaddr"])
	dl := v["dl"].(M)
	p.DLSettings = lorawan.DLSettings{OptNeg: dl["optneg"].(bool), RX2DataRate: uint8(num(dl["rx2dr"])), RX1DROffset: uint8(num(dl["rx1off"]))}
	p.CFList = valToCFList(v["cflist"])
	return p
}

// valToPhy builds the Go frame.  bothB4 additionally sets the FCtrl flag that belongs to the other
// direction (the Go struct has two names for wire bit 4).
var emptySpelling int

func valToPhy(v M, bothB4 bool) *lorawan.PHYPayload {
	mt := num(v["mtype"])
	p := &lorawan.PHYPayload{MHDR: lorawan.MHDR{MType: lorawan.MType(mt), Major: lorawan.Major(num(v["major"]))}}
	copyN(p.MIC[:], v["mic"])
	dir := dirOf(mt)
	switch v["kind"] {
	case "data":
		mp := &lorawan.MACPayload{}
		copyN(mp.FHDR.DevAddr[:], v["devaddr"])
		c := v["fctrl"].(M)
		mp.FHDR.FCtrl = lorawan.FCtrl{ADR: c["adr"].(bool), ADRACKReq: c["adrackreq"].(bool), ACK: c["ack"].(bool)}
		b4 := c["b4"].(bool)
		if dir == "up" || (bothB4 && b4) {
			mp.FHDR.FCtrl.ClassB = b4
		}
		if dir == "down" || (bothB4 && b4) {
			mp.FHDR.FCtrl.FPending = b4
		}
		mp.FHDR.FCnt = unle32(anyList(v["fcnt"]))
		mp.FHDR.FOpts = valToItems(dir, v["fopts"])
		if fp := anyList(v["fport"]); len(fp) == 1 {
			x := uint8(num(fp[0]))
			mp.FPort = &x
		}
		mp.FRMPayload = valToItems(dir, v["frm"])
		// "no items" has two Go spellings, nil and a non-nil slice of length 0 (what make / [:0] / a JSON [] give): every
		// third frame built here uses the second one
		emptySpelling++
		if emptySpelling%3 == 0 {
			if len(mp.FRMPayload) == 0 {
				mp.FRMPayload = []lorawan.Payload{}
			}
			if len(mp.FHDR.FOpts) == 0 {
				mp.FHDR.FOpts = make([]lorawan.Payload, 0, 4)
			}
		}
		p.MACPayload = mp
	case "joinreq":
		jr := &lorawan.JoinRequestPayload{DevNonce: lorawan.DevNonce(num(v["devnonce"]))}
		copyN(jr.JoinEUI[:], v["joineui"])
		copyN(jr.DevEUI[:], v["deveui"])
		p.MACPayload = jr
	case "joinacc":
		p.MACPayload = valToJA(v)
	case "rejoin02":
		r := &lorawan.RejoinRequestType02Payload{RejoinType: lorawan.JoinType(num(v["rjtype"])), RJCount0: uint16(num(v["rjcount"]))}
		copyN(r.NetID[:], v["netid"])
		copyN(r.DevEUI[:], v["deveui"])
		p.MACPayload = r
	case "rejoin1":
		r := &lorawan.RejoinRequestType1Payload{RejoinType: lorawan.JoinType(num(v["rjtype"])), RJCount1: uint16(num(v["rjcount"]))}
		copyN(r.JoinEUI[:], v["joineui"])
		copyN(r.DevEUI[:], v["deveui"])
		p.MACPayload = r
	case "raw":
		p.MACPayload = &lorawan.DataPayload{Bytes: unbsAny(v["bytes"])}
	}
	return p
}
