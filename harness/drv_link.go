package main

// Driver family `link` (C05): executes behaviours of the SecureLink model (an order of sender
// calls, an order of receiver calls, one optional deviation) on real PHYPayload values with
// concrete keys, recording one event per call plus a summary; and the bit-flip sweep.

import (
	"encoding/base64"
	"fmt"

	"github.com/brocaar/lorawan"
)

func init() { families["link"] = drvLink }

var linkRxStream lorawan.PHYPayload

type linkKeys struct {
	app, enc, fk, sk lorawan.AES128Key
	conf             uint32
	txdr, txch       uint8
}

func strs(v interface{}) []string {
	var out []string
	for _, x := range anyList(v) {
		out = append(out, x.(string))
	}
	return out
}

func (c *ctx) linkFrame(dir string, ack bool, layout string, hiZero bool) M {
	mt := 0
	if dir == "up" {
		mt = c.pick(2, 4)
	} else {
		mt = c.pick(3, 5)
	}
	hi := uint32(1 + c.rnd.Intn(65535))
	if hiZero {
		hi = 0
	}
	fcnt := hi<<16 | uint32(c.rnd.Intn(65536))
	v := M{"kind": "data", "mtype": mt, "major": 0, "mic": []int{0, 0, 0, 0}, "devaddr": c.ints(4), "fcnt": le32(fcnt),
		"fctrl": M{"adr": c.rnd.Intn(2) == 1, "adrackreq": c.rnd.Intn(2) == 1, "ack": ack, "b4": c.rnd.Intn(2) == 1},
		"fopts": []interface{}{}, "fport": []interface{}{}, "frm": []interface{}{}}
	nonEmptyStream := func(max int) []interface{} {
		for {
			s := c.genStream(dir, max)
			if len(s) > 0 {
				return toIface(s)
			}
		}
	}
	switch layout {
	case "fopts+app":
		v["fopts"] = nonEmptyStream(15)
		v["fport"] = []interface{}{1 + c.rnd.Intn(255)}
		v["frm"] = c.genRawItem(1 + c.rnd.Intn(60))
	case "port0":
		v["fport"] = []interface{}{0}
		v["frm"] = nonEmptyStream(60)
	case "app":
		v["fport"] = []interface{}{1 + c.rnd.Intn(255)}
		v["frm"] = c.genRawItem(c.pick(1, 2, 15, 16, 17, 33, 1+c.rnd.Intn(100)))
	case "foptsonly":
		v["fopts"] = nonEmptyStream(15)
	case "port0empty":
		v["fport"] = []interface{}{0}
		v["frm"] = []interface{}{}
	case "fopts+port":
		v["fopts"] = nonEmptyStream(15)
		v["fport"] = []interface{}{c.pick(1, 10, 223, 224, 255)}
		v["frm"] = []interface{}{}
	}
	return v
}

func methodEvent(phy *lorawan.PHYPayload, name string, key lorawan.AES128Key) M {
	ev := M{"ev": "method", "name": name, "key": bs(key[:]), "pre": phyToVal(phy)}
	res, _ := observeFast(func() error {
		switch name {
		case "EncryptFRMPayload":
			return phy.EncryptFRMPayload(key)
		case "DecryptFRMPayload":
			return phy.DecryptFRMPayload(key)
		case "EncryptFOpts":
			return phy.EncryptFOpts(key)
		default:
			return phy.DecryptFOpts(key)
		}
	})
	ev["err"] = res
	ev["post"] = phyToVal(phy)
	return ev
}

// regions of a serialised data frame: hdr-safe bit positions, FOpts, FRMPayload, MIC
func wireRegions(b []byte) (hdr, fo, frm, mic []int) {
	n := int(b[5] & 0x0f)
	for i := 1; i <= 4; i++ {
		hdr = append(hdr, i) // DevAddr
	}
	hdr = append(hdr, 6, 7) // FCnt (low half)
	for i := 8; i < 8+n; i++ {
		fo = append(fo, i)
	}
	for i := 8 + n + 1; i < len(b)-4; i++ {
		frm = append(frm, i)
	}
	for i := len(b) - 4; i < len(b); i++ {
		mic = append(mic, i)
	}
	return
}

var linkSharedDP *lorawan.DataPayload
var linkSharedPlain []byte

func (c *ctx) linkCase(cs M) {
	cfg := cs["cfg"].(M)
	dir := cfg["dir"].(string)
	ver := num(cfg["ver"])
	ack := cfg["ack"].(bool)
	layout := cfg["layout"].(string)
	dev := cfg["dev"].(string)
	hiZero := cfg["hi"].(string) == "zero"
	k := linkKeys{app: c.key(), enc: c.key(), fk: c.key(), sk: c.key(), conf: c.edge32(), txdr: uint8(c.rnd.Intn(256)), txch: uint8(c.rnd.Intn(256))}
	orig := c.linkFrame(dir, ack, layout, hiZero)
	// an application message that is sent again (next counter, other device): the caller's payload object of an earlier
	// frame is put into this frame as it is - the library was only asked to encrypt FRAMES, the message is still the message
	reuse := layout == "app" && linkSharedDP != nil && c.rnd.Intn(3) == 0
	if reuse {
		orig["frm"] = []interface{}{M{"t": "raw", "b": bs(linkSharedPlain)}}
	}
	phy := valToPhy(cloneM(orig).(M), false)
	if mp, ok := phy.MACPayload.(*lorawan.MACPayload); ok && layout == "app" && len(mp.FRMPayload) == 1 {
		if dp, ok := mp.FRMPayload[0].(*lorawan.DataPayload); ok {
			if reuse {
				mp.FRMPayload[0] = linkSharedDP
			} else {
				linkSharedDP, linkSharedPlain = dp, append([]byte{}, dp.Bytes...)
			}
		}
	}
	up := dir == "up"
	end := M{"ev": "linkend", "cfg": cfg, "sops": cs["sops"], "rops": cs["rops"], "exp": cs["exp"], "orig": orig}
	var wire []byte
	for _, op := range strs(cs["sops"]) {
		switch op {
		case "EncryptFRMPayload":
			c.emit(methodEvent(phy, op, k.app))
		case "EncryptFOpts":
			c.emit(methodEvent(phy, op, k.enc))
		case "SetMIC":
			ev := M{"ev": "setmic", "dir": dir}
			micParams{ver, k.conf, k.txdr, k.txch, k.fk, k.sk}.fields(ev)
			res, _ := observeFast(func() error {
				if up {
					return phy.SetUplinkDataMIC(lorawan.MACVersion(ver), k.conf, k.txdr, k.txch, k.fk, k.sk)
				}
				return phy.SetDownlinkDataMIC(lorawan.MACVersion(ver), k.conf, k.sk)
			})
			ev["err"] = res
			ev["frame"] = phyToVal(phy)
			c.emit(ev)
		case "Marshal":
			ev := M{"ev": "wire", "frame": phyToVal(phy)}
			res, _ := observeFast(func() error {
				var err error
				wire, err = phy.MarshalBinary()
				return err
			})
			ev["err"] = res
			ev["bytes"] = bs(wire)
			c.emit(ev)
			if res != "" {
				wire = nil // nothing was put on the air (the library returns an empty, non-nil slice with its error)
			}
		}
	}
	if len(wire) < 12 {
		end["verdict"] = "err"
		end["final"] = phyToVal(phy)
		c.emit(end)
		return
	}
	// channel
	hdrPos, foPos, frmPos, micPos := wireRegions(wire)
	flip := func(pos []int) {
		if len(pos) > 0 {
			wire[pos[c.rnd.Intn(len(pos))]] ^= 1 << uint(c.rnd.Intn(8))
		}
	}
	switch dev {
	case "tamper-hdr":
		if c.rnd.Intn(4) == 0 {
			wire[5] ^= byte(c.pick(0x80, 0x40, 0x20, 0x10)) // an FCtrl flag (not the FOptsLen nibble)
		} else {
			flip(hdrPos)
		}
	case "tamper-fo":
		flip(foPos)
	case "tamper-frm":
		flip(frmPos)
	case "tamper-mic":
		flip(micPos)
	}
	end["wire"] = bs(wire)
	// the receiver's frame variable: a fresh one, or (every other case) ONE long-lived variable that held the frames of
	// earlier cases - the way a receive loop re-uses its frame variable
	var rFresh lorawan.PHYPayload
	rp := &rFresh
	if c.rnd.Intn(2) == 0 {
		rp = &linkRxStream
	}
	// when the exchange is over the receiver does what it likes with ITS frame value (turns it into a reply, clears it):
	// everything reachable through exported members is overwritten; later exchanges must not notice
	defer func() {
		observeFast(func() error {
			if mp, ok := rp.MACPayload.(*lorawan.MACPayload); ok {
				if mp.FPort != nil {
					*mp.FPort ^= 0x5a
				}
				for _, l := range [][]lorawan.Payload{mp.FHDR.FOpts, mp.FRMPayload} {
					for _, it := range l {
						if dp, ok := it.(*lorawan.DataPayload); ok {
							for i := range dp.Bytes {
								dp.Bytes[i] ^= 0xff
							}
						}
					}
				}
			}
			return nil
		})
	}()
	verdict := "none"
	sentHi := unle32(toIfaceInts(orig["fcnt"].([]int))) & 0xffff0000
	for _, op := range strs(cs["rops"]) {
		switch op {
		case "Unmarshal":
			ev := M{"ev": "unwire", "bytes": bs(wire)}
			textRoute := c.rnd.Intn(3) == 0 // the frame travels as base64 text (the form gateways and APIs hand frames over in)
			if textRoute {
				ev["route"] = "text"
			}
			res, _ := observeFast(func() error {
				if textRoute {
					return rp.UnmarshalText([]byte(base64.StdEncoding.EncodeToString(wire)))
				}
				return rp.UnmarshalBinary(append([]byte{}, wire...))
			})
			ev["err"] = res
			if res == "" {
				ev["frame"] = phyToVal(rp)
			}
			c.emit(ev)
			if res != "" {
				end["verdict"] = "err"
				c.emit(end)
				return
			}
		case "SetFCnt":
			hi := sentHi
			if dev == "fcnthigh" {
				hi ^= 1 << uint(16+c.rnd.Intn(16))
			}
			rp.MACPayload.(*lorawan.MACPayload).FHDR.FCnt |= hi
		case "Validate":
			q := micParams{ver, k.conf, k.txdr, k.txch, k.fk, k.sk}
			switch dev {
			case "fkey":
				q.fkey = flipKey(q.fkey, c.rnd.Intn(128))
			case "skey":
				q.skey = flipKey(q.skey, c.rnd.Intn(128))
			case "conf":
				q.conf ^= 1 << uint(c.rnd.Intn(16))
			case "confhigh":
				q.conf ^= 1 << uint(16+c.rnd.Intn(16))
			case "txdr":
				q.txdr ^= 1 << uint(c.rnd.Intn(8))
			case "txch":
				q.txch ^= 1 << uint(c.rnd.Intn(8))
			}
			which := "down"
			if up {
				which = "up"
			}
			ev := validateEvent(which, rp, q, dev)
			c.emit(ev)
			{ // a receiver that validates for the other direction (same key material) must reject: the direction is authenticated
				q2, other := q, "up"
				if up {
					other = "down"
					q2.skey = q.fkey
				} else {
					q2.fkey = q.skey
				}
				rc := valToPhy(cloneM(phyToVal(rp)).(M), false)
				c.emit(validateEvent(other, rc, q2, "crossdir"))
			}
			if ev["err"] != "" {
				verdict = "err"
			} else if ev["ok"].(bool) {
				verdict = "T"
			} else {
				verdict = "F"
			}
		case "DecryptFOpts":
			key := k.enc
			if dev == "foptskey" {
				key = flipKey(key, c.rnd.Intn(128))
			}
			c.emit(methodEvent(rp, op, key))
		case "DecryptFRMPayload":
			key := k.app
			if dev == "frmkey" {
				key = flipKey(key, c.rnd.Intn(128))
			}
			c.emit(methodEvent(rp, op, key))
		}
	}
	if ver == 0 { // a 1.0 receiver has no FOpts decryption step; it decodes the FOpts as they are
		observeFast(func() error { return rp.DecodeFOptsToMACCommands() })
	}
	end["verdict"] = verdict
	end["final"] = phyToVal(rp)
	c.emit(end)
}

// flipSweep: full canonical pipeline, then EVERY single-bit corruption of the serialised frame.
func (c *ctx) flipSweep() {
	dir := []string{"up", "down"}[c.rnd.Intn(2)]
	ver := c.rnd.Intn(2)
	layout := []string{"fopts+app", "port0", "app", "foptsonly", "fopts+port", "port0empty"}[c.rnd.Intn(6)]
	k := linkKeys{app: c.key(), enc: c.key(), fk: c.key(), sk: c.key(), conf: c.edge32(), txdr: uint8(c.rnd.Intn(256)), txch: uint8(c.rnd.Intn(256))}
	orig := c.linkFrame(dir, c.rnd.Intn(2) == 0, layout, c.rnd.Intn(4) == 0)
	if layout != "foptsonly" && layout != "fopts+port" && layout != "port0empty" {
		// keep the sweep affordable: short payload
		if layout == "port0" {
			for {
				s := c.genStream(dir, 12)
				if len(s) > 0 {
					orig["frm"] = toIface(s)
					break
				}
			}
		} else {
			orig["frm"] = c.genRawItem(1 + c.rnd.Intn(12))
		}
	}
	phy := valToPhy(cloneM(orig).(M), false)
	up := dir == "up"
	if err := phy.EncryptFRMPayload(k.app); err != nil {
		return
	}
	if ver == 1 {
		if err := phy.EncryptFOpts(k.enc); err != nil {
			return
		}
	}
	var err error
	if up {
		err = phy.SetUplinkDataMIC(lorawan.MACVersion(ver), k.conf, k.txdr, k.txch, k.fk, k.sk)
	} else {
		err = phy.SetDownlinkDataMIC(lorawan.MACVersion(ver), k.conf, k.sk)
	}
	if err != nil {
		return
	}
	wire, err := phy.MarshalBinary()
	if err != nil {
		return
	}
	fullFCnt := phy.MACPayload.(*lorawan.MACPayload).FHDR.FCnt
	p := micParams{ver, k.conf, k.txdr, k.txch, k.fk, k.sk}
	for bit := -1; bit < len(wire)*8; bit++ {
		b := append([]byte{}, wire...)
		if bit >= 0 {
			b[bit/8] ^= 1 << uint(bit%8)
		}
		var r lorawan.PHYPayload
		ev := M{"ev": "flip", "bit": bit, "bytes": bs(b), "fcnthi": le32(fullFCnt & 0xffff0000)}
		p.fields(ev)
		res, _ := observeFast(func() error { return r.UnmarshalBinary(b) })
		ev["derr"] = res
		if res == "" {
			if m, ok := r.MACPayload.(*lorawan.MACPayload); ok {
				m.FHDR.FCnt |= fullFCnt & 0xffff0000
				var okv bool
				vres, _ := observeFast(func() error {
					var e error
					if mtypeUp(int(r.MHDR.MType)) {
						okv, e = r.ValidateUplinkDataMIC(lorawan.MACVersion(ver), k.conf, k.txdr, k.txch, k.fk, k.sk)
					} else {
						okv, e = r.ValidateDownlinkDataMIC(lorawan.MACVersion(ver), k.conf, k.sk)
					}
					return e
				})
				ev["verr"] = vres
				ev["ok"] = okv
				ev["frame"] = phyToVal(&r)
			} else {
				ev["verr"] = "notdata"
				ev["ok"] = false
			}
		}
		c.emit(ev)
	}
}

// propExchanges: proprietary MAC commands are registered AFTER the process has decoded many frames; an end-to-end exchange of
// frames that carry them (FOpts and port-0 payload, both directions, both MAC versions) must recover what was sent.
func (c *ctx) propExchanges() {
	sizes := map[bool]int{true: 2, false: 3}
	for _, up := range []bool{true, false} {
		lorawan.RegisterProprietaryMACCommand(up, lorawan.CID(0xe1), sizes[up])
	}
	for i := 0; i < 8; i++ {
		up, ver, inFOpts := i%2 == 0, (i/2)%2, (i/4)%2 == 0
		mt := lorawan.UnconfirmedDataDown
		if up {
			mt = lorawan.UnconfirmedDataUp
		}
		prop := func() lorawan.Payload {
			return &lorawan.MACCommand{CID: lorawan.CID(0xe1), Payload: &lorawan.ProprietaryMACCommandPayload{Bytes: c.bytesN(sizes[up])}}
		}
		std := func() lorawan.Payload {
			if up {
				return &lorawan.MACCommand{CID: lorawan.DevStatusAns, Payload: &lorawan.DevStatusAnsPayload{Battery: uint8(c.rnd.Intn(256)), Margin: int8(c.rnd.Intn(64) - 32)}}
			}
			return &lorawan.MACCommand{CID: lorawan.DutyCycleReq, Payload: &lorawan.DutyCycleReqPayload{MaxDCycle: uint8(c.rnd.Intn(16))}}
		}
		cmds := []lorawan.Payload{prop(), std(), prop()}
		mp := &lorawan.MACPayload{FHDR: lorawan.FHDR{DevAddr: lorawan.DevAddr{9, 8, 7, byte(i)}, FCnt: uint32(c.rnd.Intn(65536))}}
		if inFOpts {
			fp := uint8(1 + c.rnd.Intn(200))
			mp.FHDR.FOpts = cmds
			mp.FPort = &fp
			mp.FRMPayload = []lorawan.Payload{&lorawan.DataPayload{Bytes: c.bytesN(1 + c.rnd.Intn(10))}}
		} else {
			fp := uint8(0)
			mp.FPort = &fp
			mp.FRMPayload = cmds
		}
		tx := lorawan.PHYPayload{MHDR: lorawan.MHDR{MType: mt, Major: lorawan.LoRaWANR1}, MACPayload: mp}
		ev := M{"ev": "propx", "up": up, "ver": ver, "where": map[bool]string{true: "fopts", false: "port0"}[inFOpts], "sent": phyToVal(&tx)}
		k1, k2, k3 := c.key(), c.key(), c.key()
		var rx lorawan.PHYPayload
		okv := false
		res, _ := observeFast(func() error {
			if err := tx.EncryptFRMPayload(k1); err != nil {
				return err
			}
			if ver == 1 && inFOpts {
				if err := tx.EncryptFOpts(k2); err != nil {
					return err
				}
			}
			var err error
			if up {
				err = tx.SetUplinkDataMIC(lorawan.MACVersion(ver), 0, 1, 2, k3, k3)
			} else {
				err = tx.SetDownlinkDataMIC(lorawan.MACVersion(ver), 0, k3)
			}
			if err != nil {
				return err
			}
			wire, err := tx.MarshalBinary()
			if err != nil {
				return err
			}
			if err := rx.UnmarshalBinary(wire); err != nil {
				return err
			}
			if up {
				okv, err = rx.ValidateUplinkDataMIC(lorawan.MACVersion(ver), 0, 1, 2, k3, k3)
			} else {
				okv, err = rx.ValidateDownlinkDataMIC(lorawan.MACVersion(ver), 0, k3)
			}
			if err != nil {
				return err
			}
			if ver == 1 && inFOpts {
				if err := rx.DecryptFOpts(k2); err != nil {
					return err
				}
			} else if err := rx.DecodeFOptsToMACCommands(); err != nil {
				return err
			}
			return rx.DecryptFRMPayload(k1)
		})
		ev["err"] = res
		ev["micok"] = okv
		ev["recv"] = phyToVal(&rx)
		c.emit(ev)
	}
}

func drvLink(c *ctx) error {
	switch c.mode {
	case "cases":
		// the model emits ~10^5 maximal behaviours; replay a seeded sample of n of them (n<=0: all)
		idx := c.rnd.Perm(len(c.cases))
		if c.n > 0 && c.n < len(idx) {
			idx = idx[:c.n]
		}
		for _, i := range idx {
			c.linkCase(c.cases[i])
		}
	case "flips":
		cmdTypeEvents(c)
		for i := 0; i < c.n; i++ {
			c.flipSweep()
		}
		c.propExchanges() // last: registers proprietary MAC commands in this process, after many frames were decoded
	default:
		return fmt.Errorf("link: unknown mode %q", c.mode)
	}
	return nil
}
