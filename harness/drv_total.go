package main

// Driver family `total` (C09): every decoding entry point on arbitrary / shaped / mutated input.
// Only the outcome class (value | error | panic | timeout) and whether the input buffer was
// written are recorded; which inputs are accepted is the business of C01/C06/C08.

import (
	"encoding/base64"
	"encoding/json"
	"fmt"
	"sort"

	"github.com/brocaar/lorawan"
	"github.com/brocaar/lorawan/applayer/clocksync"
	"github.com/brocaar/lorawan/applayer/firmwaremanagement"
	"github.com/brocaar/lorawan/applayer/fragmentation"
	"github.com/brocaar/lorawan/applayer/multicastsetup"
	"github.com/brocaar/lorawan/backend"
)

func init() { families["total"] = drvTotal }

type entry func(b []byte, k lorawan.AES128Key) error

func phyThen(f func(p *lorawan.PHYPayload, k lorawan.AES128Key) error) entry {
	return func(b []byte, k lorawan.AES128Key) error {
		var p lorawan.PHYPayload
		if err := p.UnmarshalBinary(b); err != nil {
			return err
		}
		return f(&p, k)
	}
}

func jsonInto(mk func() interface{}) entry {
	return func(b []byte, k lorawan.AES128Key) error { return json.Unmarshal(b, mk()) }
}

var entries = map[string]entry{
	"phy.UnmarshalBinary": func(b []byte, k lorawan.AES128Key) error { var p lorawan.PHYPayload; return p.UnmarshalBinary(b) },
	"phy.UnmarshalText":   func(b []byte, k lorawan.AES128Key) error { var p lorawan.PHYPayload; return p.UnmarshalText(b) },
	"phy.UnmarshalText(base64)": func(b []byte, k lorawan.AES128Key) error {
		var p lorawan.PHYPayload
		return p.UnmarshalText([]byte(base64.StdEncoding.EncodeToString(b)))
	},
	"phy.DecodeFOpts":       phyThen(func(p *lorawan.PHYPayload, k lorawan.AES128Key) error { return p.DecodeFOptsToMACCommands() }),
	"phy.DecodeFRMPayload":  phyThen(func(p *lorawan.PHYPayload, k lorawan.AES128Key) error { return p.DecodeFRMPayloadToMACCommands() }),
	"phy.DecryptFOpts":      phyThen(func(p *lorawan.PHYPayload, k lorawan.AES128Key) error { return p.DecryptFOpts(k) }),
	"phy.DecryptFRMPayload": phyThen(func(p *lorawan.PHYPayload, k lorawan.AES128Key) error { return p.DecryptFRMPayload(k) }),
	"phy.DecryptJoinAccept": phyThen(func(p *lorawan.PHYPayload, k lorawan.AES128Key) error { return p.DecryptJoinAcceptPayload(k) }),
	"phy.json": func(b []byte, k lorawan.AES128Key) error {
		var p lorawan.PHYPayload
		if err := p.UnmarshalBinary(b); err != nil {
			return err
		}
		_, err := json.Marshal(p)
		return err
	},
	"CFList.UnmarshalBinary": func(b []byte, k lorawan.AES128Key) error { var c lorawan.CFList; return c.UnmarshalBinary(b) },
	// the exported PART decoders, called directly
	"CFListChannelPayload.UnmarshalBinary": func(b []byte, k lorawan.AES128Key) error {
		var c lorawan.CFListChannelPayload
		return c.UnmarshalBinary(false, b)
	},
	"CFListChannelMaskPayload.UnmarshalBinary": func(b []byte, k lorawan.AES128Key) error {
		var c lorawan.CFListChannelMaskPayload
		return c.UnmarshalBinary(false, b)
	},
	"JoinRequestPayload.UnmarshalBinary": func(b []byte, k lorawan.AES128Key) error {
		var c lorawan.JoinRequestPayload
		return c.UnmarshalBinary(true, b)
	},
	"RejoinRequestType02Payload.UnmarshalBinary": func(b []byte, k lorawan.AES128Key) error {
		var c lorawan.RejoinRequestType02Payload
		return c.UnmarshalBinary(true, b)
	},
	"RejoinRequestType1Payload.UnmarshalBinary": func(b []byte, k lorawan.AES128Key) error {
		var c lorawan.RejoinRequestType1Payload
		return c.UnmarshalBinary(true, b)
	},
	"MACPayload.UnmarshalBinary.up": func(b []byte, k lorawan.AES128Key) error { var c lorawan.MACPayload; return c.UnmarshalBinary(true, b) },
	"MACPayload.UnmarshalBinary.down": func(b []byte, k lorawan.AES128Key) error {
		var c lorawan.MACPayload
		return c.UnmarshalBinary(false, b)
	},
	"FHDR.UnmarshalBinary": func(b []byte, k lorawan.AES128Key) error { var c lorawan.FHDR; return c.UnmarshalBinary(true, b) },
	"DataPayload.UnmarshalBinary": func(b []byte, k lorawan.AES128Key) error {
		var c lorawan.DataPayload
		return c.UnmarshalBinary(true, b)
	},
	"MACCommand.up": func(b []byte, k lorawan.AES128Key) error { var m lorawan.MACCommand; return m.UnmarshalBinary(true, b) },
	"MACCommand.down": func(b []byte, k lorawan.AES128Key) error {
		var m lorawan.MACCommand
		return m.UnmarshalBinary(false, b)
	},
	"JoinAccept.Unmarshal": func(b []byte, k lorawan.AES128Key) error {
		var m lorawan.JoinAcceptPayload
		return m.UnmarshalBinary(false, b)
	},
	"JoinRequest.Unmarshal": func(b []byte, k lorawan.AES128Key) error {
		var m lorawan.JoinRequestPayload
		return m.UnmarshalBinary(true, b)
	},
	"Rejoin02.Unmarshal": func(b []byte, k lorawan.AES128Key) error {
		var m lorawan.RejoinRequestType02Payload
		return m.UnmarshalBinary(true, b)
	},
	"Rejoin1.Unmarshal": func(b []byte, k lorawan.AES128Key) error {
		var m lorawan.RejoinRequestType1Payload
		return m.UnmarshalBinary(true, b)
	},
	"MACPayload.up": func(b []byte, k lorawan.AES128Key) error { var m lorawan.MACPayload; return m.UnmarshalBinary(true, b) },
	"clocksync.up":  func(b []byte, k lorawan.AES128Key) error { var c clocksync.Commands; return c.UnmarshalBinary(true, b) },
	"clocksync.down": func(b []byte, k lorawan.AES128Key) error {
		var c clocksync.Commands
		return c.UnmarshalBinary(false, b)
	},
	"multicastsetup.up": func(b []byte, k lorawan.AES128Key) error {
		var c multicastsetup.Commands
		return c.UnmarshalBinary(true, b)
	},
	"multicastsetup.down": func(b []byte, k lorawan.AES128Key) error {
		var c multicastsetup.Commands
		return c.UnmarshalBinary(false, b)
	},
	"fragmentation.up": func(b []byte, k lorawan.AES128Key) error {
		var c fragmentation.Commands
		return c.UnmarshalBinary(true, b)
	},
	"fragmentation.down": func(b []byte, k lorawan.AES128Key) error {
		var c fragmentation.Commands
		return c.UnmarshalBinary(false, b)
	},
	"firmwaremanagement.up": func(b []byte, k lorawan.AES128Key) error {
		var c firmwaremanagement.Commands
		return c.UnmarshalBinary(true, b)
	},
	"firmwaremanagement.down": func(b []byte, k lorawan.AES128Key) error {
		var c firmwaremanagement.Commands
		return c.UnmarshalBinary(false, b)
	},
	"EUI64.UnmarshalText":       func(b []byte, k lorawan.AES128Key) error { var x lorawan.EUI64; return x.UnmarshalText(b) },
	"DevAddr.UnmarshalText":     func(b []byte, k lorawan.AES128Key) error { var x lorawan.DevAddr; return x.UnmarshalText(b) },
	"NetID.UnmarshalText":       func(b []byte, k lorawan.AES128Key) error { var x lorawan.NetID; return x.UnmarshalText(b) },
	"AES128Key.UnmarshalText":   func(b []byte, k lorawan.AES128Key) error { var x lorawan.AES128Key; return x.UnmarshalText(b) },
	"EUI64.UnmarshalBinary":     func(b []byte, k lorawan.AES128Key) error { var x lorawan.EUI64; return x.UnmarshalBinary(b) },
	"DLSettings.UnmarshalText":  func(b []byte, k lorawan.AES128Key) error { var x lorawan.DLSettings; return x.UnmarshalText(b) },
	"HEXBytes.UnmarshalText":    func(b []byte, k lorawan.AES128Key) error { var x backend.HEXBytes; return x.UnmarshalText(b) },
	"ISO8601Time.UnmarshalText": func(b []byte, k lorawan.AES128Key) error { var x backend.ISO8601Time; return x.UnmarshalText(b) },
	"Frequency.UnmarshalJSON":   func(b []byte, k lorawan.AES128Key) error { var x backend.Frequency; return x.UnmarshalJSON(b) },
	"Percentage.UnmarshalJSON":  func(b []byte, k lorawan.AES128Key) error { var x backend.Percentage; return x.UnmarshalJSON(b) },
	"KeyEnvelope.Unwrap": func(b []byte, k lorawan.AES128Key) error {
		e := backend.KeyEnvelope{KEKLabel: "x", AESKey: backend.HEXBytes(b)}
		_, err := e.Unwrap(k[:])
		return err
	},
	"json.JoinReqPayload":     jsonInto(func() interface{} { return &backend.JoinReqPayload{} }),
	"json.JoinAnsPayload":     jsonInto(func() interface{} { return &backend.JoinAnsPayload{} }),
	"json.PRStartReqPayload":  jsonInto(func() interface{} { return &backend.PRStartReqPayload{} }),
	"json.HRStartAnsPayload":  jsonInto(func() interface{} { return &backend.HRStartAnsPayload{} }),
	"json.XmitDataReqPayload": jsonInto(func() interface{} { return &backend.XmitDataReqPayload{} }),
	"json.ProfileAnsPayload":  jsonInto(func() interface{} { return &backend.ProfileAnsPayload{} }),
}
var entryNames []string

// protoDict: constants the protocols use (key-wrap IVs of RFC 3394 / 5649, block prefixes, all-zero / all-one runs, text markers)
var protoDict = [][]byte{{0xa6, 0xa6, 0xa6, 0xa6, 0xa6, 0xa6, 0xa6, 0xa6}, {0xa6, 0x59, 0x59, 0xa6, 0, 0, 0, 16}, {0, 0, 0, 0, 0, 0, 0, 0}, {0xff, 0xff, 0xff, 0xff, 0xff, 0xff, 0xff, 0xff},
	{0x49, 0, 0, 0, 0}, {0x01, 0, 0, 0, 0}, {0x20}, {0xe0}, {0x00}, {0xff}, {'0', 'x'}, {'"', '"'}, {'n', 'u', 'l', 'l'}, {0x80}, {0x01}}

func init() {
	for k := range entries {
		entryNames = append(entryNames, k)
	}
	sort.Strings(entryNames)
}

func totalEvent(c *ctx, name string, b []byte) M {
	in, backing := withSpare(b) // the input is a sub-slice with spare capacity: writes beyond it are observed too
	before := string(backing)
	k := c.key()
	inflight("total/"+name, b)
	res, _ := observe(func() error { return entries[name](in, k) })
	// ... and the same bytes as an exactly-sized slice (capacity = length): nothing may depend on what lies behind the input
	exact := make([]byte, len(b))
	copy(exact, b)
	res2, _ := observe(func() error { return entries[name](exact[:len(b):len(b)], k) })
	if res == "" || res == "error" {
		if res2 != "" && res2 != "error" {
			res = res2
		} else if res2 != res {
			res = "differs-by-capacity"
		}
	}
	return M{"ev": "total", "entry": name, "len": len(b), "err": res, "intact": string(backing) == before && string(exact) == string(b), "head": bs(b[:min(len(b), 24)])}
}

func min(a, b int) int {
	if a < b {
		return a
	}
	return b
}

// textual inputs for the text / JSON entry points
func (c *ctx) genText() []byte {
	samples := []string{"", "0x", "0X01", "zz", "0102", "010203", "0102030405060708", "2020-01-01T00:00:00Z", "2020-13-45T99:00:00+25:00", "0.29", "868.1", "-1", "1e400", "NaN", "null", "{}", "[]", "\"x\"",
		`{"DevEUI":"01"}`, `{"DevEUI":"0102030405060708","PHYPayload":"zz"}`, `{"PHYPayload":"0x00","DLSettings":"ff","RxDelay":"1"}`, `{"ULMetaData":{"RecvTime":"x"}}`, `{"ULMetaData":{"GWInfo":[{"ID":"1"}]}}`,
		`{"Lifetime":1e99}`, `{"DeviceProfile":{"RXFreq2":"x","FactoryPresetFreqs":[1,"2"]}}`, `{"TransactionID":-1}`, `{"TransactionID":4294967296}`, `{"VSExtension":{"Object":[1,2,{"a":null}]}}`}
	switch c.rnd.Intn(4) {
	case 0:
		return []byte(samples[c.rnd.Intn(len(samples))])
	case 1:
		s := []byte(samples[c.rnd.Intn(len(samples))])
		if len(s) > 0 {
			s[c.rnd.Intn(len(s))] = byte(c.rnd.Intn(256))
		}
		return s
	case 2:
		return []byte(base64.StdEncoding.EncodeToString(c.genBytes()))
	default:
		return c.bytesN(c.rnd.Intn(40))
	}
}

func drvTotal(c *ctx) error {
	switch c.mode {
	case "random":
		for i := 0; i < c.n; i++ {
			name := entryNames[i%len(entryNames)]
			var b []byte
			switch c.rnd.Intn(6) {
			case 5: // a few tokens from a dictionary of constants the protocols use (key-wrap IVs, block prefixes, all-zero / all-one runs)
				dict := protoDict
				for k := c.rnd.Intn(7); k > 0; k-- {
					b = append(b, dict[c.rnd.Intn(len(dict))]...)
					if c.rnd.Intn(4) == 0 {
						b = append(b, c.bytesN(c.rnd.Intn(9))...)
					}
				}
			case 0:
				b = c.bytesN(c.rnd.Intn(513))
			case 1:
				b = c.genText()
			case 2:
				b = c.bytesN(c.rnd.Intn(34))
			default:
				b = c.genBytes()
			}
			c.emit(totalEvent(c, name, b))
		}
	case "small": // EVERY input of length 0..2 over a punctuation/hex alphabet, for every entry point, plus quoted forms
		alpha := []byte{'0', '1', '9', 'a', 'f', 'F', 'g', 'x', 'X', '"', '{', '}', '[', ']', ':', ',', '-', '+', '.', 'e', 'T', 'Z', ' ', '\\', '=', 0x00, 0x80, 0xff}
		var ins [][]byte
		ins = append(ins, []byte{})
		for _, a := range alpha {
			ins = append(ins, []byte{a})
			for _, b := range alpha {
				ins = append(ins, []byte{a, b})
			}
		}
		hexish := []byte{'0', '1', 'f', 'x', 'X', 'g'}
		quoted := func(s []byte) []byte { return append(append([]byte{'"'}, s...), '"') }
		ins = append(ins, quoted(nil))
		for _, a := range hexish {
			ins = append(ins, quoted([]byte{a}))
			for _, b := range hexish {
				ins = append(ins, quoted([]byte{a, b}))
				for _, d := range hexish {
					ins = append(ins, []byte{a, b, d})
				}
			}
		}
		// every dictionary token alone and every ordered pair of tokens
		for _, a := range protoDict {
			ins = append(ins, append([]byte{}, a...))
			for _, b := range protoDict {
				ins = append(ins, append(append([]byte{}, a...), b...))
			}
		}
		for _, name := range entryNames {
			for _, b := range ins {
				c.emit(totalEvent(c, name, b))
			}
		}
	case "cases": // shapes enumerated by TLC from the specification's guard structure
		for _, cs := range c.cases {
			name := cs["entry"].(string)
			if _, ok := entries[name]; !ok {
				return fmt.Errorf("case for unknown entry point %q", name)
			}
			c.emit(totalEvent(c, name, unbs(cs["bytes"])))
		}
	default:
		return fmt.Errorf("total: unknown mode %q", c.mode)
	}
	return nil
}
