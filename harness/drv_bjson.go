package main

// Driver family `bjson` (C17): backend-interface JSON types, the 20 payload structs, key envelopes.

import (
	"bytes"
	"encoding/hex"
	"encoding/json"
	"fmt"
	"math"
	"reflect"
	"strings"
	"time"

	"github.com/brocaar/lorawan"
	"github.com/brocaar/lorawan/backend"
)

func init() { families["bjson"] = drvBJSON }

func codes(b []byte) []int { return bs(b) }

// limbs of a non-negative int64 (base 10^4, little endian)
func numEvent(typ string, v int64) M {
	ev := M{"ev": "num", "type": typ, "value": limbs(v)}
	var txt []byte
	var back int64
	res, _ := observeFast(func() error {
		var err error
		if typ == "Frequency" {
			f := backend.Frequency(v)
			txt, err = json.Marshal(f)
			if err != nil {
				return err
			}
			var g backend.Frequency
			if err = json.Unmarshal(txt, &g); err != nil {
				return err
			}
			back = int64(g)
		} else {
			p := backend.Percentage(v)
			txt, err = json.Marshal(p)
			if err != nil {
				return err
			}
			var g backend.Percentage
			if err = json.Unmarshal(txt, &g); err != nil {
				return err
			}
			back = int64(g)
		}
		return nil
	})
	ev["err"] = res
	ev["text"] = codes(txt)
	if back >= 0 {
		ev["back"] = limbs(back)
	} else {
		ev["back"] = []int{-1}
	}
	return ev
}

func hexEvent(c *ctx, b []byte) M {
	ev := M{"ev": "hex", "val": bs(b)}
	hb := backend.HEXBytes(b)
	txt, _ := hb.MarshalText()
	ev["text"] = codes(txt)
	try := func(name string, t []byte) {
		var out backend.HEXBytes
		res, _ := observeFast(func() error { return out.UnmarshalText(t) })
		ev[name+"_err"] = res
		ev[name] = bs(out)
	}
	try("un", txt)
	try("un0x", append([]byte("0x"), txt...))
	try("unupper", []byte(strings.ToUpper(string(txt))))
	if len(txt) > 0 {
		try("unodd", txt[:len(txt)-1])
	}
	try("unbad", append([]byte("zz"), txt...))
	// inside a JSON document
	doc, _ := json.Marshal(struct{ X backend.HEXBytes }{hb})
	var back struct{ X backend.HEXBytes }
	res, _ := observeFast(func() error { return json.Unmarshal(doc, &back) })
	ev["json_err"] = res
	ev["json"] = bs(back.X)
	return ev
}

// backendReuseEvents: the text / JSON leaf types decoded twice into ONE variable (first a longer, then a shorter value)
func backendReuseEvents(c *ctx) []M {
	hexText := func(n int) []byte { return []byte(hex.EncodeToString(c.bytesN(n))) }
	var out []M
	out = append(out, reuseEvent("backend/HEXBytes", func() interface{} { return &backend.HEXBytes{} },
		func(p interface{}, b []byte) error { return p.(*backend.HEXBytes).UnmarshalText(b) },
		func(p interface{}) interface{} { return bs(*p.(*backend.HEXBytes)) }, hexText(4+c.rnd.Intn(20)), hexText(c.rnd.Intn(8))))
	type phyDoc struct {
		PHYPayload backend.HEXBytes
	}
	doc := func(n int) []byte { return []byte(`{"PHYPayload":"` + string(hexText(n)) + `"}`) }
	out = append(out, reuseEvent("backend/json-HEXBytes-field", func() interface{} { return &phyDoc{} },
		func(p interface{}, b []byte) error { return json.Unmarshal(b, p) },
		func(p interface{}) interface{} { return bs(p.(*phyDoc).PHYPayload) }, doc(4+c.rnd.Intn(20)), doc(c.rnd.Intn(8))))
	num := func(max int) []byte { return []byte(fmt.Sprintf("%d.%06d", c.rnd.Intn(max), c.rnd.Intn(1000000))) }
	out = append(out, reuseEvent("backend/Frequency", func() interface{} { f := backend.Frequency(0); return &f },
		func(p interface{}, b []byte) error { return p.(*backend.Frequency).UnmarshalJSON(b) },
		func(p interface{}) interface{} { return le32(uint32(*p.(*backend.Frequency))) }, num(3000), num(900)))
	pc := func() []byte { return []byte(fmt.Sprintf("0.%02d", c.rnd.Intn(100))) }
	out = append(out, reuseEvent("backend/Percentage", func() interface{} { f := backend.Percentage(0); return &f },
		func(p interface{}, b []byte) error { return p.(*backend.Percentage).UnmarshalJSON(b) },
		func(p interface{}) interface{} { return int(*p.(*backend.Percentage)) }, pc(), pc()))
	ts := func() []byte {
		t, _ := backend.ISO8601Time(time.Unix(c.rnd.Int63n(4102444800), 0).UTC()).MarshalText()
		return t
	}
	out = append(out, reuseEvent("backend/ISO8601Time", func() interface{} { return &backend.ISO8601Time{} },
		func(p interface{}, b []byte) error { return p.(*backend.ISO8601Time).UnmarshalText(b) },
		func(p interface{}) interface{} { return utcVal(time.Time(*p.(*backend.ISO8601Time)).UTC()) }, ts(), ts()))
	return out
}

func timeEvent(t time.Time) M {
	ev := M{"ev": "time", "utc": utcVal(t.UTC()), "zone": func() int { _, o := t.Zone(); return o }()}
	it := backend.ISO8601Time(t)
	txt, _ := it.MarshalText()
	ev["text"] = codes(txt)
	var back backend.ISO8601Time
	res, _ := observeFast(func() error { return back.UnmarshalText(txt) })
	ev["err"] = res
	ev["back"] = utcVal(time.Time(back).UTC())
	return ev
}

func envelopeEvent(c *ctx) M {
	klen := c.pick(16, 24, 32)
	kek := c.bytesN(klen)
	key := c.key()
	label := ""
	if c.rnd.Intn(4) != 0 {
		label = "kek-" + fmt.Sprint(c.rnd.Intn(10))
	}
	ev := M{"ev": "envelope", "kek": bs(kek), "label": label != "", "key": bs(key[:])}
	var env *backend.KeyEnvelope
	res, _ := observeFast(func() error {
		var err error
		env, err = backend.NewKeyEnvelope(label, kek, key)
		return err
	})
	ev["err"] = res
	if res != "" {
		return ev
	}
	ev["envlabel"] = env.KEKLabel != ""
	ev["aeskey"] = bs(env.AESKey)
	// unwrap as is, and with one tampered bit / wrong kek
	try := func(name string, k []byte, ct []byte) {
		e2 := backend.KeyEnvelope{KEKLabel: env.KEKLabel, AESKey: backend.HEXBytes(ct)}
		var out lorawan.AES128Key
		r, _ := observeFast(func() error {
			var err error
			out, err = e2.Unwrap(k)
			return err
		})
		ev[name+"_err"] = r
		ev[name] = bs(out[:])
		ev[name+"_ct"] = bs(ct)
		ev[name+"_kek"] = bs(k)
	}
	if label != "" {
		// the caller rotates the KEK IN PLACE (same buffer, same label, same length) and wraps again: the second envelope is
		// the wrapping under the new KEK
		for i := range kek {
			kek[i] ^= byte(1 + c.rnd.Intn(255))
		}
		ev["kek"] = bs(kek)
		env = nil
		r2, _ := observeFast(func() error {
			var err error
			env, err = backend.NewKeyEnvelope(label, kek, key)
			return err
		})
		ev["err"] = r2
		if r2 != "" || env == nil {
			return ev
		}
		ev["envlabel"] = env.KEKLabel != ""
		ev["aeskey"] = bs(env.AESKey)
		try("unwrap", kek, env.AESKey)
		t := append([]byte{}, env.AESKey...)
		t[c.rnd.Intn(len(t))] ^= 1 << uint(c.rnd.Intn(8))
		try("tampered", kek, t)
		k2 := append([]byte{}, kek...)
		k2[c.rnd.Intn(len(k2))] ^= 1 << uint(c.rnd.Intn(8))
		try("wrongkek", k2, env.AESKey)
		// a ciphertext with stray bytes appended (1..9) or with its tail cut off (1..17 bytes)
		try("strayed", kek, append(append([]byte{}, env.AESKey...), c.bytesN(1+c.rnd.Intn(9))...))
		try("cut", kek, append([]byte{}, env.AESKey[:len(env.AESKey)-1-c.rnd.Intn(17)]...))
	}
	return ev
}

// ---- random struct values ---------------------------------------------------------------------------

var (
	tHex  = reflect.TypeOf(backend.HEXBytes{})
	tTime = reflect.TypeOf(backend.ISO8601Time{})
	tFreq = reflect.TypeOf(backend.Frequency(0))
	tPerc = reflect.TypeOf(backend.Percentage(0))
	tDLS  = reflect.TypeOf(lorawan.DLSettings{})
	tRaw  = reflect.TypeOf(json.RawMessage{})
)

func (c *ctx) randString() string {
	const alpha = "abcXYZ019-_. /\"\\é"
	n := c.rnd.Intn(8)
	r := []rune(alpha)
	var sb strings.Builder
	for i := 0; i < n; i++ {
		sb.WriteRune(r[c.rnd.Intn(len(r))])
	}
	return sb.String()
}

func (c *ctx) fill(v reflect.Value, exact bool) {
	t := v.Type()
	switch {
	case t == tHex:
		if c.rnd.Intn(3) > 0 {
			v.SetBytes(c.bytesN(1 + c.rnd.Intn(12)))
		}
		if c.rnd.Intn(40) == 0 {
			v.SetBytes(c.bytesN(c.pick(255, 256, 257, 300, 600)))
		}
		return
	case t == tRaw:
		return
	case t == tTime:
		sec := c.rnd.Int63n(4102444800)
		if c.rnd.Intn(3) == 0 { // instants that are special to an implementation: the Unix epoch second, day and leap-day edges
			sec = int64(c.pick(0, 0, 0, 0, 1, 59, 60, 3599, 86399, 86400, 951782399, 951782400, 2147483647, 2147483648, 4102444799))
		}
		ts := time.Unix(sec, int64(c.pick(0, 0, 123456789))).In(time.FixedZone("", c.pick(0, 0, 3600, -18000, 19800, -12600, -34200, -1800, 20700)))
		v.Set(reflect.ValueOf(backend.ISO8601Time(ts)))
		return
	case t == tFreq:
		if exact {
			v.SetInt(int64(c.rnd.Intn(40000)) * 100000) // multiples of 100 kHz
		} else {
			v.SetInt(int64(c.rnd.Int63n(1 << 32)))
		}
		return
	case t == tPerc:
		v.SetInt(int64(c.rnd.Intn(101)))
		return
	case t == tDLS:
		v.Set(reflect.ValueOf(lorawan.DLSettings{OptNeg: c.rnd.Intn(2) == 0, RX2DataRate: uint8(c.rnd.Intn(16)), RX1DROffset: uint8(c.rnd.Intn(8))}))
		return
	}
	switch v.Kind() {
	case reflect.String:
		switch t.Name() {
		case "RatePolicy":
			v.SetString([]string{"Drop", "Mark"}[c.rnd.Intn(2)])
		case "RoamingType":
			v.SetString([]string{"Passive", "Handover"}[c.rnd.Intn(2)])
		case "MessageType": // every message type of the Backend Interfaces specification (and now and then any other text)
			all := []string{"JoinReq", "JoinAns", "RejoinReq", "RejoinAns", "AppSKeyReq", "AppSKeyAns", "PRStartReq", "PRStartAns", "PRStartNotif", "PRStopReq", "PRStopAns",
				"HRStartReq", "HRStartAns", "HRStopReq", "HRStopAns", "HomeNSReq", "HomeNSAns", "ProfileReq", "ProfileAns", "XmitDataReq", "XmitDataAns", "XmitLocReq", "XmitLocAns"}
			v.SetString(all[c.rnd.Intn(len(all))])
			if c.rnd.Intn(10) == 0 {
				v.SetString(c.randString())
			}
		case "ResultCode": // every result code as the specification spells it, as the package spells it, and any other text
			all := []string{"Success", "MICFailed", "JoinReqFailed", "NoRoamingAgreement", "DevRoamingDisallowed", "RoamingActDisallowed", "ActivationDisallowed", "UnknownDevEUI",
				"UnknownDevAddr", "UnknownSender", "UnknownReceiver", "Deferred", "XmitFailed", "InvalidFPort", "InvalidProtocolVersion", "StaleDeviceProfile", "MalformedRequest",
				"FrameSizeError", "Other", string(backend.UnknownReceiver), string(backend.RoamingActDisallowed), "success", "SUCCESS", ""}
			v.SetString(all[c.rnd.Intn(len(all))])
			if c.rnd.Intn(10) == 0 {
				v.SetString(c.randString())
			}
		default:
			v.SetString(c.randString())
		}
	case reflect.Bool:
		v.SetBool(c.rnd.Intn(2) == 0)
	case reflect.Int, reflect.Int64:
		v.SetInt(int64(c.rnd.Intn(2000000) - 1000))
	case reflect.Uint8:
		v.SetUint(uint64(c.rnd.Intn(256)))
	case reflect.Uint32:
		v.SetUint(uint64(c.rnd.Uint32()))
	case reflect.Float64:
		switch c.rnd.Intn(3) {
		case 0:
			v.SetFloat(float64(c.rnd.Intn(20000)-10000) / 10)
		case 1:
			v.SetFloat(c.rnd.NormFloat64() * 100)
		default:
			v.SetFloat(math.Float64frombits(c.rnd.Uint64()&0x7fefffffffffffff | uint64(c.rnd.Intn(2))<<63))
		}
	case reflect.Array:
		for i := 0; i < v.Len(); i++ {
			v.Index(i).SetUint(uint64(c.rnd.Intn(256)))
		}
	case reflect.Ptr:
		if c.rnd.Intn(2) == 0 {
			nv := reflect.New(t.Elem())
			c.fill(nv.Elem(), exact)
			v.Set(nv)
		}
	case reflect.Slice:
		n := c.rnd.Intn(3)
		if n == 0 && c.rnd.Intn(2) == 0 {
			return // nil slice
		}
		s := reflect.MakeSlice(t, n, n)
		for i := 0; i < n; i++ {
			c.fill(s.Index(i), exact)
		}
		v.Set(s)
	case reflect.Struct:
		for i := 0; i < v.NumField(); i++ {
			if v.Field(i).CanSet() {
				c.fill(v.Field(i), exact)
			}
		}
	}
}

var structMakers = map[string]func() interface{}{
	"JoinReqPayload": func() interface{} { return &backend.JoinReqPayload{} }, "JoinAnsPayload": func() interface{} { return &backend.JoinAnsPayload{} },
	"RejoinReqPayload": func() interface{} { return &backend.RejoinReqPayload{} }, "RejoinAnsPayload": func() interface{} { return &backend.RejoinAnsPayload{} },
	"AppSKeyReqPayload": func() interface{} { return &backend.AppSKeyReqPayload{} }, "AppSKeyAnsPayload": func() interface{} { return &backend.AppSKeyAnsPayload{} },
	"PRStartReqPayload": func() interface{} { return &backend.PRStartReqPayload{} }, "PRStartAnsPayload": func() interface{} { return &backend.PRStartAnsPayload{} },
	"PRStopReqPayload": func() interface{} { return &backend.PRStopReqPayload{} }, "PRStopAnsPayload": func() interface{} { return &backend.PRStopAnsPayload{} },
	"HRStartReqPayload": func() interface{} { return &backend.HRStartReqPayload{} }, "HRStartAnsPayload": func() interface{} { return &backend.HRStartAnsPayload{} },
	"HRStopReqPayload": func() interface{} { return &backend.HRStopReqPayload{} }, "HRStopAnsPayload": func() interface{} { return &backend.HRStopAnsPayload{} },
	"HomeNSReqPayload": func() interface{} { return &backend.HomeNSReqPayload{} }, "HomeNSAnsPayload": func() interface{} { return &backend.HomeNSAnsPayload{} },
	"ProfileReqPayload": func() interface{} { return &backend.ProfileReqPayload{} }, "ProfileAnsPayload": func() interface{} { return &backend.ProfileAnsPayload{} },
	"XmitDataReqPayload": func() interface{} { return &backend.XmitDataReqPayload{} }, "XmitDataAnsPayload": func() interface{} { return &backend.XmitDataAnsPayload{} },
}
var structNames []string

func init() {
	for k := range structMakers {
		structNames = append(structNames, k)
	}
	// deterministic order
	for i := range structNames {
		for j := i + 1; j < len(structNames); j++ {
			if structNames[j] < structNames[i] {
				structNames[i], structNames[j] = structNames[j], structNames[i]
			}
		}
	}
}

// rewrite turns a JSON document into a tree TLC's reader represents faithfully: numbers become
// {"num": <character codes of the numeral>}, null becomes {"null": true}; keys, strings, booleans and
// nesting are untouched.  Purely lexical.
func rewrite(doc []byte) (interface{}, error) {
	d := json.NewDecoder(bytes.NewReader(doc))
	d.UseNumber()
	var v interface{}
	if err := d.Decode(&v); err != nil {
		return nil, err
	}
	var rw func(x interface{}) interface{}
	rw = func(x interface{}) interface{} {
		switch t := x.(type) {
		case nil:
			return M{"null": true}
		case json.Number:
			return M{"num": codes([]byte(t.String()))}
		case map[string]interface{}:
			o := M{}
			for k, e := range t {
				o[k] = rw(e)
			}
			if len(o) == 0 {
				return M{"emptyobj": true}
			}
			return o
		case []interface{}:
			o := make([]interface{}, len(t))
			for i := range t {
				o[i] = rw(t[i])
			}
			return o
		case string:
			return M{"str": codes([]byte(t))}
		default:
			return x
		}
	}
	return rw(v), nil
}

// timesOf: every timestamp reachable in a payload value (document order of the Go fields), as day / second of the UTC
// instant - what the value says, independently of how its document is written
func timesOf(v reflect.Value, out *[]interface{}) {
	switch {
	case v.Type() == tTime:
		u := utcVal(time.Time(v.Interface().(backend.ISO8601Time)).UTC())
		*out = append(*out, M{"d": u["d"], "s": u["s"]})
	case v.Kind() == reflect.Ptr || v.Kind() == reflect.Interface:
		if !v.IsNil() {
			timesOf(v.Elem(), out)
		}
	case v.Kind() == reflect.Struct:
		for i := 0; i < v.NumField(); i++ {
			if v.Type().Field(i).PkgPath == "" && v.Type().Field(i).Tag.Get("json") != "-" {
				timesOf(v.Field(i), out)
			}
		}
	case v.Kind() == reflect.Slice && v.Type().Elem().Kind() != reflect.Uint8:
		for i := 0; i < v.Len(); i++ {
			timesOf(v.Index(i), out)
		}
	}
}

func (c *ctx) structEvent(name string, exact bool) (M, error) {
	p := structMakers[name]()
	c.fill(reflect.ValueOf(p).Elem(), exact)
	ev := M{"ev": "struct", "name": name, "exact": exact}
	doc, err := json.Marshal(p)
	if err != nil {
		ev["err"] = "error"
		return ev, nil
	}
	q := structMakers[name]()
	var doc2 []byte
	res, _ := observeFast(func() error {
		if err := json.Unmarshal(doc, q); err != nil {
			return err
		}
		var err error
		doc2, err = json.Marshal(q)
		return err
	})
	ev["err"] = res
	d1, err := rewrite(doc)
	if err != nil {
		return nil, err
	}
	ev["doc"] = d1
	// the same value marshalled BY VALUE (as a field of another struct or a map element would be): the document is the same
	if dv, err := json.Marshal(reflect.ValueOf(p).Elem().Interface()); err == nil {
		if d3, err := rewrite(dv); err == nil {
			ev["docv"] = d3
		}
	}
	if res == "" {
		d2, err := rewrite(doc2)
		if err != nil {
			return nil, err
		}
		ev["back"] = d2
		// the timestamps of the value that was sent and of the value that arrived (to one second)
		t1, t2 := []interface{}{}, []interface{}{}
		timesOf(reflect.ValueOf(p).Elem(), &t1)
		timesOf(reflect.ValueOf(q).Elem(), &t2)
		ev["times"], ev["backtimes"] = t1, t2
	}
	return ev, nil
}

func drvBJSON(c *ctx) error {
	switch c.mode {
	case "percent":
		for v := 0; v <= 1000; v++ {
			c.emit(numEvent("Percentage", int64(v)))
		}
	case "freq":
		for k := 0; k <= 42949; k++ { // all multiples of 100 kHz, and +-1..3 Hz around them
			c.emit(numEvent("Frequency", int64(k)*100000))
			if k%8 == 0 {
				for _, d := range []int64{-3, -1, 1, 2} {
					if v := int64(k)*100000 + d; v >= 0 {
						c.emit(numEvent("Frequency", v))
					}
				}
			}
		}
		for i := 0; i < c.n; i++ {
			switch c.rnd.Intn(3) {
			case 0:
				c.emit(numEvent("Frequency", c.rnd.Int63n(1<<32)))
			case 1:
				c.emit(numEvent("Frequency", 863000000+c.rnd.Int63n(65000000)))
			default:
				c.emit(numEvent("Frequency", int64(c.rnd.Intn(43000))*100000+c.rnd.Int63n(2000)-1000+1000))
			}
		}
	case "text":
		for i := 0; i < c.n; i++ {
			hn := c.rnd.Intn(24)
			if c.rnd.Intn(10) == 0 { // long values: tokens and vendor extensions are not bounded by the frame size
				hn = c.pick(127, 128, 255, 256, 257, 300, 512, 1000, 1024, 4096)
			}
			c.emit(hexEvent(c, c.bytesN(hn)))
			ts := time.Unix(c.rnd.Int63n(4102444800), int64(c.pick(0, 1, 500000000, 999999999))).In(time.FixedZone("", c.pick(0, 3600, -18000, 19800, 45*60, 1172, -3599, 30, 86399-3600*10, -12600, -34200, -1800, -(11*3600+45*60), 12*3600+45*60, -60, 60, -(3600+60))))
			c.emit(timeEvent(ts))
			if i%8 == 0 {
				for _, ev := range backendReuseEvents(c) {
					c.emit(ev)
				}
			}
		}
	case "envelope":
		for i := 0; i < c.n; i++ {
			c.emit(envelopeEvent(c))
		}
	case "structs":
		for i := 0; i < c.n; i++ {
			for _, name := range structNames {
				ev, err := c.structEvent(name, i%2 == 0)
				if err != nil {
					return err
				}
				c.emit(ev)
			}
		}
	default:
		return fmt.Errorf("bjson: unknown mode %q", c.mode)
	}
	return nil
}
