package main

// Driver family `client` (extended coverage, no listed property): the synchronous backend client
// (backend.NewClient without Redis) against a scripted HTTP server on the loopback interface.
// One event per API call: what the caller gave, what the server saw, what the server answered and
// what the client returned.  The asynchronous (Redis) mode cannot run in this sandbox; its protocol
// is covered by the design model spec/models/BackendClientModel.tla only.

import (
	"context"
	"encoding/hex"
	"encoding/json"
	"fmt"
	"io/ioutil"
	"net/http"
	"net/http/httptest"
	"sync"

	"github.com/brocaar/lorawan"
	"github.com/brocaar/lorawan/backend"
)

func init() { families["client"] = drvClient }

var baseKeys = []string{"ProtocolVersion", "SenderID", "ReceiverID", "TransactionID", "MessageType", "SenderToken", "ReceiverToken", "VSExtension"}

// restOf: the JSON document without the base-payload members, re-marshalled (Go sorts map keys)
func restOf(doc []byte) (string, M, bool) {
	var m map[string]interface{}
	if err := json.Unmarshal(doc, &m); err != nil {
		return "", nil, false
	}
	base := M{}
	for _, k := range baseKeys {
		if v, ok := m[k]; ok {
			base[k] = v
		}
		delete(m, k)
	}
	b, _ := json.Marshal(m)
	return string(b), base, true
}

func strOf(v interface{}) string {
	if s, ok := v.(string); ok {
		return s
	}
	return ""
}

func txidOf(v interface{}) []int {
	if f, ok := v.(float64); ok && f >= 0 && f < 4294967296 {
		return le32(uint32(f))
	}
	return []int{}
}

type clientScript struct {
	mode string // success | code | garbage | empty | status500
	code string
}

func drvClient(c *ctx) error {
	var mu sync.Mutex
	var script clientScript
	var seenBody []byte
	var seenAuth, seenCT, seenMethod string
	var sentBody []byte
	ansTypes := map[string]string{"JoinReq": "JoinAns", "RejoinReq": "RejoinAns", "PRStartReq": "PRStartAns", "PRStopReq": "PRStopAns", "XmitDataReq": "XmitDataAns", "ProfileReq": "ProfileAns", "HomeNSReq": "HomeNSAns"}
	srv := httptest.NewServer(http.HandlerFunc(func(w http.ResponseWriter, r *http.Request) {
		mu.Lock()
		defer mu.Unlock()
		seenBody, _ = ioutil.ReadAll(r.Body)
		seenAuth, seenCT, seenMethod = r.Header.Get("Authorization"), r.Header.Get("Content-Type"), r.Method
		var base backend.BasePayload
		json.Unmarshal(seenBody, &base)
		ans := map[string]interface{}{"ProtocolVersion": "1.0", "SenderID": base.ReceiverID, "ReceiverID": base.SenderID, "TransactionID": base.TransactionID,
			"MessageType": ansTypes[string(base.MessageType)], "Result": map[string]interface{}{"ResultCode": script.code, "Description": "scripted"}}
		switch script.mode {
		case "garbage":
			sentBody = []byte(`{"Result": {{`)
		case "empty":
			sentBody = []byte{}
		default:
			sentBody, _ = json.Marshal(ans)
		}
		if script.mode == "status500" {
			w.WriteHeader(500)
		}
		w.Write(sentBody)
	}))
	defer srv.Close()

	codes := []string{"MICFailed", "JoinReqFailed", "NoRoamingAgreement", "UnknownDevEUI", "UnknownDevAddr", "Deferred", "XmitFailed", "MalformedRequest", "Other", "", "success"}
	methods := []string{"JoinReq", "RejoinReq", "PRStartReq", "PRStopReq", "XmitDataReq", "ProfileReq", "HomeNSReq", "SendAnswer"}
	for i := 0; i < c.n; i++ {
		sender, receiver := hex.EncodeToString(c.bytesN(3)), hex.EncodeToString(c.bytesN(8))
		auth := ""
		if c.rnd.Intn(2) == 0 {
			auth = "Bearer " + hex.EncodeToString(c.bytesN(6))
		}
		cl, err := backend.NewClient(backend.ClientConfig{SenderID: sender, ReceiverID: receiver, Server: srv.URL, Authorization: auth})
		if err != nil {
			return err
		}
		method := methods[c.rnd.Intn(len(methods))]
		script = clientScript{mode: "success", code: "Success"}
		switch c.rnd.Intn(8) {
		case 0, 1:
			script = clientScript{mode: "code", code: codes[c.rnd.Intn(len(codes))]}
		case 2:
			script.mode = "garbage"
		case 3:
			script.mode = "empty"
		case 4:
			script.mode = "status500"
		}
		var txid uint32
		if c.rnd.Intn(3) != 0 {
			txid = c.rnd.Uint32()
		}
		// the caller's payload: base fields filled with junk that the client must overwrite (except a non-zero TransactionID)
		base := backend.BasePayload{ProtocolVersion: "9.9", SenderID: "junk-sender", ReceiverID: "junk-receiver", TransactionID: txid, MessageType: backend.MessageType("Junk")}
		if c.rnd.Intn(2) == 0 { // optional members of the base payload that the client must carry through
			base.SenderToken = backend.HEXBytes(c.bytesN(1 + c.rnd.Intn(6)))
			base.ReceiverToken = backend.HEXBytes(c.bytesN(1 + c.rnd.Intn(6)))
			base.VSExtension = backend.VSExtension{VendorID: backend.HEXBytes(c.bytesN(3)), Object: json.RawMessage(fmt.Sprintf(`{"k":%d}`, c.rnd.Intn(1000)))}
		}
		var dev lorawan.EUI64
		copy(dev[:], c.bytesN(8))
		phy := backend.HEXBytes(c.bytesN(1 + c.rnd.Intn(20)))
		life := c.rnd.Intn(100000)
		ctxb := context.Background()
		var given interface{}
		var gotBase backend.BasePayloadResult
		var callErr error
		if c.rnd.Intn(4) == 0 {
			// a call that fails before anything is sent (context already cancelled, or nobody listening): not recorded; whatever
			// it leaves behind must not reach the peer of the next call
			observe(func() error {
				cctx, cancel := context.WithCancel(context.Background())
				cancel()
				fcl := cl
				if c.rnd.Intn(2) == 0 {
					fcl, _ = backend.NewClient(backend.ClientConfig{SenderID: sender, ReceiverID: receiver, Server: "http://127.0.0.1:1/"})
					cctx = context.Background()
				}
				if fcl != nil {
					fcl.ProfileReq(cctx, backend.ProfileReqPayload{BasePayload: backend.BasePayload{TransactionID: c.rnd.Uint32()}, DevEUI: dev})
					fcl.SendAnswer(cctx, backend.XmitDataAnsPayload{})
				}
				return nil
			})
		}
		seenBody, sentBody = nil, nil
		res, _ := observe(func() error {
			switch method {
			case "JoinReq":
				pl := backend.JoinReqPayload{BasePayload: base, MACVersion: "1.0.3", PHYPayload: phy, DevEUI: dev, RxDelay: c.rnd.Intn(16)}
				given = pl
				a, e := cl.JoinReq(ctxb, pl)
				gotBase, callErr = a.BasePayloadResult, e
			case "RejoinReq":
				pl := backend.RejoinReqPayload{BasePayload: base, MACVersion: "1.1.0", PHYPayload: phy, DevEUI: dev, RxDelay: c.rnd.Intn(16)}
				given = pl
				a, e := cl.RejoinReq(ctxb, pl)
				gotBase, callErr = a.BasePayloadResult, e
			case "PRStartReq":
				pl := backend.PRStartReqPayload{BasePayload: base, PHYPayload: phy}
				given = pl
				a, e := cl.PRStartReq(ctxb, pl)
				gotBase, callErr = a.BasePayloadResult, e
			case "PRStopReq":
				pl := backend.PRStopReqPayload{BasePayload: base, DevEUI: dev, Lifetime: &life}
				given = pl
				a, e := cl.PRStopReq(ctxb, pl)
				gotBase, callErr = a.BasePayloadResult, e
			case "XmitDataReq":
				pl := backend.XmitDataReqPayload{BasePayload: base, PHYPayload: phy}
				given = pl
				a, e := cl.XmitDataReq(ctxb, pl)
				gotBase, callErr = a.BasePayloadResult, e
			case "ProfileReq":
				pl := backend.ProfileReqPayload{BasePayload: base, DevEUI: dev}
				given = pl
				a, e := cl.ProfileReq(ctxb, pl)
				gotBase, callErr = a.BasePayloadResult, e
			case "HomeNSReq":
				pl := backend.HomeNSReqPayload{BasePayload: base, DevEUI: dev}
				given = pl
				a, e := cl.HomeNSReq(ctxb, pl)
				gotBase, callErr = a.BasePayloadResult, e
			default: // SendAnswer posts the answer as it is (no stamping)
				pl := backend.XmitDataAnsPayload{BasePayloadResult: backend.BasePayloadResult{BasePayload: backend.BasePayload{ProtocolVersion: "1.0", SenderID: sender, ReceiverID: receiver, TransactionID: txid, MessageType: backend.XmitDataAns},
					Result: backend.Result{ResultCode: backend.Success}}}
				given = pl
				callErr = cl.SendAnswer(ctxb, pl)
			}
			return nil
		})
		mu.Lock()
		gdoc, _ := json.Marshal(given)
		grest, gbase, _ := restOf(gdoc)
		srest, sbase, sok := restOf(seenBody)
		opt := func(m M) []int {
			b, _ := json.Marshal(M{"SenderToken": m["SenderToken"], "ReceiverToken": m["ReceiverToken"], "VSExtension": m["VSExtension"]})
			return bs(b)
		}
		givenopt, seenopt := opt(gbase), opt(sbase)
		ids := M{"sender": bs([]byte(cl.GetSenderID())), "receiver": bs([]byte(cl.GetReceiverID())), "async": cl.IsAsync()}
		ev := M{"ev": "client", "ids": ids, "method": method, "panic": res, "givenopt": givenopt, "seenopt": seenopt, "cfg": M{"sender": bs([]byte(sender)), "receiver": bs([]byte(receiver)), "auth": bs([]byte(auth))},
			"giventx": le32(txid), "givenzero": txid == 0, "givenrest": bs([]byte(grest)), "givenbase": M{"msgtype": strOf(gbase["MessageType"])},
			"seen": M{"ok": sok, "http": seenMethod, "ct": bs([]byte(seenCT)), "auth": bs([]byte(seenAuth)), "rest": bs([]byte(srest)),
				"pv": strOf(sbase["ProtocolVersion"]), "sender": bs([]byte(strOf(sbase["SenderID"]))), "receiver": bs([]byte(strOf(sbase["ReceiverID"]))),
				"txid": txidOf(sbase["TransactionID"]), "msgtype": strOf(sbase["MessageType"])},
			"script": M{"mode": script.mode, "code": script.code},
			"ret": M{"err": errStr(callErr), "code": string(gotBase.Result.ResultCode), "sender": bs([]byte(gotBase.SenderID)), "receiver": bs([]byte(gotBase.ReceiverID)),
				"txid": le32(gotBase.TransactionID), "msgtype": string(gotBase.MessageType)}}
		mu.Unlock()
		c.emit(ev)
	}
	if c.n == 0 {
		return fmt.Errorf("client: n must be positive")
	}
	return nil
}

func errStr(e error) string {
	if e != nil {
		return "error"
	}
	return ""
}
