package main

import (
	"bytes"
	"encoding/json"
	"fmt"
	"io/ioutil"
	"math"
	"os"
	"os/exec"
	"path/filepath"
	"reflect"
	"sort"
	"strings"
	"sync"
	"sync/atomic"
	"time"

	"github.com/brocaar/lorawan"
)

func init() { families["maccmd"] = drvMacCmd }

// ---- generators (full Go field domains, biased to boundaries) ------------------------------------

func (c *ctx) genU8() int {
	switch c.rnd.Intn(4) {
	case 0:
		return c.rnd.Intn(256)
	case 1:
		return c.pick(0, 1, 2, 3, 7, 8, 15, 16, 17, 31, 32, 127, 128, 254, 255)
	default:
		return c.rnd.Intn(16)
	}
}

func (c *ctx) genFreq() uint32 {
	switch c.rnd.Intn(8) {
	case 0:
		return c.rnd.Uint32()
	case 1: // sub-GHz band frequencies, multiples of 100
		return uint32(400000000+c.rnd.Intn(600000000)) / 100 * 100
	case 2: // around the 24-bit limit
		return uint32(int64(16777216)*100 + int64(c.rnd.Intn(401)-200))
	case 3: // 2.4 GHz, 200 Hz grid and off-grid
		return uint32(2400000000) + uint32(c.rnd.Intn(1000000))*100
	case 4: // 1.2 .. 2.4 GHz
		return uint32(1200000000) + uint32(c.rnd.Intn(12000000))*100
	case 5:
		return uint32(c.rnd.Intn(1<<24)) * 100
	case 6:
		return uint32(c.rnd.Intn(1<<24))*100 + uint32(c.rnd.Intn(100))
	default:
		v := []uint32{0, 100, 99, 868100000, 1677721500, 1677721600, 1199999900, 1200000000, 2399999900, 2400000000, 2400000100, 2400000200, 3355443000, 3355443200, 3355443400, math.MaxUint32}
		return v[c.rnd.Intn(len(v))]
	}
}

func (c *ctx) genDur() time.Duration {
	switch c.rnd.Intn(8) {
	case 0:
		return time.Duration(c.rnd.Int63())
	case 1:
		return -time.Duration(c.rnd.Int63())
	case 2: // just around 2^32 s
		return time.Duration(int64(1)<<32)*time.Second + time.Duration(c.rnd.Int63n(4000000000)-2000000000)
	case 3: // exact 1/256 s multiples
		return time.Duration(c.rnd.Int63n(1<<32))*time.Second + time.Duration(c.rnd.Intn(256))*3906250
	case 4:
		return time.Duration(-c.rnd.Int63n(5000000000))
	default:
		return time.Duration(c.rnd.Int63n(1<<32))*time.Second + time.Duration(c.rnd.Int63n(1000000000))
	}
}

func (c *ctx) genCmdVal(k string, inRange bool) M {
	info := cmdTab[k]
	out := M{}
	for _, f := range info.fields {
		switch f.kind {
		case "u8":
			if inRange {
				out[f.name] = c.inRangeU8(k, f.name)
			} else {
				out[f.name] = c.genU8()
			}
		case "int": // an enumeration carried in one bit (DwellTime): 0 / 1, and - when not restricted to the range - any int
			if inRange || c.rnd.Intn(2) == 0 {
				out[f.name] = c.rnd.Intn(2)
			} else {
				out[f.name] = c.pick(-1, 2, 3, 255, 256, 257, -256)
			}
		case "i8":
			if inRange {
				out[f.name] = c.rnd.Intn(64) - 32
			} else {
				out[f.name] = c.rnd.Intn(256) - 128
			}
		case "bool":
			out[f.name] = c.rnd.Intn(2) == 1
		case "freq":
			if inRange {
				if k == key("down", 7) && c.rnd.Intn(3) == 0 {
					out[f.name] = freqVal(uint32(2400000000) + uint32(c.rnd.Intn(400000))*200)
				} else {
					out[f.name] = freqVal(uint32(c.rnd.Intn(12000000)) * 100)
				}
			} else {
				out[f.name] = freqVal(c.genFreq())
			}
		case "chmask":
			bits := make([]int, 16)
			m := c.rnd.Intn(65536)
			if c.rnd.Intn(4) == 0 {
				m = c.pick(0, 1, 0x8000, 0xffff, 0x00ff, 0xff00)
			}
			for i := range bits {
				bits[i] = (m >> uint(i)) & 1
			}
			out[f.name] = bits
		case "dur":
			if inRange {
				out[f.name] = durVal(time.Duration(c.rnd.Int63n(1<<32))*time.Second + time.Duration(c.rnd.Int63n(1000000000)))
			} else {
				out[f.name] = durVal(c.genDur())
			}
		}
	}
	return out
}

// widths of the specification's fields (only used to keep "in range" generators in range; the
// oracle has its own table).
var u8Width = map[string]int{
	"Minor": 1, "Margin": 8, "GwCnt": 8, "DataRate": 4, "TXPower": 4, "ChMaskCntl": 3, "NbRep": 4, "MaxDCycle": 4,
	"RX2DataRate": 4, "RX1DROffset": 3, "ChIndex": 8, "MaxDR": 4, "MinDR": 4, "Delay": 4, "MaxEIRP": 4, "LimitExp": 4,
	"DelayExp": 4, "Period": 3, "MaxRetries": 3, "DR": 4, "MaxTimeN": 4, "MaxCountN": 4, "Battery": 8, "Periodicity": 3,
}

func (c *ctx) inRangeU8(k, name string) int {
	switch name {
	case "Minor":
		return 1
	case "RejoinType", "Class":
		return c.pick(0, 2)
	}
	return c.rnd.Intn(1 << uint(u8Width[name]))
}

// ---- events ------------------------------------------------------------------------------------------

func encEvent(k string, val M) M {
	dir, cid := splitKey(k)
	ev := M{"ev": "enc", "dir": dir, "cid": cid, "val": val}
	p := valToPayload(k, val)
	var b []byte
	res, _ := observeFast(func() error {
		var err error
		b, err = p.MarshalBinary()
		return err
	})
	ev["err"] = res
	if res != "" {
		return ev
	}
	disturb()
	ev["bytes"] = bs(b)
	// the library's own decode of its own bytes (lossless-or-error)
	q := cmdTab[k].mk()
	bres, _ := observeFast(func() error { return q.UnmarshalBinary(append([]byte{}, b...)) })
	ev["berr"] = bres
	if bres == "" {
		ev["back"] = payloadToVal(k, q)
	}
	return ev
}

func decEvent(k string, b []byte) M {
	dir, cid := splitKey(k)
	ev := M{"ev": "dec", "dir": dir, "cid": cid, "bytes": bs(b)}
	in := append([]byte{}, b...)
	var p lorawan.MACCommandPayload
	res, _ := observeFast(func() error {
		var err error
		p, _, err = lorawan.GetMACPayloadAndSize(dir == "up", lorawan.CID(cid))
		if err != nil {
			return err
		}
		return p.UnmarshalBinary(in)
	})
	ev["err"] = res
	ev["intact"] = string(in) == string(b)
	if res == "" {
		ev["val"] = payloadToVal(k, p)
	}
	// the same bytes into ONE long-lived payload value per command (a receive loop that keeps its command structs): what it
	// held before - the previous input, or random bytes of the right length - must not show
	sp, ok := streamPayloads[k]
	if !ok {
		observeFast(func() error {
			var err error
			sp, _, err = lorawan.GetMACPayloadAndSize(dir == "up", lorawan.CID(cid))
			return err
		})
		streamPayloads[k] = sp
	}
	if sp != nil && !reflect.ValueOf(sp).IsNil() {
		if curCtx != nil && curCtx.rnd.Intn(2) == 0 {
			observeFast(func() error { return sp.UnmarshalBinary(curCtx.bytesN(cmdTab[k].size)) })
		}
		sres, _ := observeFast(func() error { return sp.UnmarshalBinary(append([]byte{}, b...)) })
		ev["serr"] = sres
		if sres == "" {
			ev["sval"] = payloadToVal(k, sp)
		}
	}
	// ... and into ONE long-lived MACCommand value per CID, which serves both directions (a CID means another command,
	// with another layout, in the other direction); now and then it holds a command of the other direction first
	mc := streamCmds[cid]
	if mc == nil {
		mc = &lorawan.MACCommand{}
		streamCmds[cid] = mc
	}
	if curCtx != nil && curCtx.rnd.Intn(3) == 0 {
		if ok, found := cmdTab[key(map[string]string{"up": "down", "down": "up"}[dir], cid)]; found {
			observeFast(func() error {
				return mc.UnmarshalBinary(dir != "up", append([]byte{byte(cid)}, curCtx.bytesN(ok.size)...))
			})
		}
	}
	kept := *mc
	cres, _ := observeFast(func() error { return mc.UnmarshalBinary(dir == "up", append([]byte{byte(cid)}, b...)) })
	ev["cerr"] = cres
	if cres == "" && mc.Payload != nil && !reflect.ValueOf(mc.Payload).IsNil() {
		if reflect.TypeOf(mc.Payload) == reflect.TypeOf(cmdTab[k].mk()) {
			ev["cval"] = payloadToVal(k, mc.Payload)
		} else {
			ev["cerr"] = "wrongtype"
		}
	}
	_ = kept
	return ev
}

var streamPayloads = map[string]lorawan.MACCommandPayload{}
var streamCmds = map[int]*lorawan.MACCommand{}

// streamEvent puts cmds into FOpts (where="fopts") or a port-0 FRMPayload (where="frm") of a data
// frame, serialises the frame, deserialises it and decodes the commands again.
func streamEvent(dir, where string, items []M) M {
	ev := M{"ev": "stream", "dir": dir, "where": where, "cmds": items}
	var pls []lorawan.Payload
	for _, it := range items {
		pls = append(pls, valToItem(dir, it))
	}
	mt := lorawan.UnconfirmedDataDown
	if dir == "up" {
		mt = lorawan.UnconfirmedDataUp
	}
	mp := &lorawan.MACPayload{FHDR: lorawan.FHDR{DevAddr: lorawan.DevAddr{1, 2, 3, 4}, FCnt: 7}}
	phy := lorawan.PHYPayload{MHDR: lorawan.MHDR{MType: mt, Major: lorawan.LoRaWANR1}, MACPayload: mp}
	if curCtx != nil && curCtx.rnd.Intn(4) == 0 {
		// the frame value is not fresh: it was RECEIVED (with other FOpts and another payload) and is now re-used for the
		// command sequence of this case, through its exported members only
		prev := lorawan.PHYPayload{MHDR: phy.MHDR, MACPayload: &lorawan.MACPayload{FHDR: lorawan.FHDR{DevAddr: lorawan.DevAddr{1, 2, 3, 4}, FCnt: 6,
			FOpts: []lorawan.Payload{&lorawan.DataPayload{Bytes: curCtx.bytesN(1 + curCtx.rnd.Intn(15))}}}}}
		if curCtx.rnd.Intn(2) == 0 {
			pp := uint8(1 + curCtx.rnd.Intn(200))
			pm := prev.MACPayload.(*lorawan.MACPayload)
			pm.FPort, pm.FRMPayload = &pp, []lorawan.Payload{&lorawan.DataPayload{Bytes: curCtx.bytesN(curCtx.rnd.Intn(12))}}
		}
		if pb, err := prev.MarshalBinary(); err == nil && phy.UnmarshalBinary(pb) == nil {
			if rmp, ok := phy.MACPayload.(*lorawan.MACPayload); ok {
				mp = rmp
				mp.FHDR.FCnt = 7
				mp.FHDR.FOpts, mp.FPort, mp.FRMPayload = nil, nil, nil
			}
		}
	}
	if where == "fopts" {
		mp.FHDR.FOpts = pls
	} else {
		p0 := uint8(0)
		mp.FPort = &p0
		mp.FRMPayload = pls
	}
	var b []byte
	res, _ := observeFast(func() error {
		var err error
		b, err = phy.MarshalBinary()
		return err
	})
	ev["err"] = res
	if res != "" {
		return ev
	}
	ev["frame"] = bs(b)
	var back lorawan.PHYPayload
	dres, _ := observeFast(func() error {
		if err := back.UnmarshalBinary(b); err != nil {
			return err
		}
		if where == "fopts" {
			return back.DecodeFOptsToMACCommands()
		}
		return back.DecodeFRMPayloadToMACCommands()
	})
	ev["derr"] = dres
	if dres == "" {
		bmp, _ := back.MACPayload.(*lorawan.MACPayload)
		var got []lorawan.Payload
		if bmp != nil {
			if where == "fopts" {
				got = bmp.FHDR.FOpts
			} else {
				got = bmp.FRMPayload
			}
		}
		outs := []interface{}{}
		for _, g := range got {
			outs = append(outs, itemToVal(dir, g))
		}
		ev["back"] = outs
	}
	return ev
}

// emptyCIDs are the CIDs the specification defines without payload (generators only).
var emptyCIDs = map[string][]int{"down": {6, 16}, "up": {2, 4, 8, 9, 12, 13}}

func (c *ctx) genStream(dir string, maxBytes int) []M {
	items := []M{}
	total := 0
	var keys []string
	for _, k := range cmdKeys {
		if d, _ := splitKey(k); d == dir {
			keys = append(keys, k)
		}
	}
	nCmds := 1 + c.rnd.Intn(15)
	if maxBytes > 15 && c.rnd.Intn(2) == 0 {
		nCmds = 1 + c.rnd.Intn(80)
	}
	for i := 0; i < nCmds; i++ {
		if c.rnd.Intn(5) == 0 {
			cid := emptyCIDs[dir][c.rnd.Intn(len(emptyCIDs[dir]))]
			if total+1 > maxBytes {
				break
			}
			total++
			items = append(items, M{"t": "cmd", "cid": cid, "p": []interface{}{}})
			continue
		}
		k := keys[c.rnd.Intn(len(keys))]
		_, cid := splitKey(k)
		sz := cmdTab[k].size + 1
		if total+sz > maxBytes {
			continue
		}
		total += sz
		items = append(items, M{"t": "cmd", "cid": cid, "p": []interface{}{c.genCmdVal(k, true)}})
	}
	return items
}

// spoilOne: ONE command of the sequence - first, last or in between - gets members over their full Go domains (most such
// values have no encoding): the sequence must then be refused as a whole, not sent without that command.  Only the
// `streams` mode of this family uses it; other families need encodable sequences.
func (c *ctx) spoilOne(dir string, items []M) []M {
	if len(items) > 0 && c.rnd.Intn(6) == 0 {
		i := c.pick(0, len(items)-1, c.rnd.Intn(len(items)))
		if pl, ok := items[i]["p"].([]interface{}); ok && len(pl) == 1 {
			items[i]["p"] = []interface{}{c.genCmdVal(key(dir, items[i]["cid"].(int)), false)}
		}
	}
	return items
}

// cmdTypeEvents: which Go payload type a decoded MAC command carries (the API's documented naming: <CommandName>Payload),
// through the MACCommand decoder and through the FOpts of a data frame.
func cmdTypeEvents(c *ctx) {
	for _, k := range cmdKeys {
		var dir string
		var cid int
		fmt.Sscanf(k, "%[a-z]/%d", &dir, &cid)
		if i := strings.Index(k, "/"); i > 0 {
			dir = k[:i]
			fmt.Sscanf(k[i+1:], "%d", &cid)
		}
		b := append([]byte{byte(cid)}, make([]byte, cmdTab[k].size)...)
		name := func(p lorawan.MACCommandPayload) string {
			if p == nil {
				return ""
			}
			t := reflect.TypeOf(p)
			if t.Kind() == reflect.Ptr {
				t = t.Elem()
			}
			return t.Name()
		}
		var mc lorawan.MACCommand
		res, _ := observeFast(func() error { return mc.UnmarshalBinary(dir == "up", b) })
		c.emit(M{"ev": "cmdtype", "via": "MACCommand", "dir": dir, "cid": cid, "err": res, "ty": name(mc.Payload)})
		if len(b) <= 15 {
			mt := lorawan.UnconfirmedDataDown
			if dir == "up" {
				mt = lorawan.UnconfirmedDataUp
			}
			frame := append(append([]byte{byte(mt) << 5, 1, 2, 3, 4, byte(len(b)), 0, 0}, b...), 0, 0, 0, 0)
			var phy lorawan.PHYPayload
			ty := ""
			res, _ := observeFast(func() error {
				if err := phy.UnmarshalBinary(frame); err != nil {
					return err
				}
				if err := phy.DecodeFOptsToMACCommands(); err != nil {
					return err
				}
				if fo := phy.MACPayload.(*lorawan.MACPayload).FHDR.FOpts; len(fo) == 1 {
					if m, ok := fo[0].(*lorawan.MACCommand); ok {
						ty = name(m.Payload)
					}
				}
				return nil
			})
			c.emit(M{"ev": "cmdtype", "via": "FOpts", "dir": dir, "cid": cid, "err": res, "ty": ty})
		}
	}
}

func drvMacCmd(c *ctx) error {
	switch c.mode {
	case "values": // C07 (i) + C06: values over the full Go field domains
		cmdTypeEvents(c)
		// every boundary value of every frequency member, deterministically (the other members in range)
		freqEdges := []uint32{0, 100, 99, 200, 868100000, 1677721500, 1677721600, 1677721700, 1199999900, 1200000000, 1200000100, 2399999900, 2400000000, 2400000100,
			2400000200, 2400000400, 3355443000, 3355442800, 3355443200, 3355443400, 4294967200, math.MaxUint32}
		for _, k := range cmdKeys {
			for _, f := range cmdTab[k].fields {
				switch f.kind {
				case "freq":
					for _, fv := range freqEdges {
						v := c.genCmdVal(k, true)
						v[f.name] = freqVal(fv)
						c.emit(encEvent(k, v))
					}
				case "u8": // every value of every 8-bit member, the other members in range
					for x := 0; x < 256; x++ {
						v := c.genCmdVal(k, true)
						v[f.name] = x
						c.emit(encEvent(k, v))
					}
				case "i8":
					for x := -128; x < 128; x++ {
						v := c.genCmdVal(k, true)
						v[f.name] = x
						c.emit(encEvent(k, v))
					}
				case "int":
					for _, x := range []int{-257, -256, -255, -1, 0, 1, 2, 3, 255, 256, 257, 65536, 65537} {
						v := c.genCmdVal(k, true)
						v[f.name] = x
						c.emit(encEvent(k, v))
					}
				}
			}
		}
		for i := 0; i < c.n; i++ {
			k := cmdKeys[i%len(cmdKeys)]
			if i%8 == 0 { // failing calls in between: a too short payload, a garbage stream
				observeFast(func() error {
					p := cmdTab[k].mk()
					p.UnmarshalBinary(c.bytesN(c.rnd.Intn(cmdTab[k].size + 1))[:c.rnd.Intn(cmdTab[k].size+1)/2])
					var mc lorawan.MACCommand
					mc.UnmarshalBinary(c.rnd.Intn(2) == 0, c.bytesN(c.rnd.Intn(4)))
					return nil
				})
			}
			c.emit(encEvent(k, c.genCmdVal(k, c.rnd.Intn(3) == 0)))
		}
	case "cases": // (R): values enumerated by TLC from the specification's tables
		for _, cs := range c.cases {
			k := key(cs["dir"].(string), num(cs["cid"]))
			if _, ok := cmdTab[k]; !ok {
				return fmt.Errorf("case for unknown command %s", k)
			}
			val := cs["val"].(M)
			if secs, ok := val["Seconds"]; ok { // DeviceTimeAns: the specification's (Seconds, Frac) as a Go duration
				b := unbs(secs)
				val = M{"Time": M{"neg": false, "secs": []int{int(b[0]), int(b[1]), int(b[2]), int(b[3]), 0, 0, 0, 0}, "ns": num(val["Frac"]) * 3906250}}
			}
			c.emit(encEvent(k, val))
		}
	case "decode1": // all 256 bytes for every 1-byte payload
		for _, k := range cmdKeys {
			if cmdTab[k].size == 1 {
				for b := 0; b < 256; b++ {
					c.emit(decEvent(k, []byte{byte(b)}))
				}
			}
		}
	case "decode2": // 2-byte payloads: all 65536 (n<=0) or n sampled pairs each
		for _, k := range cmdKeys {
			if cmdTab[k].size == 2 {
				if c.n <= 0 {
					for x := 0; x < 65536; x++ {
						c.emit(decEvent(k, []byte{byte(x), byte(x >> 8)}))
					}
				} else {
					for i := 0; i < c.n; i++ {
						c.emit(decEvent(k, c.bytesN(2)))
					}
				}
			}
		}
	case "decodeN": // 3..5-byte payloads, boundary + random; also wrong lengths
		for _, k := range cmdKeys {
			sz := cmdTab[k].size
			if sz >= 3 {
				for i := 0; i < c.n; i++ {
					b := c.bytesN(sz)
					switch c.rnd.Intn(6) {
					case 0:
						for j := range b {
							b[j] = 0xff
						}
					case 1:
						for j := range b {
							b[j] = 0
						}
					case 2:
						b[c.rnd.Intn(sz)] = byte(c.pick(0, 0xff, 0x80, 0x7f))
					}
					c.emit(decEvent(k, b))
				}
			}
			for _, l := range []int{0, sz - 1, sz + 1} {
				if l >= 0 {
					c.emit(decEvent(k, c.bytesN(l)))
				}
			}
		}
	case "streams":
		// FOpts sequences far beyond the 15-byte field: the encoder must refuse them, whatever their length is modulo 256
		for _, n := range []int{16, 17, 255, 256, 257, 260, 271, 272, 512, 520} {
			dir := []string{"down", "up"}[n%2]
			cid := map[string]int{"up": 2, "down": 6}[dir] // LinkCheckReq / DevStatusReq: one byte each
			items := make([]M, n)
			for k := range items {
				items[k] = M{"t": "cmd", "cid": cid, "p": []interface{}{}}
			}
			ev := streamEvent(dir, "fopts", items)
			ev["cmds"] = []interface{}{} // not repeated in the event: `n` commands of one byte
			ev["overlong"] = n
			c.emit(ev)
		}
		for i := 0; i < c.n; i++ {
			dir := []string{"down", "up"}[c.rnd.Intn(2)]
			if c.rnd.Intn(2) == 0 {
				c.emit(streamEvent(dir, "fopts", c.spoilOne(dir, c.genStream(dir, 15))))
			} else {
				c.emit(streamEvent(dir, "frm", c.spoilOne(dir, c.genStream(dir, 242))))
			}
		}
	case "shared": // several goroutines decode the SAME source bytes (read-only sharing of a receive buffer is legitimate)
		for round := 0; round < c.n; round++ {
			for _, k := range cmdKeys {
				size := cmdTab[k].size
				if size == 0 {
					continue
				}
				dir, cid := splitKey(k)
				src := c.bytesN(size)
				for i := range src { // no zero bytes: a decoder that borrows a byte of the input shows
					src[i] |= 0x11
				}
				keep := append([]byte{}, src...)
				withCID := append([]byte{byte(cid)}, src...)
				keepCID := append([]byte{}, withCID...)
				seen := map[string]M{}
				var mu sync.Mutex
				var wg sync.WaitGroup
				for g := 0; g < 6; g++ {
					wg.Add(1)
					go func(g int) {
						defer wg.Done()
						var prev lorawan.MACCommandPayload
						prevRes := "?"
						for it := 0; it < 60000; it++ {
							var p lorawan.MACCommandPayload
							res, _ := observeFast(func() error {
								if g%2 == 0 {
									var err error
									if p, _, err = lorawan.GetMACPayloadAndSize(dir == "up", lorawan.CID(cid)); err != nil {
										return err
									}
									return p.UnmarshalBinary(src)
								}
								var mc lorawan.MACCommand
								if err := mc.UnmarshalBinary(dir == "up", withCID); err != nil {
									return err
								}
								p = mc.Payload
								return nil
							})
							if res == prevRes && reflect.DeepEqual(p, prev) { // tight loop: only a result that differs from the previous one is recorded
								continue
							}
							prev, prevRes = p, res
							ev := M{"ev": "dec", "dir": dir, "cid": cid, "bytes": bs(keep), "err": res, "intact": true, "shared": true}
							if res == "" && p != nil {
								ev["val"] = payloadToVal(k, p)
							}
							b, _ := json.Marshal(ev)
							mu.Lock()
							seen[string(b)] = ev
							mu.Unlock()
						}
					}(g)
				}
				// a watcher polls the shared source while the decoders run: a byte that is changed and put back is seen too
				var sawChange int32
				stopWatch := make(chan struct{})
				watchDone := make(chan struct{})
				go func() {
					defer close(watchDone)
					for {
						select {
						case <-stopWatch:
							return
						default:
						}
						for r := 0; r < 256; r++ {
							if !bytes.Equal(src, keep) || !bytes.Equal(withCID, keepCID) {
								atomic.StoreInt32(&sawChange, 1)
							}
						}
					}
				}()
				wg.Wait()
				close(stopWatch)
				<-watchDone
				intact := string(src) == string(keep) && string(withCID) == string(keepCID) && atomic.LoadInt32(&sawChange) == 0
				var ks []string
				for s := range seen {
					ks = append(ks, s)
				}
				sort.Strings(ks)
				for _, s := range ks {
					ev := seen[s]
					ev["intact"] = intact
					c.emit(ev)
				}
			}
		}
	case "lookup": // registry of the 2 x 256 (direction, CID) pairs
		for _, dir := range []string{"down", "up"} {
			for cid := 0; cid < 256; cid++ {
				ev := M{"ev": "lookup", "dir": dir, "cid": cid}
				var size int
				var p lorawan.MACCommandPayload
				res, _ := observeFast(func() error {
					var err error
					p, size, err = lorawan.GetMACPayloadAndSize(dir == "up", lorawan.CID(cid))
					return err
				})
				ev["err"] = res
				if res == "" {
					ev["size"] = size
					ev["typed"] = p != nil
				}
				c.emit(ev)
			}
		}
	default:
		return fmt.Errorf("maccmd: unknown mode %q", c.mode)
	}
	return nil
}

// ---- registry histories (stateful; the registry is process-global, so every history runs in a
// fresh child process) ----------------------------------------------------------------------------

func init() { families["registry"] = drvRegistry }

type regOp struct {
	dir  string
	cid  int
	size int
}

func regLookups(c *ctx, cids []int) {
	for _, dir := range []string{"down", "up"} {
		for _, cid := range cids {
			ev := M{"ev": "lookup", "dir": dir, "cid": cid}
			var size int
			res, _ := observeFast(func() error {
				var err error
				_, size, err = lorawan.GetMACPayloadAndSize(dir == "up", lorawan.CID(cid))
				return err
			})
			ev["err"] = res
			if res == "" {
				if size == math.MaxInt { // written as 2^30, see the `register` event
					size = 1 << 30
				}
				ev["size"] = size
			}
			c.emit(ev)
		}
	}
}

func rawStreamEvent(dir string, cmds []M) M {
	ev := M{"ev": "pstream", "dir": dir, "cmds": cmds}
	var pls []lorawan.Payload
	for _, cm := range cmds {
		mc := &lorawan.MACCommand{CID: lorawan.CID(cm["cid"].(int))}
		raw := cm["raw"].([]int)
		if len(raw) > 0 {
			mc.Payload = &lorawan.ProprietaryMACCommandPayload{Bytes: unbsAny(raw)}
		}
		pls = append(pls, mc)
	}
	mt := lorawan.UnconfirmedDataDown
	if dir == "up" {
		mt = lorawan.UnconfirmedDataUp
	}
	mp := &lorawan.MACPayload{FHDR: lorawan.FHDR{DevAddr: lorawan.DevAddr{1, 2, 3, 4}, FCnt: 7, FOpts: pls}}
	phy := lorawan.PHYPayload{MHDR: lorawan.MHDR{MType: mt}, MACPayload: mp}
	var b []byte
	res, _ := observeFast(func() error {
		var err error
		b, err = phy.MarshalBinary()
		return err
	})
	ev["err"] = res
	if res != "" {
		return ev
	}
	ev["bytes"] = bs(b[8 : len(b)-4])
	var back lorawan.PHYPayload
	dres, _ := observeFast(func() error {
		if err := back.UnmarshalBinary(b); err != nil {
			return err
		}
		return back.DecodeFOptsToMACCommands()
	})
	ev["derr"] = dres
	if dres == "" {
		outs := []interface{}{}
		if bmp, ok := back.MACPayload.(*lorawan.MACPayload); ok {
			for _, g := range bmp.FHDR.FOpts {
				outs = append(outs, itemToVal(dir, g))
			}
		}
		ev["back"] = outs
	}
	return ev
}

func (c *ctx) genRawStream(dir string, propCIDs []int) []M {
	std := map[string][][]int{
		"down": {{6}, {8, 5}, {2, 1, 2}, {3, 0x50, 0xff, 0, 1}, {13, 1, 2, 3, 4, 5}, {10, 1, 2, 3, 4}},
		"up":   {{2}, {3, 7}, {6, 200, 31}, {13}, {16, 3}},
	}
	out := []M{}
	total := 0
	n := c.rnd.Intn(5)
	for i := 0; i < n; i++ {
		var cid int
		var raw []int
		if c.rnd.Intn(2) == 0 || len(propCIDs) == 0 {
			s := std[dir][c.rnd.Intn(len(std[dir]))]
			cid, raw = s[0], append([]int{}, s[1:]...)
		} else {
			cid = propCIDs[c.rnd.Intn(len(propCIDs))]
			raw = make([]int, c.rnd.Intn(4))
			if c.rnd.Intn(4) == 0 {
				raw = make([]int, c.rnd.Intn(15))
			}
			for j := range raw {
				raw[j] = 128 + c.rnd.Intn(128) // leftovers re-parse as proprietary CIDs, never as RFU-sensitive standard payloads
			}
		}
		if total+1+len(raw) > 15 {
			break
		}
		total += 1 + len(raw)
		out = append(out, M{"cid": cid, "raw": raw})
	}
	return out
}

func drvRegistry(c *ctx) error {
	switch c.mode {
	case "child": // one history, in this fresh process
		c.emit(M{"ev": "reset"})
		var ops []regOp
		for _, cs := range c.cases {
			for _, o := range cs["hist"].([]interface{}) {
				m := o.(M)
				ops = append(ops, regOp{m["dir"].(string), num(m["cid"]), num(m["size"])})
			}
		}
		cids := []int{1, 2, 3, 6, 7, 13, 14, 32, 127, 128, 200, 255}
		var prop []int
		for _, o := range ops {
			cids = append(cids, o.cid&0xff)
			if o.cid >= 128 && o.cid <= 255 { // payload bytes of standard CIDs come from the fixed RFU-clean table
				prop = append(prop, o.cid)
			}
		}
		prop = append(prop, 128, 200, 255)
		regLookups(c, cids)
		for _, o := range ops {
			ev := M{"ev": "register", "dir": o.dir, "cid": o.cid, "size": o.size}
			res, _ := observeFast(func() error {
				sz := o.size
				if sz == 1<<30 { // the event carries 2^30 (TLC computes with 32-bit integers); the library is given the largest int.
					sz = math.MaxInt // For the framing of FOpts both mean the same: more bytes than any stream has
				}
				return lorawan.RegisterProprietaryMACCommand(o.dir == "up", lorawan.CID(o.cid), sz)
			})
			ev["err"] = res
			c.emit(ev)
			regLookups(c, cids)
			for i := 0; i < 6; i++ {
				dir := []string{"down", "up"}[i%2]
				c.emit(rawStreamEvent(dir, c.genRawStream(dir, prop)))
			}
		}
		return nil
	case "cases", "random":
		var hists []M
		if c.mode == "cases" {
			hists = c.cases
		} else {
			for i := 0; i < c.n; i++ {
				var h []interface{}
				for j := 0; j < 1+c.rnd.Intn(6); j++ {
					cid := c.rnd.Intn(256)
					if c.rnd.Intn(3) > 0 {
						cid = 128 + c.rnd.Intn(128)
					}
					size := c.rnd.Intn(7) - 1
					if c.rnd.Intn(6) == 0 { // sizes up to what FOpts can carry, just beyond, and around the one-byte boundary
						size = c.pick(6, 7, 8, 13, 14, 15, 16, 255, 256, 257, 1<<30, 1<<30)
					}
					op := M{"dir": []string{"down", "up"}[c.rnd.Intn(2)], "cid": cid, "size": size}
					if j > 0 && c.rnd.Intn(3) == 0 {
						// the same (direction, CID) as an earlier step of this history: re-registration with another size, a
						// refused re-registration (size -1), removal and removal again
						prev := h[c.rnd.Intn(j)].(M)
						op["dir"], op["cid"] = prev["dir"], prev["cid"]
						if c.rnd.Intn(3) == 0 {
							op["size"] = c.pick(-1, -1, 0)
						}
					}
					h = append(h, op)
				}
				hists = append(hists, M{"hist": h})
			}
		}
		self, err := os.Executable()
		if err != nil {
			return err
		}
		dir, err := ioutil.TempDir(filepath.Dir(c.f.Name()), "regchild")
		if err != nil {
			return err
		}
		defer os.RemoveAll(dir)
		for i, h := range hists {
			cf := filepath.Join(dir, "case.json")
			b, _ := json.Marshal(h)
			if err := ioutil.WriteFile(cf, b, 0644); err != nil {
				return err
			}
			of := filepath.Join(dir, "out.ndjson")
			cmd := exec.Command(self, "record", "registry", "--mode", "child", "--cases", cf, "--out", of, "--seed", fmt.Sprint(c.seed+int64(i)))
			if out, err := cmd.CombinedOutput(); err != nil {
				if ee, ok := err.(*exec.ExitError); ok && ee.ExitCode() == 3 && bytes.Contains(out, []byte("HANG-ABORT")) {
					// the child's watchdog recorded a hang: its partial trace (ending with the hang event) becomes the end of this
					// trace, and this driver ends the same way
					if ob, rerr := ioutil.ReadFile(of); rerr == nil {
						wd.mu.Lock()
						c.w.Write(ob)
						c.w.Flush()
						c.f.Close()
						fmt.Fprintln(os.Stderr, "HANG-ABORT: (child process)", strings.TrimSpace(string(out)))
						os.Exit(3)
					}
				}
				return fmt.Errorf("registry child failed: %v: %s", err, out)
			}
			ob, err := ioutil.ReadFile(of)
			if err != nil {
				return err
			}
			c.w.Write(ob)
			atomic.StoreInt64(&wd.lastEmit, time.Now().UnixNano()) // a child finished: progress (each child has its own watchdog)
		}
		return nil
	}
	return fmt.Errorf("registry: unknown mode %q", c.mode)
}
