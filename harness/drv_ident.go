package main

import (
	"database/sql/driver"
	"encoding"
	"fmt"
	"sort"
	"strings"
	"sync"

	"github.com/brocaar/lorawan"
)

func init() { families["ident"] = drvIdent }

func prefixEvent(c *ctx, n lorawan.NetID, a lorawan.DevAddr) M {
	out := a
	res, _ := observeFast(func() error { out.SetAddrPrefix(n); return nil })
	ev := M{"ev": "prefix", "netid": bs(n[:]), "addr": bs(a[:]), "err": res, "out": bs(out[:])}
	ev["isnet"] = out.IsNetID(n)
	ev["isnetin"] = a.IsNetID(n)
	nb := out
	nb[c.rnd.Intn(4)] ^= 1 << uint(c.rnd.Intn(8))
	ev["nb"] = bs(nb[:])
	ev["isnetnb"] = nb.IsNetID(n)
	ev["nwkid"] = bs(out.NwkID())
	ev["dtype"] = out.NetIDType()
	ev["ntype"] = n.Type()
	ev["nid"] = bs(n.ID())
	return ev
}

type ident interface {
	encoding.TextMarshaler
	encoding.BinaryMarshaler
	driver.Valuer
}

// reprEvent: text / binary / database representations of the four identifier types.
func reprEvent(c *ctx, typ string, val []byte) M {
	ev := M{"ev": "repr", "type": typ, "val": bs(val)}
	var v ident
	mk := func() interface{} {
		switch typ {
		case "EUI64":
			return &lorawan.EUI64{}
		case "DevAddr":
			return &lorawan.DevAddr{}
		case "NetID":
			return &lorawan.NetID{}
		default:
			return &lorawan.AES128Key{}
		}
	}
	switch typ {
	case "EUI64":
		var x lorawan.EUI64
		copy(x[:], val)
		v = x
	case "DevAddr":
		var x lorawan.DevAddr
		copy(x[:], val)
		v = x
	case "NetID":
		var x lorawan.NetID
		copy(x[:], val)
		v = x
	default:
		var x lorawan.AES128Key
		copy(x[:], val)
		v = x
	}
	txt, _ := v.MarshalText()
	ev["text"] = bs(txt)
	bin, _ := v.MarshalBinary()
	ev["bin"] = bs(bin)
	// the results are KEPT while other identifiers are marshalled: a representation handed out must not change afterwards
	for k := 0; k < 3; k++ {
		var o1 lorawan.EUI64
		var o2 lorawan.AES128Key
		var o3 lorawan.DevAddr
		var o4 lorawan.NetID
		copy(o1[:], c.bytesN(8))
		copy(o2[:], c.bytesN(16))
		copy(o3[:], c.bytesN(4))
		copy(o4[:], c.bytesN(3))
		o1.MarshalText()
		o2.MarshalText()
		o3.MarshalText()
		o4.MarshalText()
		o1.MarshalBinary()
		o3.MarshalBinary()
		o4.MarshalBinary()
		_ = o1.String() + o2.String() + o3.String() + o4.String()
	}
	ev["text_kept"] = bs(txt)
	ev["bin_kept"] = bs(bin)
	dv, _ := v.Value()
	if b, ok := dv.([]byte); ok {
		ev["dbval"] = bs(b)
	} else {
		ev["dbval"] = []int{}
	}
	dump := func(p interface{}) []int {
		switch t := p.(type) {
		case *lorawan.EUI64:
			return bs(t[:])
		case *lorawan.DevAddr:
			return bs(t[:])
		case *lorawan.NetID:
			return bs(t[:])
		case *lorawan.AES128Key:
			return bs(t[:])
		}
		return nil
	}
	try := func(name string, f func(p interface{}) error) {
		p := mk()
		res, _ := observeFast(func() error { return f(p) })
		ev[name+"_err"] = res
		ev[name] = dump(p)
	}
	ut := func(t []byte) func(p interface{}) error {
		return func(p interface{}) error { return p.(encoding.TextUnmarshaler).UnmarshalText(t) }
	}
	ub := func(b []byte) func(p interface{}) error {
		return func(p interface{}) error { return p.(encoding.BinaryUnmarshaler).UnmarshalBinary(b) }
	}
	sc := func(x interface{}) func(p interface{}) error {
		return func(p interface{}) error { return p.(interface{ Scan(interface{}) error }).Scan(x) }
	}
	// the same decoders into a variable that already holds another identifier (a struct field or loop variable re-used)
	tryUsed := func(name string, f func(p interface{}) error) {
		p := mk()
		old := c.bytesN(16)
		if c.rnd.Intn(3) == 0 {
			for i := range old {
				old[i] = 0xff
			}
		}
		switch t := p.(type) {
		case *lorawan.EUI64:
			copy(t[:], old)
		case *lorawan.DevAddr:
			copy(t[:], old)
		case *lorawan.NetID:
			copy(t[:], old)
		case *lorawan.AES128Key:
			copy(t[:], old)
		}
		res, _ := observeFast(func() error { return f(p) })
		ev[name+"_err"] = res
		ev[name] = dump(p)
	}
	tryUsed("untext_used", ut(txt))
	tryUsed("untext0x_used", ut(append([]byte("0x"), txt...)))
	tryUsed("unbin_used", ub(bin))
	tryUsed("scan_used", sc(append([]byte{}, val...)))
	try("untext", ut(txt))
	try("untext0x", ut(append([]byte("0x"), txt...)))
	try("untextupper", ut([]byte(strings.ToUpper(string(txt)))))
	try("unbin", ub(bin))
	try("scan", sc(append([]byte{}, val...)))
	// wrong lengths and malformed text must be rejected
	try("untext_short", ut(txt[:len(txt)-2]))
	try("untext_long", ut(append(append([]byte{}, txt...), '0', '0')))
	try("untext_odd", ut(txt[:len(txt)-1]))
	try("untext_bad", ut(append([]byte("zz"), txt[2:]...)))
	try("unbin_short", ub(bin[:len(bin)-1]))
	try("unbin_long", ub(append(append([]byte{}, bin...), 0)))
	try("scan_short", sc(val[:len(val)-1]))
	try("scan_long", sc(append(append([]byte{}, val...), 0)))
	try("scan_string", sc(string(txt)))
	return ev
}

func netIDOf(x int) lorawan.NetID { return lorawan.NetID{byte(x >> 16), byte(x >> 8), byte(x)} }

func (c *ctx) addrPatterns() []lorawan.DevAddr {
	var r lorawan.DevAddr
	copy(r[:], c.bytesN(4))
	return []lorawan.DevAddr{{0, 0, 0, 0}, {255, 255, 255, 255}, {0xaa, 0x55, 0xaa, 0x55}, r}
}

func drvIdent(c *ctx) error {
	switch c.mode {
	case "netids": // structured: every type x (all IDs < 2^10, single-bit, all-ones, boundary) + n random
		for t := 0; t < 8; t++ {
			ids := map[int]bool{}
			for i := 0; i < 1024; i++ {
				ids[i] = true
			}
			for k := 0; k < 21; k++ {
				ids[1<<uint(k)] = true
				ids[(1<<uint(k))-1] = true
				ids[(1<<21)-1-(1<<uint(k))] = true
			}
			for id := range ids {
				n := netIDOf(t<<21 | id&(1<<21-1))
				a := c.addrPatterns()[c.rnd.Intn(4)]
				c.emit(prefixEvent(c, n, a))
			}
		}
		for i := 0; i < c.n; i++ {
			c.emit(prefixEvent(c, netIDOf(c.rnd.Intn(1<<24)), c.addrPatterns()[c.rnd.Intn(4)]))
		}
	case "allnetids": // all 2^24 NetIDs (seed selects the address pattern per NetID); n = stride subsampling (1 = all)
		step := c.n
		if step < 1 {
			step = 1
		}
		for x := 0; x < 1<<24; x += step {
			c.emit(prefixEvent(c, netIDOf(x), c.addrPatterns()[c.rnd.Intn(4)]))
		}
	case "concurrent": // eight goroutines, each with its own NetID (one per type), in tight loops: every distinct result is recorded
		for round := 0; round < c.n; round++ {
			type res struct {
				n      lorawan.NetID
				a, out lorawan.DevAddr
				is, in bool
			}
			var mu sync.Mutex
			seen := map[res]bool{}
			var wg sync.WaitGroup
			start := make(chan struct{})
			for g := 0; g < 8; g++ {
				var n lorawan.NetID
				copy(n[:], c.bytesN(3))
				n[0] = n[0]&0x1f | byte(g)<<5 // NetID type g
				addrs := make([]lorawan.DevAddr, 4)
				for i := range addrs {
					copy(addrs[i][:], c.bytesN(4))
				}
				wg.Add(1)
				go func(n lorawan.NetID, addrs []lorawan.DevAddr) {
					defer wg.Done()
					<-start
					var prev res
					for it := 0; it < 20000; it++ {
						a := addrs[it%len(addrs)]
						out := a
						out.SetAddrPrefix(n)
						r := res{n, a, out, out.IsNetID(n), a.IsNetID(n)}
						if r != prev && it >= len(addrs) || it < len(addrs) {
							mu.Lock()
							seen[r] = true
							mu.Unlock()
						}
						prev = r
					}
				}(n, addrs)
			}
			close(start)
			wg.Wait()
			var keys []res
			for r := range seen {
				keys = append(keys, r)
			}
			sort.Slice(keys, func(i, j int) bool { return fmt.Sprint(keys[i]) < fmt.Sprint(keys[j]) })
			for _, r := range keys {
				c.emit(M{"ev": "prefixc", "netid": bs(r.n[:]), "addr": bs(r.a[:]), "out": bs(r.out[:]), "isnet": r.is, "isnetin": r.in})
			}
		}
	case "repr":
		for i := 0; i < c.n; i++ {
			for _, t := range []struct {
				name string
				n    int
			}{{"EUI64", 8}, {"DevAddr", 4}, {"NetID", 3}, {"AES128Key", 16}} {
				v := c.bytesN(t.n)
				switch c.rnd.Intn(6) {
				case 0:
					for j := range v {
						v[j] = 0
					}
				case 1:
					for j := range v {
						v[j] = 0xff
					}
				case 2: // letters only / digits only in hex
					for j := range v {
						v[j] = byte(c.pick(0xab, 0xcd, 0xef, 0x12, 0x90))
					}
				}
				c.emit(reprEvent(c, t.name, v))
			}
		}
	default:
		return fmt.Errorf("ident: unknown mode %q", c.mode)
	}
	return nil
}
