package main

// Driver family `jsonview` (extended coverage, no listed property): the JSON document the library writes for a frame
// (PHYPayload.MarshalJSON; what frame logs and debugging tools show).  One event per frame: the frame in the terms of the
// specification (phyToVal) and the document flattened into leaves (path, kind, text / number bytes).  Flattening is a
// change of representation only - TLC's JSON reader has no null and no numbers above 2^31.

import (
	"bytes"
	"encoding/json"
	"fmt"
	"sort"
	"strconv"
)

func init() { families["jsonview"] = drvJSONView }

func flattenJSON(path []string, v interface{}, out *[]interface{}) {
	p := append([]string{}, path...)
	leaf := func(k, t string, n []int) {
		pl := []interface{}{}
		for _, x := range p {
			pl = append(pl, x)
		}
		*out = append(*out, M{"p": pl, "k": k, "t": t, "v": n})
	}
	switch t := v.(type) {
	case nil:
		leaf("null", "", []int{})
	case bool:
		leaf("b", strconv.FormatBool(t), []int{})
	case string:
		leaf("s", t, []int{})
	case json.Number:
		u, err := strconv.ParseUint(string(t), 10, 64)
		if err != nil {
			leaf("badnum", string(t), []int{})
			return
		}
		n := make([]int, 8)
		for i := range n {
			n[i] = int(u >> (8 * uint(i)) & 0xff)
		}
		leaf("n", "", n)
	case []interface{}:
		if len(t) == 0 {
			leaf("empty", "", []int{})
		}
		for i, x := range t {
			flattenJSON(append(p, strconv.Itoa(i)), x, out)
		}
	case map[string]interface{}:
		if len(t) == 0 {
			leaf("empty", "", []int{})
		}
		keys := []string{}
		for k := range t {
			keys = append(keys, k)
		}
		sort.Strings(keys)
		for _, k := range keys {
			flattenJSON(append(p, k), t[k], out)
		}
	}
}

func jsonViewEvent(c *ctx, val M) M {
	phy := valToPhy(val, false)
	ev := M{"ev": "jsonview", "val": phyToVal(phy)}
	var doc []byte
	res, _ := observeFast(func() error {
		var err error
		doc, err = json.Marshal(phy)
		return err
	})
	ev["err"] = res
	if res != "" {
		return ev
	}
	dec := json.NewDecoder(bytes.NewReader(doc))
	dec.UseNumber()
	var tree interface{}
	if err := dec.Decode(&tree); err != nil {
		ev["err"] = "notjson"
		return ev
	}
	leaves := []interface{}{}
	flattenJSON(nil, tree, &leaves)
	ev["leaves"] = leaves
	// the same document through the value (not the pointer) and through MarshalJSON directly
	doc2, err2 := json.Marshal(*phy)
	doc3, err3 := phy.MarshalJSON()
	ev["same"] = err2 == nil && err3 == nil && bytes.Equal(doc, doc2) && bytes.Equal(doc, doc3)
	return ev
}

func drvJSONView(c *ctx) error {
	switch c.mode {
	case "frames":
		for i := 0; i < c.n; i++ {
			var v M
			if c.rnd.Intn(3) == 0 {
				v = c.genJoinFrame(false)
			} else {
				v = c.genDataFrame(false)
			}
			c.emit(jsonViewEvent(c, v))
		}
		// every MType x Major with a proprietary body, every CID as a payload-less command
		for mt := 0; mt < 8; mt++ {
			for mj := 0; mj < 4; mj++ {
				c.emit(jsonViewEvent(c, M{"kind": "raw", "mtype": mt, "major": mj, "mic": c.ints(4), "bytes": c.ints(c.rnd.Intn(5))}))
			}
		}
	default:
		return fmt.Errorf("jsonview: unknown mode %q", c.mode)
	}
	return nil
}
